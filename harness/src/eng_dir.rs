//! Engine `dir` (C11): `load_dir` / `load_rec_dir` / `iter` / `iter_cached` (and `Arc<T>`) through
//! an `AssetCache` over every source kind built from one generated tree, for asset types with
//! different extension lists; unreadable sub-directories through a wrapper source.
//! Oracle: computed from the generated tree.

use crate::common::*;
use crate::srctree::*;
use assets_manager::{loader::Loader, Asset, AssetCache, BoxedError};
use std::{borrow::Cow, sync::Arc};

#[derive(Default)]
pub struct DirEngine;

pub struct Raw;
macro_rules! mtype {
    ($n:ident, $exts:expr) => {
        pub struct $n { ext: String, bytes: Vec<u8> }
        impl From<(String, Vec<u8>)> for $n { fn from(x: (String, Vec<u8>)) -> Self { $n { ext: x.0, bytes: x.1 } } }
        impl Asset for $n { const EXTENSIONS: &'static [&'static str] = $exts; type Loader = Raw; }
        impl Loaded for $n { fn show(&self) -> String { format!("{}:{}", hexs(&self.ext), hex(&self.bytes)) } }
    };
}
pub trait Loaded { fn show(&self) -> String; }
impl<T: From<(String, Vec<u8>)>> Loader<T> for Raw {
    fn load(content: Cow<[u8]>, ext: &str) -> Result<T, BoxedError> { Ok(T::from((ext.to_string(), content.into_owned()))) }
}
const EXT_LISTS: &[&[&str]] = &[&[], &[""], &["x"], &["a", "b"], &["a", "b", "c"], &["x", ""], &["b", "a", "x"]];
mtype!(M0, &[]);
mtype!(M1, &[""]);
mtype!(M2, &["x"]);
mtype!(M3, &["a", "b"]);
mtype!(M4, &["a", "b", "c"]);
mtype!(M5, &["x", ""]);
mtype!(M6, &["b", "a", "x"]);

macro_rules! with_type {
    ($k:expr, $f:ident, $($arg:expr),*) => {
        match $k { 0 => $f::<M0>($($arg),*), 1 => $f::<M1>($($arg),*), 2 => $f::<M2>($($arg),*), 3 => $f::<M3>($($arg),*),
                   4 => $f::<M4>($($arg),*), 5 => $f::<M5>($($arg),*), 6 => $f::<M6>($($arg),*), k => panic!("dir engine: no asset type {k}") }
    };
}

/// A compound with its OWN way to walk directories (C11: `Arc<T>` must list like `T`): it takes the files a `M3` would
/// take (extensions a, b) but does not descend into sub-directories whose name starts with `a` or `_`.
pub struct Cust(#[allow(dead_code)] String);
fn cust_pruned(id: &str) -> bool { let last = id.rsplit('.').next().unwrap_or(id); last.starts_with('a') || last.starts_with('_') }
impl assets_manager::Compound for Cust {
    fn load(cache: assets_manager::AnyCache, id: &assets_manager::SharedString) -> Result<Self, BoxedError> { Ok(Cust(cache.load::<M3>(id)?.read().show())) }
}
impl assets_manager::asset::DirLoadable for Cust {
    fn select_ids(cache: assets_manager::AnyCache, id: &assets_manager::SharedString) -> std::io::Result<Vec<assets_manager::SharedString>> {
        use assets_manager::source::{DirEntry, Source};
        let mut ids = Vec::new();
        cache.raw_source().read_dir(id, &mut |e| { if let DirEntry::File(i, ext) = e { if ext == "a" || ext == "b" { ids.push(i.into()); } } })?;
        Ok(ids)
    }
    fn sub_directories(cache: assets_manager::AnyCache, id: &assets_manager::SharedString, mut f: impl FnMut(&str)) -> std::io::Result<()> {
        use assets_manager::source::{DirEntry, Source};
        cache.raw_source().read_dir(id, &mut |e| { if let DirEntry::Directory(d) = e { if !cust_pruned(d) { f(d); } } })
    }
}

fn err_of(e: &assets_manager::Error) -> String {
    // a RecursiveDirectory error wraps the Directory's `Error`, which wraps the io::Error
    let mut r: &(dyn std::error::Error + 'static) = e.reason();
    loop {
        if let Some(io) = r.downcast_ref::<std::io::Error>() { return err_kind(io); }
        match r.downcast_ref::<assets_manager::Error>() { Some(inner) => r = inner.reason(), None => return "err other".into() }
    }
}

fn ids_line(ids: Vec<String>, sort: bool) -> String {
    let mut v: Vec<String> = ids.iter().map(|i| hexs(i)).collect();
    if sort { v.sort(); }
    let mut s = String::from("ok");
    for x in v { s.push(' '); s.push_str(&x); }
    s
}

fn op_ld<T: Asset>(cache: &AssetCache<Wrap>, rec_mode: bool, arc: bool, id: &str) -> Result<Vec<String>, String> {
    let ids: Result<Vec<String>, String> = match (rec_mode, arc) {
        (false, false) => cache.load_dir::<T>(id).map(|h| h.read().ids().map(|s| s.to_string()).collect()).map_err(|e| err_of(&e)),
        (false, true) => cache.load_dir::<Arc<T>>(id).map(|h| h.read().ids().map(|s| s.to_string()).collect()).map_err(|e| err_of(&e)),
        (true, false) => cache.load_rec_dir::<T>(id).map(|h| h.read().ids().map(|s| s.to_string()).collect()).map_err(|e| err_of(&e)),
        (true, true) => cache.load_rec_dir::<Arc<T>>(id).map(|h| h.read().ids().map(|s| s.to_string()).collect()).map_err(|e| err_of(&e)),
    };
    ids
}

fn op_cu<T: assets_manager::asset::DirLoadable>(cache: &AssetCache<Wrap>, rec_mode: bool, id: &str) -> Result<Vec<String>, String> {
    if rec_mode { cache.load_rec_dir::<T>(id).map(|h| h.read().ids().map(|s| s.to_string()).collect()).map_err(|e| err_of(&e)) }
    else { cache.load_dir::<T>(id).map(|h| h.read().ids().map(|s| s.to_string()).collect()).map_err(|e| err_of(&e)) }
}

fn op_it<T: Asset + Loaded>(cache: &AssetCache<Wrap>, rec_mode: bool, _arc: bool, id: &str) -> Result<Vec<String>, String> {
    let show = |id: &str, r: Result<&assets_manager::Handle<T>, assets_manager::Error>| match r { Ok(h) => format!("{}={}", hexs(id), h.read().show()), Err(_) => format!("{}=err", hexs(id)) };
    if rec_mode {
        let h = cache.load_rec_dir::<T>(id).map_err(|e| err_of(&e))?;
        let d = h.read();
        let ids: Vec<String> = d.ids().map(|s| s.to_string()).collect();
        let it = d.iter(cache);
        if it.len() != ids.len() { return Err("err iter-len".into()); }
        Ok(ids.iter().zip(it).map(|(i, r)| show(i, r)).collect())
    } else {
        let h = cache.load_dir::<T>(id).map_err(|e| err_of(&e))?;
        let d = h.read();
        let ids: Vec<String> = d.ids().map(|s| s.to_string()).collect();
        let it = d.iter(cache);
        if it.len() != ids.len() { return Err("err iter-len".into()); }
        Ok(ids.iter().zip(it).map(|(i, r)| show(i, r)).collect())
    }
}

fn op_ic<T: Asset>(cache: &AssetCache<Wrap>, rec_mode: bool, _arc: bool, id: &str) -> Result<Vec<String>, String> {
    if rec_mode {
        let h = cache.load_rec_dir::<T>(id).map_err(|e| err_of(&e))?;
        let d = h.read();
        let v: Vec<String> = d.iter_cached(cache).map(|h| h.id().to_string()).collect();
        Ok(v)
    } else {
        let h = cache.load_dir::<T>(id).map_err(|e| err_of(&e))?;
        let d = h.read();
        let v: Vec<String> = d.iter_cached(cache).map(|h| h.id().to_string()).collect();
        Ok(v)
    }
}

fn op_get<T: Asset + Loaded>(cache: &AssetCache<Wrap>, _r: bool, _a: bool, id: &str) -> Result<Vec<String>, String> {
    cache.load::<T>(id).map(|h| vec![h.read().show()]).map_err(|_| "err".to_string())
}

/// Expected ids straight from the tree (statement of C11).
fn expect_ids(s: &Setup, exts: &[&str], rec_mode: bool, d: &str) -> Result<Vec<String>, ()> {
    let t = &s.tree;
    if !t.is_dir(d) || s.deny.iter().any(|x| x == d) { return Err(()); }
    let direct = |dir: &str| -> Vec<String> {
        let mut v: Vec<String> = t.files.iter().filter(|f| join_id(&f.dir) == dir && exts.contains(&f.ext.as_str())).map(|f| f.id()).collect();
        v.sort(); v.dedup(); v
    };
    if !rec_mode { return Ok(direct(d)); }
    let mut out = vec![];
    for sub in t.dirs_below(d) {
        // readable: no directory on the way from d (exclusive) down to sub (inclusive) is denied
        let blocked = s.deny.iter().any(|x| x != d && (x == &sub || sub.starts_with(&format!("{x}."))) && (d.is_empty() || x.starts_with(&format!("{d}."))));
        if !blocked { out.extend(direct(&sub)); }
    }
    out.sort();
    Ok(out)
}

impl Engine for DirEngine {
    fn name(&self) -> &'static str { "dir" }

    fn gen_case(&mut self, rng: &mut Prng, tier: Tier, idx: usize) -> Vec<String> {
        let kinds = ["fs", "zip", "tar", "emb"];
        let (t, kind, dm) = if idx < 4 * N_SMALL { (small_tree(idx / 4), kinds[idx % 4], if idx % 8 < 4 { DirMembers::All } else { DirMembers::None }) }
            else { (gen_tree(rng, tier), kinds[idx % 4], *rng.pick(&[DirMembers::All, DirMembers::All, DirMembers::Some, DirMembers::None])) };
        let mut l = vec![];
        let dir_ids: Vec<String> = std::iter::once(String::new()).chain(t.dirs.iter().map(|q| join_id(q))).collect();
        let mut denied: Vec<String> = vec![];
        if idx >= 4 * N_SMALL && !t.dirs.is_empty() && rng.chance(2, 5) {
            let n = rng.range(1, 2);
            denied = (0..n).map(|_| dir_ids[rng.range(1, dir_ids.len() - 1)].clone()).collect();
            l.push(format!("s.deny {}", denied.iter().map(|d| hexs(d)).collect::<Vec<_>>().join(" ")));
        }
        let (order, ds) = (rng.below(5), rng.below(3));
        l.extend(setup_lines(&t, rng, kind, dm, order, ds, false));
        let nops = if idx < 4 * N_SMALL { 10 } else { rng.range(6, 16) };
        for j in 0..nops {
            let k = if idx < 4 * N_SMALL { [2usize, 1, 5, 0, 3][j % 5] } else { rng.below(EXT_LISTS.len()) };
            let target = if rng.chance(1, 8) { if rng.chance(1, 2) { "zz".to_string() } else { t.files.first().map(|f| f.id()).unwrap_or("zz".into()) } } else { rng.pick(&dir_ids).clone() };
            let mode = if rng.chance(1, 2) { "d" } else { "r" };
            match rng.below(8) {
                0 | 1 | 2 => l.push(format!("ld {mode} {k} 0 {}", hexs(&target))),
                3 => l.push(format!("ld {mode} {k} 1 {}", hexs(&target))),
                4 => l.push(format!("it {mode} {k} 0 {}", hexs(&target))),
                5 => { if let Some(f) = (!t.files.is_empty()).then(|| rng.pick(&t.files)) { l.push(format!("get {k} {}", hexs(&f.id()))); } l.push(format!("ic {mode} {k} 0 {}", hexs(&target))); }
                _ => l.push(format!("ic {mode} {k} 0 {}", hexs(&target))),
            }
        }
        if denied.is_empty() { for _ in 0..rng.range(1, 3) { let target = rng.pick(&dir_ids).clone(); l.push(format!("cu {} {}", if rng.chance(3, 4) { "r" } else { "d" }, hexs(&target))); } }
        // an unreadable sub-directory must cost exactly its own subtree: recursive listings rooted at its parent and at the
        // root (siblings listed before AND after it have to survive)
        for d in &denied {
            let k = rng.below(EXT_LISTS.len());
            let par = crate::types::parent_id(d).unwrap_or("").to_string();
            l.push(format!("ld r {k} {} {}", rng.below(2), hexs(&par)));
            l.push(format!("ld r {} 0 {}", rng.below(EXT_LISTS.len()), hexs("")));
        }
        l
    }

    fn exec_case(&mut self, lines: &[String], rec: &mut CaseRec) {
        let mut s = Setup::default();
        let mut cache: Option<AssetCache<Wrap>> = None;
        let mut cached: Vec<(usize, String)> = vec![];
        let mut known: Vec<String> = vec![];
        let mut fresh: Vec<String> = vec![];
        for line in lines {
            let w: Vec<&str> = line.split_whitespace().collect();
            if s.handle(&w, line, rec) { continue; }
            match w[0] {
                "s.open" => {
                    match s.open(&w) {
                        Ok(x) => { cache = Some(AssetCache::without_hot_reloading(x)); cached.clear(); rec.op(line.clone(), "ok") }
                        Err(e) => { cache = None; rec.op(line.clone(), format!("err-open {}", e.replace(' ', "_"))) }
                    }
                    rec.stat(format!("open/{}{}", w[1], if s.deny.is_empty() { "" } else { "+unreadable-dirs" }));
                }
                "ld" | "it" | "ic" => {
                    let Some(c) = cache.as_ref() else { rec.op(line.clone(), "no-source"); continue };
                    let rec_mode = w[1] == "r";
                    let k: usize = w[2].parse().expect("type index");
                    let arc = w[3] == "1";
                    let id = unhexs(w[4]);
                    let exts = EXT_LISTS[k];
                    let ext_hex: Vec<String> = exts.iter().map(|e| hexs(e)).collect();
                    let model_line = format!("s.{} {} {} {}", w[0], w[1], hexs(&id), ext_hex.join(" "));
                    let res = match w[0] { "ld" => with_type!(k, op_ld, c, rec_mode, arc, &id), "it" => with_type!(k, op_it, c, rec_mode, arc, &id), _ => with_type!(k, op_ic, c, rec_mode, arc, &id) };
                    rec.nontrivial = true;
                    rec.stat(format!("{}/{}/exts={:?}{}", w[0], if rec_mode { "rec" } else { "dir" }, exts, if arc { "/Arc" } else { "" }));
                    let want = expect_ids(&s, exts, rec_mode, &id);
                    let shown = match &res {
                        Err(e) => e.clone(),
                        Ok(v) if w[0] == "it" => { let mut v = v.clone(); if rec_mode { v.sort(); } let mut s = String::from("ok"); for x in v { s.push(' '); s.push_str(&x); } s }
                        Ok(v) => ids_line(v.clone(), rec_mode),
                    };
                    rec.op(model_line, shown.clone());
                    rec.stat(format!("{}/{}", w[0], if res.is_ok() { "ok" } else { "err" }));
                    if !s.of_tree() { continue; }
                    // ---- oracle
                    let got_ids: Result<Vec<String>, ()> = match (&res, w[0]) {
                        (Err(_), _) => Err(()),
                        (Ok(v), "it") => Ok(v.iter().map(|x| unhexs(x.split('=').next().unwrap())).collect()),
                        (Ok(v), _) => Ok(v.clone()),
                    };
                    let mut problem: Option<String> = None;
                    match (&want, &got_ids) {
                        (Err(()), Err(())) => {}
                        (Err(()), Ok(v)) => problem = Some(format!("a missing / unreadable directory was listed as {v:?}")),
                        (Ok(wv), Err(())) => problem = Some(format!("error instead of ids {wv:?} ({shown})")),
                        (Ok(wv), Ok(gv)) => {
                            if w[0] == "ic" {
                                let want_c: Vec<&String> = wv.iter().filter(|i| cached.contains(&(k, (*i).clone()))).collect();
                                let mut g = gv.clone(); if rec_mode { g.sort(); }
                                if want_c.iter().map(|s| s.as_str()).collect::<Vec<_>>() != g.iter().map(|s| s.as_str()).collect::<Vec<_>>() { problem = Some(format!("iter_cached yielded {g:?}, the cached ones among the directory's ids are {want_c:?}")); }
                            } else {
                                let mut g = gv.clone();
                                if rec_mode { g.sort(); } // the order across sub-directories is not constrained
                                if &g != wv { problem = Some(format!("ids {g:?}, the tree says {wv:?}")); }
                                if !rec_mode && gv.windows(2).any(|p| p[0] >= p[1]) { problem = Some(format!("ids not strictly sorted: {gv:?}")); }
                            }
                        }
                    }
                    if w[0] == "it" {
                        if let Ok(v) = &res {
                            for x in v {
                                let (i, r) = x.split_once('=').unwrap();
                                let i = unhexs(i);
                                let exp = exts.iter().find_map(|e| s.tree.read(&i, e).map(|b| format!("{}:{}", hexs(e), hex(b))));
                                if Some(r.to_string()) != exp { problem = Some(format!("iter loaded {i:?} as {r}, the tree says {exp:?}")); }
                                if r != "err" && !cached.contains(&(k, i.clone())) { cached.push((k, i)); }
                            }
                        }
                    }
                    if let Some(p) = problem {
                        let implicit = implicit_dirs(&s.tree, &s.members);
                        // explained by directories without own member: nothing wrong is listed, things are only missing
                        let only_missing = match (&want, &got_ids) {
                            (Ok(wv), Ok(gv)) => gv.iter().all(|g| wv.contains(g) && (w[0] != "ic" || cached.contains(&(k, g.clone())))) && { let mut g = gv.clone(); g.sort(); g.dedup(); g.len() == gv.len() },
                            (Ok(_), Err(())) => shown == "err nf",
                            _ => false };
                        let cls = if s.is_archive() && s.tree.is_empty() && id.is_empty() && shown == "err nf" { "archive-empty-root-missing" }
                            else if s.is_archive() && !implicit.is_empty() && only_missing { "archive-implicit-dir-missing" }
                            else { "dir-ids-mismatch" };
                        let msg = format!("{cls} {} source, {} {} exts={exts:?} id={id:?}: {p}", s.kind, w[0], if rec_mode { "load_rec_dir" } else { "load_dir" });
                        if cls == "dir-ids-mismatch" { fresh.push(msg) } else { known.push(msg) }
                    }
                }
                "cu" => {
                    // custom DirLoadable: `Cust` and `Arc<Cust>` against the tree (pruned walk); the model has no such type
                    let Some(c) = cache.as_ref() else { rec.op(line.clone(), "no-source"); continue };
                    let rec_mode = w[1] == "r";
                    let id = unhexs(w[2]);
                    rec.nontrivial = true;
                    rec.stat(format!("cu/{}", if rec_mode { "rec" } else { "dir" }));
                    let plain = op_cu::<Cust>(c, rec_mode, &id);
                    let arc = op_cu::<Arc<Cust>>(c, rec_mode, &id);
                    let want: Option<Vec<String>> = if !s.of_tree() || !s.deny.is_empty() { None } else if !s.tree.is_dir(&id) { Some(vec!["<err>".into()]) } else {
                        let t = &s.tree;
                        let direct = |dir: &str| -> Vec<String> { let mut v: Vec<String> = t.files.iter().filter(|f| join_id(&f.dir) == dir && (f.ext == "a" || f.ext == "b")).map(|f| f.id()).collect(); v.sort(); v.dedup(); v };
                        let mut out = vec![];
                        if rec_mode {
                            for sub in t.dirs_below(&id) {
                                // no pruned component strictly below `id` on the way to `sub`
                                let rel = if id.is_empty() { sub.clone() } else if sub == id { String::new() } else { sub[id.len() + 1..].to_string() };
                                let mut acc = id.clone(); let mut ok = true;
                                for comp in rel.split('.').filter(|c| !c.is_empty()) { acc = if acc.is_empty() { comp.to_string() } else { format!("{acc}.{comp}") }; if cust_pruned(&acc) { ok = false; } }
                                if ok { out.extend(direct(&sub)); }
                            }
                            out.sort();
                        } else { out = direct(&id); }
                        Some(out)
                    };
                    let norm = |r: &Result<Vec<String>, String>| -> Vec<String> { match r { Ok(v) => { let mut v = v.clone(); if rec_mode { v.sort(); } v } Err(_) => vec!["<err>".into()] } };
                    let (p, a) = (norm(&plain), norm(&arc));
                    let implicit = s.is_archive() && !implicit_dirs(&s.tree, &s.members).is_empty();
                    let mut agree = p == a;
                    if !agree { fresh.push(format!("dir-ids-mismatch {} source, custom DirLoadable id={id:?} rec={rec_mode}: Arc<T> lists {a:?} but T lists {p:?}", s.kind)); }
                    if let Some(wv) = want { if !implicit && p != wv { agree = false; fresh.push(format!("dir-ids-mismatch {} source, custom DirLoadable id={id:?} rec={rec_mode}: listed {p:?}, the tree (pruned walk) says {wv:?}", s.kind)); } }
                    rec.op("dir.cust".to_string(), if agree { "agree" } else { "differ" });
                }
                "get" => {
                    let Some(c) = cache.as_ref() else { rec.op(line.clone(), "no-source"); continue };
                    let k: usize = w[1].parse().expect("type index");
                    let id = unhexs(w[2]);
                    let exts = EXT_LISTS[k];
                    let ext_hex: Vec<String> = exts.iter().map(|e| hexs(e)).collect();
                    let res = with_type!(k, op_get, c, false, false, &id);
                    let shown = match &res { Ok(v) => format!("ok {}", v[0]), Err(e) => e.clone() };
                    rec.op(format!("s.get {} {}", hexs(&id), ext_hex.join(" ")), shown.clone());
                    let exp = exts.iter().find_map(|e| s.tree.read(&id, e).map(|b| format!("ok {}:{}", hexs(e), hex(b)))).unwrap_or("err".into());
                    if s.of_tree() && exp != shown { fresh.push(format!("load-mismatch {} source: load {id:?} exts={exts:?} gave {shown}, the tree says {exp}", s.kind)); }
                    if res.is_ok() && !cached.contains(&(k, id.clone())) { cached.push((k, id)); }
                }
                other => panic!("dir engine: unknown line {other}"),
            }
        }
        for m in fresh.into_iter().chain(known) { rec.oracle_fail(m); }
    }
}
