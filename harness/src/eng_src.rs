//! Engine `src` (C04): one generated tree seen through `FileSystem`, `Zip`, `Tar`, `Embedded`
//! (public `Source` API only). Per case: tree lines, archive member lines, `s.open`, then probes
//! `s.rd` / `s.ls` / `s.exf` / `s.exd` (`probe-all` expands to every node of the tree).
//! Oracle: the generated tree itself (read = stored bytes, read_dir = each direct child once,
//! exists agrees, absent = not found, every listed entry is readable), plus concurrent readers.

use crate::common::*;
use crate::srctree::*;
use assets_manager::source::{DirEntry, Source};

#[derive(Default)]
pub struct SrcEngine;

const KINDS: &[&str] = &["fs", "zip", "tar", "emb"];

fn probe_lines_for(t: &Tree) -> Vec<String> {
    let mut l = vec![format!("s.ls -"), format!("s.exd -")];
    for q in &t.dirs { let id = join_id(q); l.push(format!("s.ls {}", hexs(&id))); l.push(format!("s.exd {}", hexs(&id))); }
    for f in &t.files { l.push(format!("s.rd {} {}", hexs(&f.id()), hexs(&f.ext))); l.push(format!("s.exf {} {}", hexs(&f.id()), hexs(&f.ext))); }
    l
}

/// Probes for things that are *not* in the tree (and some that are, under the wrong kind).
fn absent_probes(t: &Tree, rng: &mut Prng) -> Vec<String> {
    let mut l = vec![];
    let mut ids: Vec<(String, String)> = vec![("zz".into(), "x".into()), ("".into(), "".into()), ("".into(), "x".into())];
    for f in &t.files {
        if rng.chance(1, 2) { ids.push((f.id(), if f.ext == "x" { "y".into() } else { "x".into() })); }
        if rng.chance(1, 3) { ids.push((format!("{}.zz", f.id()), f.ext.clone())); }       // below a file
        if rng.chance(1, 4) { ids.push((f.id(), "".into())); }
        if rng.chance(1, 6) { ids.push((f.id().replacen('.', "..", 1), f.ext.clone())); }  // empty component (malformed id)
        if rng.chance(1, 8) { ids.push((format!("{}.", f.id()), f.ext.clone())); }
        if rng.chance(1, 8) { ids.push((format!(".{}", f.id()), f.ext.clone())); }
    }
    for q in &t.dirs {
        let id = join_id(q);
        if rng.chance(1, 2) { ids.push((id.clone(), "".into())); }                         // a directory probed as a file
        if rng.chance(1, 3) { ids.push((id.clone(), "x".into())); }
        if rng.chance(1, 3) { ids.push((format!("{id}.zz"), "x".into())); }
    }
    for (id, ext) in ids {
        match rng.below(4) {
            0 => l.push(format!("s.rd {} {}", hexs(&id), hexs(&ext))),
            1 => l.push(format!("s.exf {} {}", hexs(&id), hexs(&ext))),
            2 => l.push(format!("s.ls {}", hexs(&id))),
            _ => l.push(format!("s.exd {}", hexs(&id))),
        }
        if rng.chance(1, 3) { l.push(format!("s.rd {} {}", hexs(&id), hexs(&ext))); l.push(format!("s.exf {} {}", hexs(&id), hexs(&ext))); }
    }
    l
}

pub fn run_probe(src: &dyn Source, w: &[&str]) -> String {
    match w[0] {
        "s.rd" => match src.read(&unhexs(w[1]), &unhexs(w[2])) { Ok(c) => format!("ok {}", hex(c.as_ref())), Err(e) => err_kind(&e) },
        "s.ls" => {
            let mut v = vec![];
            match src.read_dir(&unhexs(w[1]), &mut |e| v.push(match e { DirEntry::File(id, ext) => render_file(id, ext), DirEntry::Directory(id) => render_dir(id) })) {
                Ok(()) => { v.sort(); let mut s = String::from("ok"); for x in v { s.push(' '); s.push_str(&x); } s }
                Err(e) => err_kind(&e),
            }
        }
        "s.exf" => src.exists(DirEntry::File(&unhexs(w[1]), &unhexs(w[2]))).to_string(),
        "s.exd" => src.exists(DirEntry::Directory(&unhexs(w[1]))).to_string(),
        other => panic!("src engine: unknown probe {other}"),
    }
}

/// What the statement demands for a probe, straight from the tree.
fn expected(t: &Tree, w: &[&str]) -> String {
    match w[0] {
        "s.rd" => match t.read(&unhexs(w[1]), &unhexs(w[2])) { Some(b) => format!("ok {}", hex(b)), None => "err nf".into() },
        "s.ls" => { let id = unhexs(w[1]); if t.is_dir(&id) { let mut s = String::from("ok"); for x in t.children(&id) { s.push(' '); s.push_str(&x); } s } else { "err nf".into() } }
        "s.exf" => t.read(&unhexs(w[1]), &unhexs(w[2])).is_some().to_string(),
        "s.exd" => t.is_dir(&unhexs(w[1])).to_string(),
        _ => unreachable!(),
    }
}

/// Class token of a failed probe. The three families of defects this check reproduced on the
/// unrepaired tree (since repaired; `known_findings.json`: fixed) are recognised by their
/// *scenario* (a directory without own member, the empty archive, a probe of the wrong kind on the
/// file system) and by the failure having the shape that scenario explains, so that a returning
/// defect is named; everything else is a plain mismatch.
fn classify(s: &Setup, w: &[&str], want: &str, got: &str) -> &'static str {
    let t = &s.tree;
    let id = unhexs(w[1]);
    if s.is_archive() {
        let dir_probe = w[0] == "s.ls" || w[0] == "s.exd";
        if dir_probe && t.is_empty() && id.is_empty() && (got == "err nf" || got == "false") { return "archive-empty-root-missing"; }
        let implicit = implicit_dirs(t, &s.members);
        if dir_probe && !implicit.is_empty() {
            if (got == "err nf" || got == "false") && (implicit.contains(&id) || id.is_empty()) { return "archive-implicit-dir-missing"; }
            if want.starts_with("ok") && got.starts_with("ok") {
                let wv: Vec<&str> = want.split(' ').skip(1).collect();
                let gv: Vec<&str> = got.split(' ').skip(1).collect();
                let only_implicit_missing = wv.iter().all(|e| gv.contains(e) || implicit.iter().any(|d| render_dir(d) == *e));
                let nothing_extra = gv.iter().all(|e| wv.contains(e)) && { let mut g = gv.clone(); g.sort(); g.dedup(); g.len() == gv.len() };
                if only_implicit_missing && nothing_extra { return "archive-implicit-dir-missing"; }
            }
        }
    }
    if s.kind == "fs" {
        let comps: Vec<&str> = id.split('.').collect();
        let through_file = (1..comps.len()).any(|k| t.is_extless_file(&comps[..k].join(".")));
        let file_probe = w[0] == "s.rd" || w[0] == "s.exf";
        if file_probe && unhexs(w[2]).is_empty() && t.is_dir(&id) && (got == "err isdir" || got == "true") { return "fs-kind-confusion"; }
        if !file_probe && t.is_extless_file(&id) && (got == "err notdir" || got == "true") { return "fs-kind-confusion"; }
        if through_file && got == "err notdir" { return "fs-kind-confusion"; }
    }
    "source-view-mismatch"
}

/// A tar archive [first.x = "ok", last.x = `len` bytes] truncated `cut` bytes before the end of last.x's data: the source
/// may refuse the archive or fail to read `last.x`; it must not hand out a prefix. `first.x` stays readable.
fn trunc_probe(len: usize, cut: usize, on_disk: bool) -> String {
    use assets_manager::source::Tar;
    let data: Vec<u8> = (0..len).map(|i| (i * 7 + 3) as u8).collect();
    let ms = vec![Member { is_file: true, path: "first.x".into(), bytes: b"ok".to_vec() }, Member { is_file: true, path: "last.x".into(), bytes: data.clone() }];
    let Ok(full) = build_tar(&ms) else { return "harness-error".into() };
    // header(512) + first data padded (512) + header(512) + last data: cut inside it
    let end_of_last = 512 * 3 + len;
    if full.len() < end_of_last { return "harness-error".into(); }
    let bytes = full[..end_of_last - cut].to_vec();
    let tmp;
    let tar: Box<dyn Source> = if on_disk {
        tmp = TempRoot::new();
        let p = tmp.0.join("t.tar");
        if std::fs::write(&p, &bytes).is_err() { return "harness-error".into(); }
        match Tar::open(&p) { Ok(t) => Box::new(t), Err(_) => return "refused".into() }
    } else { match Tar::from_bytes(bytes) { Ok(t) => Box::new(t), Err(_) => return "refused".into() } };
    if tar.read("first", "x").map(|c| c.as_ref().to_vec()).ok() != Some(b"ok".to_vec()) { return "garbage".into(); }
    let last = tar.read("last", "x").map(|c| c.as_ref().to_vec());
    let out: String = match last {
        Err(_) => "err".into(),
        Ok(got) => { if got == data { "whole".into() } else if got.len() < len && data.starts_with(&got) { "prefix".into() } else { "garbage".into() } }
    };
    out
}

/// `Tar::from_reader` over a legal `Read + Seek` that never returns more than the rest of the current 4 KiB page.
fn shortread_probe(len: usize) -> String {
    use assets_manager::source::Tar;
    use std::io::{Read, Seek, SeekFrom};
    #[derive(Clone)]
    struct Paged(std::io::Cursor<std::sync::Arc<[u8]>>);
    impl Read for Paged {
        fn read(&mut self, buf: &mut [u8]) -> std::io::Result<usize> {
            let pos = self.0.position() as usize;
            let room = 4096 - pos % 4096;
            let n = buf.len().min(room);
            self.0.read(&mut buf[..n])
        }
    }
    impl Seek for Paged { fn seek(&mut self, p: SeekFrom) -> std::io::Result<u64> { self.0.seek(p) } }
    let data: Vec<u8> = (0..len).map(|i| (i * 11 + 1) as u8 | 1).collect();   // no zero byte
    let ms = vec![Member { is_file: true, path: "small.x".into(), bytes: b"ok".to_vec() }, Member { is_file: true, path: "d/big.x".into(), bytes: data.clone() }];
    let Ok(bytes) = build_tar(&ms) else { return "harness-error".into() };
    let tar = match Tar::from_reader(Paged(std::io::Cursor::new(bytes.into()))) { Ok(t) => t, Err(e) => return format!("refused:{}", e.kind()) };
    let got = match tar.read("d.big", "x") { Ok(c) => c.as_ref().to_vec(), Err(e) => return format!("err:{}", e.kind()) };
    if got == data { "same".into() } else if got.len() != len { format!("{}-bytes", got.len()) } else { format!("different-from-byte-{}", got.iter().zip(&data).position(|(a, b)| a != b).unwrap_or(0)) }
}

static EMBFIX: assets_manager::source::RawEmbedded<'static> = assets_manager::source::embed!("fixtures/embtree");

fn embfix_compare() -> Vec<String> {
    use assets_manager::source::{Embedded, FileSystem};
    let emb = Embedded::from(EMBFIX);
    let fs = match FileSystem::new(concat!(env!("CARGO_MANIFEST_DIR"), "/fixtures/embtree")) { Ok(f) => f, Err(e) => return vec![format!("fixture directory cannot be opened: {e}")] };
    let mut bad = vec![];
    let mut todo = vec![String::new()];
    let mut seen_files = 0usize;
    while let Some(d) = todo.pop() {
        let list = |x: &dyn Fn(&mut dyn FnMut(DirEntry)) -> std::io::Result<()>| -> Result<Vec<(String, Option<String>)>, String> {
            let mut v = vec![];
            x(&mut |e| v.push(match e { DirEntry::File(i, e) => (i.to_string(), Some(e.to_string())), DirEntry::Directory(i) => (i.to_string(), None) })).map_err(|e| e.kind().to_string())?;
            v.sort(); Ok(v)
        };
        let lf = list(&|f| fs.read_dir(&d, f));
        let le = list(&|f| emb.read_dir(&d, f));
        if lf != le { bad.push(format!("read_dir({d:?}): FileSystem {lf:?}, Embedded {le:?}")); }
        for (i, e) in lf.unwrap_or_default() {
            match e {
                None => { if !emb.exists(DirEntry::Directory(&i)) { bad.push(format!("exists(Directory({i:?})) false in Embedded")); } todo.push(i); }
                Some(e) => {
                    seen_files += 1;
                    if !emb.exists(DirEntry::File(&i, &e)) { bad.push(format!("exists(File({i:?}, {e:?})) false in Embedded")); }
                    let (a, b) = (fs.read(&i, &e).map(|c| c.as_ref().to_vec()).map_err(|x| x.kind()), emb.read(&i, &e).map(|c| c.as_ref().to_vec()).map_err(|x| x.kind()));
                    if a != b { bad.push(format!("read({i:?}, {e:?}): FileSystem {a:?}, Embedded {b:?}")); }
                }
            }
        }
    }
    if seen_files != 12 { bad.push(format!("fixture has 12 files, the walk saw {seen_files}")); }
    bad
}

impl Engine for SrcEngine {
    fn name(&self) -> &'static str { "src" }

    fn gen_case(&mut self, rng: &mut Prng, tier: Tier, idx: usize) -> Vec<String> {
        // bounded-exhaustive slice: 20 small trees x { fs, emb, (zip, tar) x (all dir members, none) x (dirs first, dirs last) }
        let per_tree = 10;
        if idx < N_SMALL * per_tree {
            let t = small_tree(idx / per_tree);
            let v = idx % per_tree;
            let (kind, dm, order) = match v {
                0 => ("fs", DirMembers::All, 0), 1 => ("emb", DirMembers::All, 0),
                _ => (if (v - 2) / 4 == 0 { "zip" } else { "tar" }, if (v - 2) % 2 == 0 { DirMembers::All } else { DirMembers::None }, ((v - 2) / 2) % 2),
            };
            let mut l = t.lines();
            if kind == "zip" || kind == "tar" {
                for m in members_of(&t, rng, dm, order, 0) { l.push(member_line(&m)); }
                l.push(format!("s.open {kind} stored mem"));
            } else { l.push(format!("s.open {kind}")); }
            l.push("probe-all".into());
            for (id, ext) in [("a", ""), ("a", "x"), ("a", "y"), ("d", ""), ("d", "x"), ("d.b", "x"), ("d.b", ""), ("d.e", ""), ("a.b", "x"), ("", ""), ("", "x"), ("zz", "")] {
                l.push(format!("s.rd {} {}", hexs(id), hexs(ext)));
                l.push(format!("s.exf {} {}", hexs(id), hexs(ext)));
            }
            for id in ["a", "d", "d.b", "d.e", "d.e.f", "a.b", "zz"] { l.push(format!("s.ls {}", hexs(id))); l.push(format!("s.exd {}", hexs(id))); }
            return l;
        }
        if idx == N_SMALL * per_tree { return vec!["embfix".into()]; }
        if idx == N_SMALL * per_tree + 2 || (idx > N_SMALL * per_tree + 2 && idx % 40 == 8) {
            // a well-formed tar served by a reader that returns short reads (never crosses a 4 KiB page)
            return vec![format!("shortread {}", rng.range(4097, if tier == Tier::Thorough { 60000 } else { 20000 }))];
        }
        if idx == N_SMALL * per_tree + 1 || (idx > N_SMALL * per_tree + 1 && idx % 40 == 7) {
            // a tar archive cut short inside the data of its last member (in memory and on disk)
            let len = rng.range(2, if tier == Tier::Thorough { 5000 } else { 700 });
            return vec![format!("trunc {len} {} {}", rng.range(1, len - 1), if rng.chance(1, 2) { "mem" } else { "file" })];
        }
        let t = gen_tree(rng, tier);
        let kind = KINDS[idx % 4];
        let dm = *rng.pick(&[DirMembers::All, DirMembers::All, DirMembers::None, DirMembers::Some]);
        let malformed = (kind == "zip" || kind == "tar") && rng.chance(1, 8);
        let (order, ds) = (rng.below(5), rng.below(3));
        let mut l = setup_lines(&t, rng, kind, dm, order, ds, malformed);
        l.push("probe-all".into());
        l.extend(absent_probes(&t, rng));
        if rng.chance(1, 6) { l.push(format!("conc {}", if tier == Tier::Thorough { 8 } else { 4 })); }
        l
    }

    fn exec_case(&mut self, lines: &[String], rec: &mut CaseRec) {
        let mut s = Setup::default();
        let mut src: Option<Wrap> = None;
        let mut known: Vec<String> = vec![];
        let mut fresh: Vec<String> = vec![];
        let mut probes_done: Vec<(String, String)> = vec![];
        for line in lines {
            let w: Vec<&str> = line.split_whitespace().collect();
            if s.handle(&w, line, rec) { continue; }
            match w[0] {
                "s.open" => {
                    match s.open(&w) {
                        Ok(x) => { src = Some(x); rec.op(line.clone(), "ok") }
                        Err(e) => { src = None; rec.op(line.clone(), format!("err-open {}", e.replace(' ', "_"))) }
                    }
                    rec.stat(format!("open/{}", w[1..].join("-")));
                    if s.is_archive() {
                        rec.stat(if s.of_tree() { if implicit_dirs(&s.tree, &s.members).is_empty() { "archive/all-dirs-have-members" } else { "archive/some-dir-without-member" } } else { "archive/not-of-the-tree(malformed members)" });
                    }
                    rec.stat(format!("tree/files={}", match s.tree.files.len() { 0 => "0", 1..=3 => "1-3", 4..=10 => "4-10", _ => "11+" }));
                    rec.stat(format!("tree/depth={}", s.tree.dirs.iter().map(|q| q.len()).max().unwrap_or(0)));
                }
                "probe-all" | "s.rd" | "s.ls" | "s.exf" | "s.exd" => {
                    let Some(x) = src.as_ref() else { rec.op(line.clone(), "no-source"); continue };
                    let expanded: Vec<String> = if w[0] == "probe-all" { probe_lines_for(&s.tree) } else { vec![line.clone()] };
                    for pl in expanded {
                        let pw: Vec<&str> = pl.split_whitespace().collect();
                        let got = run_probe(x, &pw);
                        rec.op(pl.clone(), got.clone());
                        rec.nontrivial = true;
                        rec.stat(format!("probe/{}/{}", pw[0], if got.starts_with("ok") || got == "true" { "present" } else { "absent" }));
                        probes_done.push((pl.clone(), got.clone()));
                        let id = unhexs(pw[1]);
                        if !s.of_tree() { continue; }
                        if !well_formed_id(&id) { rec.stat("probe/malformed-id(no oracle)"); continue; }
                        let want = expected(&s.tree, &pw);
                        if want != got {
                            let cls = classify(&s, &pw, &want, &got);
                            let msg = format!("{cls} {} source, {} id={id:?}{}: expected `{}` got `{}`", s.kind, &pw[0][2..],
                                if pw.len() > 2 { format!(" ext={:?}", unhexs(pw[2])) } else { String::new() }, shorten(&want), shorten(&got));
                            if cls == "source-view-mismatch" { fresh.push(msg) } else { known.push(msg) }
                        }
                        // every listed entry is readable / listable under the id it was listed with
                        if pw[0] == "s.ls" && got.starts_with("ok") {
                            let mut listed = vec![];
                            let _ = x.read_dir(&id, &mut |e| listed.push(match e { DirEntry::File(i, e) => (i.to_string(), Some(e.to_string())), DirEntry::Directory(i) => (i.to_string(), None) }));
                            for (i, e) in listed {
                                let ok = match &e {
                                    Some(e) => x.read(&i, e).is_ok() && x.exists(DirEntry::File(&i, e)),
                                    None => x.read_dir(&i, &mut |_| ()).is_ok() && x.exists(DirEntry::Directory(&i)),
                                };
                                if !ok { fresh.push(format!("listed-entry-unreadable {} source: read_dir({id:?}) listed {i:?} {e:?} which cannot be read back", s.kind)); }
                            }
                        }
                    }
                }
                "trunc" => {
                    let (len, cut, on_disk) = (w[1].parse::<usize>().unwrap_or(16).max(2), w[2].parse::<usize>().unwrap_or(1).max(1), w.get(3) == Some(&"file"));
                    let out = trunc_probe(len, cut.min(len - 1), on_disk);
                    rec.nontrivial = true;
                    rec.stat(format!("trunc/{out}"));
                    if out == "prefix" || out == "garbage" { fresh.push(format!("truncated-member-read-as-prefix tar source: a member of {len} bytes whose data was cut by {cut} bytes was read back successfully ({out}) instead of failing")); }
                    rec.op("src.trunc".to_string(), if out == "prefix" || out == "garbage" { out } else { "err-or-refused".to_string() });
                }
                "shortread" => {
                    let len = w[1].parse::<usize>().unwrap_or(5000).max(1);
                    let out = shortread_probe(len);
                    rec.nontrivial = true;
                    rec.stat(format!("shortread/{out}"));
                    if out != "same" { fresh.push(format!("short-read-zero-filled tar source over a reader with short reads: a member of {len} bytes was read back as {out}")); }
                    rec.op("src.shortread".to_string(), out);
                }
                "embfix" => {
                    // the `embed!` macro itself (compile-time table over harness/fixtures/embtree) against FileSystem over the same directory
                    let bad = embfix_compare();
                    rec.nontrivial = true;
                    rec.stat("embfix");
                    for b in &bad { fresh.push(format!("source-view-mismatch embed!(fixtures/embtree) vs FileSystem over the same directory: {b}")); }
                    rec.op("src.embfix".to_string(), if bad.is_empty() { "agree" } else { "differ" });
                }
                "conc" => {
                    let Some(x) = src.as_ref() else { continue };
                    let n: usize = w[1].parse().expect("thread count");
                    let plan = &probes_done;
                    let bad = std::sync::atomic::AtomicUsize::new(0);
                    std::thread::scope(|sc| {
                        for t in 0..n {
                            let bad = &bad;
                            sc.spawn(move || {
                                for round in 0..3 {
                                    for k in 0..plan.len() {
                                        let (pl, want) = &plan[(k * (t + 1) + round) % plan.len()];
                                        let pw: Vec<&str> = pl.split_whitespace().collect();
                                        if &run_probe(x, &pw) != want { bad.fetch_add(1, std::sync::atomic::Ordering::Relaxed); }
                                    }
                                }
                            });
                        }
                    });
                    rec.stat(format!("conc/threads={n}"));
                    let b = bad.into_inner();
                    if b > 0 { fresh.push(format!("concurrent-read-differs {} source: {b} probes answered differently under {n} concurrent readers", s.kind)); }
                }
                other => panic!("src engine: unknown line {other}"),
            }
        }
        for m in fresh.into_iter().chain(known) { rec.oracle_fail(m); }
    }
}

fn shorten(s: &str) -> String { if s.len() > 160 { format!("{}…({} chars)", &s[..s.char_indices().take_while(|(i, _)| *i < 150).last().map(|(i, c)| i + c.len_utf8()).unwrap_or(0)], s.len()) } else { s.to_string() } }
