//! Engine `iso` (C07): readers of a hot-reloaded entry vs. reloads of a large multi-word value.
//!
//! Value type `Big<N>`: `N` words all equal to the version + a checksum, loaded from the `MemSource`
//! file `big.big` (`v:<version>`), so every reload swaps `8·(N+1)` bytes in place.
//!
//! * **script cases** (deterministic, diffed against the model's forced schedule): guards are taken,
//!   re-read, mapped (`AssetReadGuard::map` / `try_map`) and dropped on the main thread, `hot_reload`
//!   runs on a helper thread; whether it returned or is blocked behind a live guard is observed (a
//!   correct implementation always waits the whole grace period there, so the verdict is not a
//!   timing guess on correct code).
//! * **stress cases** (free-running real threads, *search only*): short reads, long-held guards,
//!   mapped guards on reader threads against one thread looping `edit; notify; hot_reload`; the model
//!   side answers with its own schedule search over the same configuration.
//!
//! Oracle (from the statement, not from the model): every value read under a guard is untorn
//! (all words equal, checksum right) and identical on every re-read while the guard lives; the
//! reload id sampled under one guard never moves; the value differs between two reads only if a
//! `hot_reload` call was in progress in between (started/finished counters); after `hot_reload`
//! returns the value is the one just notified.

use crate::common::*;
use crate::types::*;
use assets_manager::{loader::Loader, source::OwnedDirEntry, Asset, AssetCache, AssetReadGuard, BoxedError, Handle};
use std::borrow::Cow;
use std::collections::BTreeMap;
use std::sync::atomic::{AtomicBool, AtomicU64, Ordering::SeqCst};
use std::sync::Arc;
use std::time::{Duration, Instant};

#[derive(Default)]
pub struct IsoEngine;

const MAGIC: u64 = 0x9E37_79B9_7F4A_7C15;

pub struct Big<const N: usize> { pub words: [u64; N], pub check: u64 }

fn check_of(v: u64, n: usize) -> u64 { v.wrapping_mul(n as u64 + 1) ^ MAGIC }

impl<const N: usize> Big<N> {
    fn of(v: u64) -> Self { Big { words: [v; N], check: check_of(v, N) } }
    /// `Ok(version)` or a description of the tear.
    fn verify(&self) -> Result<u64, String> {
        let mut first = 0u64;
        for i in 0..N {
            // volatile: every word is really read, in order, one at a time
            let w = unsafe { std::ptr::read_volatile(&self.words[i]) };
            if i == 0 { first = w } else if w != first { return Err(format!("word0={first} word{i}={w}")); }
        }
        let c = unsafe { std::ptr::read_volatile(&self.check) };
        if c != check_of(first, N) { return Err(format!("words={first} checksum-of={}", (c ^ MAGIC) / (N as u64 + 1))); }
        Ok(first)
    }
}

fn verify_slice(ws: &[u64]) -> Result<u64, String> {
    let mut first = 0u64;
    for (i, w) in ws.iter().enumerate() {
        let w = unsafe { std::ptr::read_volatile(w) };
        if i == 0 { first = w } else if w != first { return Err(format!("word0={first} word{i}={w}")); }
    }
    Ok(first)
}

pub struct BigLoader;
impl<const N: usize> Loader<Big<N>> for BigLoader {
    fn load(content: Cow<[u8]>, _ext: &str) -> Result<Big<N>, BoxedError> {
        let s = std::str::from_utf8(&content).map_err(|_| Box::new(CustomErr("parse")) as BoxedError)?;
        let v: u64 = s.strip_prefix("v:").and_then(|x| x.parse().ok()).ok_or_else(|| Box::new(CustomErr("parse")) as BoxedError)?;
        Ok(Big::of(v))
    }
}
impl<const N: usize> Asset for Big<N> {
    const EXTENSION: &'static str = "big";
    type Loader = BigLoader;
}

enum Slot<const N: usize> {
    Full(AssetReadGuard<'static, Big<N>>),
    Mapped(AssetReadGuard<'static, [u64]>),
}
impl<const N: usize> Slot<N> {
    fn verify(&self) -> Result<u64, String> { match self { Slot::Full(g) => g.verify(), Slot::Mapped(g) => verify_slice(g) } }
}

struct World<const N: usize> {
    cache: &'static AssetCache<MemSource>,
    src: MemSource,
    handle: &'static Handle<Big<N>>,
}

fn put_version(src: &MemSource, v: u64) { src.put("big", "big", FileSt::Bytes(format!("v:{v}").into_bytes().into(), 0)); }
fn notify(src: &MemSource) { if let Some(tx) = src.sender() { let _ = tx.send(OwnedDirEntry::File("big".into(), "big".into())); } }
/// every event sent so far has been taken (and, the loop being sequential, handled before the next `Ptr`)
fn barrier(src: &MemSource) -> bool { barrier_for(src, Duration::from_secs(3)) }
fn barrier_for(src: &MemSource, limit: Duration) -> bool {
    if let Some(tx) = src.sender() {
        let t0 = Instant::now();
        while tx.verif_pending() > 0 { if t0.elapsed() > limit { return false; } std::thread::yield_now(); }
    }
    true
}

fn new_world<const N: usize>() -> World<N> {
    let src = MemSource::new(true);
    put_version(&src, 0);
    // leaked on purpose: guards and helper threads borrow it for 'static; one small cache per case
    let cache: &'static AssetCache<MemSource> = Box::leak(Box::new(AssetCache::with_source(src.clone())));
    let handle = cache.load::<Big<N>>("big").expect("initial load of big.big");
    World { cache, src, handle }
}

const GRACE_BLOCK: Duration = Duration::from_millis(25);
const GRACE_RETURN: Duration = Duration::from_secs(3);
/// cases with oracle failures so far in this process: after a few, later cases are skipped (a failing tree makes every wait run to its limit)
static FAILED_CASES: AtomicU64 = AtomicU64::new(0);
const FAILURE_BUDGET: u64 = 6;

struct Script<const N: usize> {
    w: World<N>,
    slots: Vec<Option<(Slot<N>, Result<u64, String>, usize)>>, // guard, first value seen under it, first reload id
    file_ver: u64,
    dirty: bool,
    installs: u64,
    vmap: BTreeMap<u64, u64>,
    inflight: Option<Arc<AtomicBool>>,
    inflight_dirty: bool,
    /// a wait that should have ended ran to its limit: later waits of this case are short
    stuck: bool,
}

impl<const N: usize> Script<N> {
    fn canon_ver(&self, v: &Result<u64, String>) -> String {
        match v { Err(_) => "torn".into(), Ok(v) => match self.vmap.get(v) { Some(n) => n.to_string(), None => format!("v?{v}") } }
    }
    fn held(&self) -> usize { self.slots.iter().filter(|s| s.is_some()).count() }
    fn wait_done(&mut self, limit: Duration) -> &'static str {
        let Some(done) = self.inflight.clone() else { return "" };
        let limit = if self.stuck { limit.min(GRACE_BLOCK) } else { limit };
        let t0 = Instant::now();
        while !done.load(SeqCst) && t0.elapsed() < limit { std::thread::sleep(Duration::from_micros(200)); }
        if done.load(SeqCst) { self.inflight = None; " returned" } else { if limit >= GRACE_RETURN { self.stuck = true; } " blocked" }
    }
    /// re-read through slot `r`; oracle: same value, same id as when the guard was taken
    fn peek(&mut self, r: usize, rec: &mut CaseRec) -> String {
        let rid_now = self.w.handle.last_reload_id().verif_raw();
        let Some((g, first, rid0)) = &self.slots[r] else { return "none".into() };
        let now = g.verify();
        if let Err(t) = &now { rec.oracle_fail(format!("torn-read value read under a guard mixes versions: {t}")); }
        if now != *first { rec.oracle_fail(format!("guard-value-changed value behind a live guard changed from {first:?} to {now:?}")); }
        if rid_now != *rid0 { rec.oracle_fail(format!("guard-rid-changed reload id moved from {rid0} to {rid_now} while a guard was alive")); }
        let idtxt = if rid_now == *rid0 { rid_now.to_string() } else { "moved".into() };
        let vtxt = if now == *first { self.canon_ver(&now) } else { "torn".into() };
        format!("ok {vtxt} {idtxt}")
    }
    fn op(&mut self, line: &str, rec: &mut CaseRec) {
        let w: Vec<&str> = line.split_whitespace().collect();
        let slot = |i: usize| -> Option<usize> { w.get(i).and_then(|x| x.parse::<usize>().ok()) };
        match (w[0], w.len()) {
            ("iso.acq", 2) | ("iso.peek", 2) | ("iso.map", 2) | ("iso.drop", 2) => {
                let Some(r) = slot(1).filter(|r| *r < self.slots.len()) else { rec.op(line, "bad-op"); return };
                match w[0] {
                    "iso.acq" => {
                        if self.slots[r].is_some() { rec.op(line, "busy"); return }
                        // a reader arriving while a writer waits may be queued behind it by the lock (allowed, not modelled): not scripted
                        if self.inflight.is_some() || self.stuck { rec.stat("script/acq-skipped-while-reload-in-flight"); return }
                        let g = self.w.handle.read();
                        let first = g.verify();
                        let rid0 = self.w.handle.last_reload_id().verif_raw();
                        self.slots[r] = Some((Slot::Full(g), first, rid0));
                        rec.stat("script/acq");
                        let res = self.peek(r, rec);
                        rec.op(line, res);
                    }
                    "iso.peek" => { rec.stat("script/peek"); let res = self.peek(r, rec); rec.op(line, res) }
                    "iso.map" => {
                        match self.slots[r].take() {
                            None => rec.op(line, "none"),
                            Some((Slot::Full(g), first, rid0)) => {
                                // alternate map / try_map
                                let m = if r % 2 == 0 { AssetReadGuard::map(g, |b| &b.words[..]) }
                                        else { match AssetReadGuard::try_map(g, |b| Some(&b.words[..])) { Ok(m) => m, Err(_) => unreachable!() } };
                                self.slots[r] = Some((Slot::Mapped(m), first, rid0));
                                rec.stat("script/map");
                                rec.op(line, "ok");
                            }
                            Some((Slot::Mapped(g), first, rid0)) => {
                                let m = AssetReadGuard::map(g, |ws| ws);
                                self.slots[r] = Some((Slot::Mapped(m), first, rid0));
                                rec.stat("script/map-again");
                                rec.op(line, "ok");
                            }
                        }
                    }
                    _ => {
                        if self.slots[r].is_none() { rec.op(line, "none"); return }
                        let _ = self.peek(r, rec); // last look before the guard dies
                        self.slots[r] = None;
                        rec.stat("script/drop");
                        let expect_block = self.inflight.is_some() && self.inflight_dirty && self.held() > 0;
                        let tail = self.wait_done(if expect_block { GRACE_BLOCK } else { GRACE_RETURN });
                        if tail == " returned" { self.after_return(rec); }
                        if tail == " blocked" { rec.stat("script/still-blocked-after-drop"); }
                        rec.op(line, format!("ok{tail}"));
                    }
                }
            }
            ("iso.edit", 1) => {
                self.file_ver += 1;
                put_version(&self.w.src, self.file_ver);
                notify(&self.w.src);
                self.dirty = true;
                rec.stat("script/edit");
                rec.op(line, "ok");
            }
            ("iso.rid", 1) => rec.op(line, self.w.handle.last_reload_id().verif_raw().to_string()),
            ("iso.reload", 1) => {
                if self.inflight.is_some() { rec.op(line, "busy"); return }
                if !barrier_for(&self.w.src, if self.stuck { GRACE_BLOCK } else { GRACE_RETURN }) {
                    if !self.stuck { rec.oracle_fail("event-never-taken the reloader thread does not take pending events although no hot_reload call is in flight"); }
                    self.stuck = true;
                }
                // values change only inside hot_reload: the notified edit must not be visible yet
                if self.dirty && self.held() == 0 {
                    let v = self.w.handle.read().verify();
                    if v == Ok(self.file_ver) && self.vmap.get(&self.file_ver).is_none() {
                        rec.oracle_fail(format!("changed-outside-hot-reload version {} is visible although no hot_reload call ran since it was notified", self.file_ver));
                    }
                }
                if self.dirty { self.installs += 1; self.vmap.insert(self.file_ver, self.installs); }
                self.inflight_dirty = self.dirty;
                self.dirty = false;
                let done = Arc::new(AtomicBool::new(false));
                let (d2, cache) = (done.clone(), self.w.cache);
                std::thread::spawn(move || { cache.hot_reload(); d2.store(true, SeqCst); });
                self.inflight = Some(done);
                let expect_block = self.inflight_dirty && self.held() > 0;
                rec.stat(if expect_block { "script/reload-behind-guard" } else if self.inflight_dirty { "script/reload-free" } else { "script/reload-nothing-to-do" });
                let tail = self.wait_done(if expect_block { GRACE_BLOCK } else { GRACE_RETURN });
                if tail == " returned" { self.after_return(rec); }
                rec.op(line, tail.trim().to_string());
            }
            _ => rec.op(line, "bad-op"),
        }
    }
    /// hot_reload returned: the reloads it triggered are finished — a fresh read shows the notified version
    fn after_return(&mut self, rec: &mut CaseRec) {
        if self.inflight_dirty && self.held() == 0 {
            let v = self.w.handle.read().verify();
            let want = self.vmap.iter().find(|(_, n)| **n == self.installs).map(|(v, _)| *v);
            if v.as_ref().ok().copied() != want { rec.oracle_fail(format!("returned-before-update hot_reload returned but the value is {v:?}, expected version {want:?}")); }
        }
        if self.inflight_dirty && self.held() > 0 {
            // return ⇒ the triggered reload is finished ⇒ the value behind the live guard was replaced; or it is not finished
            rec.stat("script/returned-under-guard");
            rec.oracle_fail("returned-under-guard hot_reload of a notified edit returned while a guard on the entry was alive: either the guarded value was replaced or the reload it triggered is not finished");
            self.stuck = true; // the writer may still be queued on the lock: no further acquisitions on this thread
        }
    }
    fn finish(mut self, rec: &mut CaseRec) {
        for s in self.slots.iter_mut() { *s = None; }
        if self.wait_done(GRACE_RETURN) == " blocked" { rec.oracle_fail("reload-never-returned hot_reload still blocked 3 s after the last guard was dropped"); }
    }
}

fn run_script<const N: usize>(readers: usize, lines: &[String], rec: &mut CaseRec) {
    let mut sc = Script::<N> { w: new_world::<N>(), slots: (0..readers).map(|_| None).collect(), file_ver: 0, dirty: false, installs: 0,
        vmap: BTreeMap::from([(0, 0)]), inflight: None, inflight_dirty: false, stuck: false };
    for l in lines { sc.op(l, rec); }
    sc.finish(rec);
}

/// Free-running stress. Returns (violations, stats).
fn run_stress<const N: usize>(readers: usize, millis: u64, seed: u64, second_caller: bool, rec: &mut CaseRec) -> Vec<String> {
    let w = new_world::<N>();
    let (cache, handle, src) = (w.cache, w.handle, w.src.clone());
    let stop: &'static AtomicBool = Box::leak(Box::new(AtomicBool::new(false)));
    let started: &'static AtomicU64 = Box::leak(Box::new(AtomicU64::new(0)));
    let finished: &'static AtomicU64 = Box::leak(Box::new(AtomicU64::new(0)));
    let overlaps: &'static AtomicU64 = Box::leak(Box::new(AtomicU64::new(0)));
    let reads: &'static AtomicU64 = Box::leak(Box::new(AtomicU64::new(0)));
    // C06: `reloaded_global` answers `true` at most once per rewrite, however many threads poll it
    let global_trues: &'static AtomicU64 = Box::leak(Box::new(AtomicU64::new(0)));
    let deadline = Instant::now() + Duration::from_millis(millis);

    let reloader = std::thread::spawn(move || {
        let mut bad: Vec<String> = vec![];
        let mut v = 0u64;
        while Instant::now() < deadline && bad.len() < 3 {
            v += 1;
            // read before the edit is announced: with a second caller the reload may run before our own request
            let rid0 = handle.last_reload_id().verif_raw();
            started.fetch_add(1, SeqCst);
            put_version(&src, v);
            notify(&src);
            if !barrier(&src) { bad.push("event-never-taken the reloader thread does not take pending events".into()); finished.fetch_add(1, SeqCst); break; }
            cache.hot_reload();
            finished.fetch_add(1, SeqCst);
            // hot_reload returned: its reload is finished
            let got = handle.read().verify();
            if got != Ok(v) { bad.push(format!("returned-before-update hot_reload returned but the value is {got:?}, expected version {v}")); }
            let rid1 = handle.last_reload_id().verif_raw();
            if rid1 != rid0 + 1 { bad.push(format!("returned-before-update reload id {rid0} -> {rid1} across one hot_reload of one edit")); }
            if v % 3 == 0 { std::thread::sleep(Duration::from_micros(50 + (v % 7) * 40)); }
        }
        (bad, v)
    });
    // a second thread calling hot_reload() all the time (no edits of its own): `hot_reload` must still return only after
    // ITS request was served — being woken by the answer to the other caller is not enough
    let caller2 = second_caller.then(|| std::thread::spawn(move || {
        let mut n = 0u64;
        while !stop.load(SeqCst) && Instant::now() < deadline { started.fetch_add(1, SeqCst); cache.hot_reload(); finished.fetch_add(1, SeqCst); n += 1; if n % 8 == 0 { std::thread::yield_now(); } }
        n
    }));
    let rs: Vec<_> = (0..readers).map(|ri| std::thread::spawn(move || {
        let mut rng = Prng::new(seed ^ (ri as u64 + 1).wrapping_mul(0x51_7C_C1_B7));
        let mut bad: Vec<String> = vec![];
        let mut last: u64 = 0;
        let mut kinds = [0u64; 4];
        while !stop.load(SeqCst) && bad.len() < 3 {
            let f0 = finished.load(SeqCst);
            let kind = (ri + rng.below(2) * 2) % 4; // every reader alternates two of: short, long, map, try_map
            kinds[kind] += 1;
            let first: Result<u64, String>;
            match kind {
                0 => { first = handle.read().verify(); }
                1 => {
                    // long-held guard: re-read value and id while it lives
                    let g = handle.read();
                    first = g.verify();
                    let rid0 = handle.last_reload_id().verif_raw();
                    let spins = rng.range(2, 40);
                    for k in 0..spins {
                        if k % 4 == 3 { std::thread::yield_now(); } else { for _ in 0..200 { std::hint::spin_loop(); } }
                        let again = g.verify();
                        if again != first { bad.push(format!("guard-value-changed value behind a live guard changed from {first:?} to {again:?}")); break; }
                        let rid = handle.last_reload_id().verif_raw();
                        if rid != rid0 { bad.push(format!("guard-rid-changed reload id moved from {rid0} to {rid} while a guard was alive")); break; }
                    }
                }
                _ => {
                    let g = handle.read();
                    first = g.verify();
                    let rid0 = handle.last_reload_id().verif_raw();
                    let m: AssetReadGuard<'_, [u64]> = if kind == 2 { AssetReadGuard::map(g, |b| &b.words[..]) }
                        else { match AssetReadGuard::try_map(g, |b| Some(&b.words[..])) { Ok(m) => m, Err(_) => unreachable!() } };
                    for k in 0..rng.range(1, 12) {
                        if k % 3 == 2 { std::thread::yield_now(); } else { for _ in 0..300 { std::hint::spin_loop(); } }
                        let again = verify_slice(&m);
                        if again != first { bad.push(format!("guard-value-changed value behind a mapped guard changed from {first:?} to {again:?}")); break; }
                        let rid = handle.last_reload_id().verif_raw();
                        if rid != rid0 { bad.push(format!("guard-rid-changed reload id moved from {rid0} to {rid} while a mapped guard was alive")); break; }
                    }
                }
            }
            let s1 = started.load(SeqCst);
            reads.fetch_add(1, SeqCst);
            for _ in 0..3 { if handle.reloaded_global() { global_trues.fetch_add(1, SeqCst); } }
            match first {
                Err(t) => bad.push(format!("torn-read value read under a guard mixes versions: {t}")),
                Ok(v) => {
                    if v < last { bad.push(format!("value-went-back read version {v} after version {last}")); }
                    last = v;
                }
            }
            if s1 != f0 { overlaps.fetch_add(1, SeqCst); }
            // second look: if no hot_reload call was in progress at any time between the two looks, the value is the same
            let f1 = finished.load(SeqCst);
            let a = handle.read().verify();
            for _ in 0..rng.below(400) { std::hint::spin_loop(); }
            let b = handle.read().verify();
            let s2 = started.load(SeqCst);
            if s2 == f1 && a != b { bad.push(format!("changed-outside-hot-reload value changed from {a:?} to {b:?} while no hot_reload call was in progress ({s2} started, {f1} finished)")); }
        }
        (bad, kinds)
    })).collect();

    let mut bad: Vec<String> = vec![];
    // watchdog: the reloader must come back (readers stop holding guards once `stop` is set)
    let t0 = Instant::now();
    while !reloader.is_finished() && t0.elapsed() < Duration::from_millis(millis) + Duration::from_secs(20) { std::thread::sleep(Duration::from_millis(2)); }
    stop.store(true, SeqCst);
    let t1 = Instant::now();
    while !(reloader.is_finished() && rs.iter().all(|h| h.is_finished())) && t1.elapsed() < Duration::from_secs(20) { std::thread::sleep(Duration::from_millis(2)); }
    if !reloader.is_finished() || !rs.iter().all(|h| h.is_finished()) {
        bad.push("stress-hung reloader or reader threads still blocked 20 s after the stop signal".into());
        return bad; // threads leaked
    }
    if let Some(c2) = caller2 {
        let t2 = Instant::now();
        while !c2.is_finished() && t2.elapsed() < Duration::from_secs(20) { std::thread::sleep(Duration::from_millis(2)); }
        if !c2.is_finished() { bad.push("stress-hung the second hot_reload caller is still blocked 20 s after the stop signal".into()); return bad; }
        let n = c2.join().unwrap_or(0);
        rec.stat(format!("stress/second-caller-calls={}", if n == 0 { "0" } else { ">0" }));
    }
    let (rb, versions) = reloader.join().unwrap_or((vec!["harness-panic reloader thread panicked".into()], 0));
    bad.extend(rb);
    let mut kinds = [0u64; 4];
    for h in rs { match h.join() { Ok((b, k)) => { bad.extend(b); for i in 0..4 { kinds[i] += k[i]; } } Err(_) => bad.push("harness-panic reader thread panicked".into()) } }
    let gt = global_trues.load(SeqCst);
    if gt > versions { bad.push(format!("reported-more-than-once reloaded_global answered true {gt} times to the polling readers although only {versions} rewrites happened")); }
    rec.stat(format!("stress/reloaded_global-true={}", if gt == 0 { "0" } else { ">0" }));
    let bucket = |x: u64| -> &'static str { match x { 0 => "0", 1..=9 => "1-9", 10..=99 => "10-99", 100..=999 => "100-999", _ => "1000+" } };
    rec.stat(format!("stress/reloads={}", bucket(versions)));
    rec.stat(format!("stress/reads={}", bucket(reads.load(SeqCst))));
    rec.stat(format!("stress/reads-overlapping-a-hot_reload={}", bucket(overlaps.load(SeqCst))));
    for (i, n) in ["short", "long", "map", "try_map"].iter().enumerate() { if kinds[i] > 0 { rec.stat(format!("stress/kind-{n}")); } }
    bad
}

const SIZES: &[usize] = &[1, 2, 16, 64, 512];

macro_rules! with_n {
    ($k:expr, $N:ident => $body:expr, else $other:expr) => { match $k {
        1 => { const $N: usize = 1; $body } 2 => { const $N: usize = 2; $body } 16 => { const $N: usize = 16; $body }
        64 => { const $N: usize = 64; $body } 512 => { const $N: usize = 512; $body } _ => $other } };
}

impl Engine for IsoEngine {
    fn name(&self) -> &'static str { "iso" }

    fn gen_case(&mut self, rng: &mut Prng, tier: Tier, idx: usize) -> Vec<String> {
        let k = *rng.pick(SIZES);
        if idx == 0 {
            // bounded-exhaustive slice: every order of {acq, edit, reload} followed by the unblocking sequence, 2 readers
            return vec![format!("iso.new {k} 2"), "iso.acq 0".into(), "iso.edit".into(), "iso.reload".into(), "iso.peek 0".into(), "iso.map 0".into(),
                "iso.peek 0".into(), "iso.rid".into(), "iso.drop 0".into(), "iso.acq 1".into(), "iso.rid".into(), "iso.reload".into(), "iso.drop 1".into()];
        }
        if idx == 1 {
            // malformed stream
            return vec!["iso.acq 0".into(), "iso.new 0 1".into(), "iso.new 3".into(), format!("iso.new {k} 1"), "iso.acq 7".into(), "iso.acq x".into(), "iso.peek 0".into(),
                "iso.drop 0".into(), "iso.map 0".into(), "iso.frob".into(), "iso.reload now".into(), "iso.acq 0".into(), "iso.acq 0".into(), "iso.drop 0".into()];
        }
        if idx % 3 == 2 {
            let readers = rng.range(1, if tier == Tier::Thorough { 12 } else { 6 });
            let ms = if tier == Tier::Thorough { 1500 } else { 220 };
            let two = if idx % 6 == 5 { " 2" } else { "" };
            return vec![format!("iso.stress-run {k} {readers} {ms} {}{two}", rng.below(1 << 30))];
        }
        // random script: mostly valid
        let readers = rng.range(1, 4);
        let mut l = vec![format!("iso.new {k} {readers}")];
        let mut held = vec![false; readers];
        let mut inflight_blocked = false; // a reload was issued behind a guard with an edit pending
        let mut dirty = false;
        let n = rng.range(6, if tier == Tier::Thorough { 40 } else { 22 });
        for _ in 0..n {
            let r = rng.below(readers);
            match rng.below(10) {
                0 | 1 => if !held[r] && !inflight_blocked { l.push(format!("iso.acq {r}")); held[r] = true; },
                2 => l.push(format!("iso.peek {r}")),
                3 => l.push(format!("iso.map {r}")),
                4 | 5 => { l.push(format!("iso.drop {r}")); if held[r] { held[r] = false; if !held.iter().any(|h| *h) { inflight_blocked = false; } } }
                6 | 7 => { l.push("iso.edit".into()); dirty = true; }
                8 => l.push("iso.rid".into()),
                _ => { l.push("iso.reload".into()); if !inflight_blocked { if dirty && held.iter().any(|h| *h) { inflight_blocked = true; } dirty = false; } }
            }
        }
        l
    }

    fn exec_case(&mut self, lines: &[String], rec: &mut CaseRec) {
        if FAILED_CASES.load(SeqCst) >= FAILURE_BUDGET { rec.stat("skipped-after-failures"); return; }
        self.exec_inner(lines, rec);
        if !rec.oracle.is_empty() { FAILED_CASES.fetch_add(1, SeqCst); }
    }
}

impl IsoEngine {
    fn exec_inner(&mut self, lines: &[String], rec: &mut CaseRec) {
        let mut i = 0;
        while i < lines.len() {
            let w: Vec<&str> = lines[i].split_whitespace().collect();
            let num = |j: usize| -> Option<usize> { w.get(j).and_then(|x| x.parse::<usize>().ok()) };
            match (w.first().copied(), w.len()) {
                (Some("iso.new"), 3) if num(1).map_or(false, |k| SIZES.contains(&k)) && num(2).map_or(false, |n| n <= 64) => {
                    let (k, n) = (num(1).unwrap(), num(2).unwrap());
                    rec.op(lines[i].clone(), "ok");
                    rec.stat(format!("script/words={k}"));
                    rec.nontrivial = true;
                    // the script runs to the next `iso.new` / stress line
                    let mut j = i + 1;
                    while j < lines.len() && !lines[j].starts_with("iso.new") && !lines[j].starts_with("iso.stress") { j += 1; }
                    with_n!(k, N => run_script::<N>(n, &lines[i + 1..j], rec), else unreachable!());
                    i = j;
                    continue;
                }
                (Some("iso.stress-run"), 5 | 6) if num(1).map_or(false, |k| SIZES.contains(&k)) && num(2).map_or(false, |n| (1..=64).contains(&n)) && num(3).is_some() && num(4).is_some() => {
                    let (k, n, ms, seed) = (num(1).unwrap(), num(2).unwrap(), num(3).unwrap().min(20_000) as u64, num(4).unwrap() as u64);
                    rec.nontrivial = true;
                    rec.stat(format!("stress/words={k}"));
                    rec.stat(format!("stress/readers={n}"));
                    let second = num(5) == Some(2);
                    if second { rec.stat("stress/two-callers"); }
                    let bad = with_n!(k, N => run_stress::<N>(n, ms, seed, second, rec), else unreachable!());
                    for b in bad.iter().take(4) { rec.oracle_fail(b.clone()); }
                    rec.op(format!("iso.stress {k} {n} {seed}"), if bad.is_empty() { "isolated" } else { "violated" });
                }
                // ops before any `iso.new` (or a refused `iso.new`): the model refuses them too
                _ => rec.op(lines[i].clone(), "bad-op"),
            }
            i += 1;
        }
    }
}

