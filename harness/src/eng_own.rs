//! Engine `own` (C13): every value produced by a loader or passed to `get_or_insert` is dropped exactly
//! once (or handed to the caller), never twice, never leaked; an untyped handle can only be viewed as
//! the type it was created with.
//!
//! Histories: the whole map API with script assets (nested, failing, panicking loads), `load_owned`,
//! `take`, `remove`, `clear`, `get_or_insert` on present and absent keys, hot-reloading edits, and the
//! final drop of the cache. Every tracked value carries a `Uid` whose creation and drop are recorded
//! in a ledger. Oracle after EVERY operation, from the statement: no uid dropped twice, every dropped
//! uid was created, created − dropped = number of live tracked entries (values handed out by
//! `take` / `load_owned` are dropped by the harness at once); after the cache is dropped: created =
//! dropped. Identity, not only counts (`SeenTracker`): a value seen through a handle — also by a loader, which may fill
//! the very slot that is being loaded with `get_or_insert` (script token `@T:id:n`) — is neither dropped nor replaced
//! while its key stays in the cache (outside reload passes). The `view` op crosses every stored type with every requested type.

use crate::common::*;
use crate::eng_cache::{gen_source, IDS};
use crate::exec_world::*;
use crate::types::ledger;

#[derive(Default)]
pub struct OwnEngine;

const TRACKED_LOAD: &[&str] = &["S0", "S1", "N0", "M20", "M31", "M11", "M00"];
const TRACKED_INS: &[&str] = &["S0", "N0", "M20", "S1"];
const VIEW_TYPES: &[&str] = &["S0", "S1", "N0", "M20", "M31", "I", "D2", "R2"];

fn check_ledger(wx: &WorldExec, rec: &mut CaseRec, line: &str) {
    let (c, d, dup, foreign) = {
        let l = ledger();
        let mut seen = std::collections::BTreeSet::new();
        let dup = l.dropped.iter().filter(|u| !seen.insert(**u)).count();
        let created: std::collections::BTreeSet<u64> = l.created.iter().copied().collect();
        let foreign = l.dropped.iter().filter(|u| !created.contains(u)).count();
        (l.created.len(), l.dropped.len(), dup, foreign)
    };
    if dup > 0 { rec.oracle_fail(format!("dropped-twice after `{line}`: {dup} value(s) dropped more than once")); }
    if foreign > 0 { rec.oracle_fail(format!("dropped-unknown after `{line}`: {foreign} drop(s) of values never created")); }
    let live = wx.live_tracked();
    if c < d || c - d != live { rec.oracle_fail(format!("ledger-unbalanced after `{line}`: created {c}, dropped {d}, live tracked entries {live}")); }
}

impl Engine for OwnEngine {
    fn name(&self) -> &'static str { "own" }

    fn gen_case(&mut self, rng: &mut Prng, tier: Tier, idx: usize) -> Vec<String> {
        let mut l = vec![];
        let fe = *rng.pick(&["shared", "any", "local", "localany", "shared"]);
        let mode = *rng.pick(&["hot", "hot", "nohot-ctor", "nohot-src"]);
        l.push(format!("cfg {fe} {mode}"));
        if idx % 6 == 4 {
            // values of every size / alignment class, rewritten by reloads
            return vec![format!("sizes {}", rng.range(3, if tier == Tier::Thorough { 40 } else { 10 }))];
        }
        if idx % 6 == 5 {
            // type-erasure matrix: every stored type viewed as every type
            for (k, t) in VIEW_TYPES.iter().enumerate() {
                let id = if t.starts_with('D') || t.starts_with('R') { "".to_string() } else { format!("v{k}") };
                l.push(format!("src.put {} {} {} 0", hexs(&id), hexs("s"), hexs("3")));
                l.push(format!("src.put {} {} {} 0", hexs(&id), hexs("a"), hexs("ok:4")));
                if *t == "I" { l.push(format!("goi I {} 9", hexs(&id))); } else { l.push(format!("load {t} {}", hexs(&id))); }
                for r in VIEW_TYPES { l.push(format!("view {t} {r} {}", hexs(&id))); }
            }
            return l;
        }
        gen_source(rng, &mut l, true, true);
        let n = rng.range(8, if tier == Tier::Thorough { 60 } else { 28 });
        // (type, id) pairs requested so far: removals and reloads aim at entries that probably exist
        let mut seen: Vec<(&'static str, &'static str)> = vec![];
        for _ in 0..n {
            let mut id = *rng.pick(IDS);
            let mut lt = *rng.pick(TRACKED_LOAD);
            let it = *rng.pick(TRACKED_INS);
            let roll = rng.below(20);
            if roll >= 11 && !seen.is_empty() && rng.below(10) < 7 { let (t, i) = *rng.pick(&seen); lt = t; id = i; }
            let h = hexs(id);
            if roll <= 5 { seen.push((lt, id)); } else if (8..=10).contains(&roll) { seen.push((it, id)); }
            let next = match roll {
                0..=5 => format!("load {lt} {h}"),
                6..=7 => format!("owned {lt} {h}"),
                8..=10 => format!("goi {it} {h} {}", rng.below(1000)),
                11..=12 => format!("remove {lt} {h}"),
                13..=14 => format!("take {lt} {h}"),
                15 => "clear".into(),
                16 => { let dt = *rng.pick(&["D2", "R3"]); let did = *rng.pick(&["", "d"]); format!("load {dt} {}", hexs(did)) }
                _ => {
                    // an edit that is notified and reloaded: the replaced value must be dropped once
                    let (ext, content) = if lt.starts_with('M') { ("a", format!("ok:{}", rng.range(100, 200))) } else { ("s", rng.range(100, 200).to_string()) };
                    l.push(format!("src.put {h} {} {} 0", hexs(ext), hexs(&content)));
                    l.push(format!("notify f:{}:{}", h, hexs(ext)));
                    "reload".into()
                }
            };
            l.push(next);
        }
        l
    }

    fn exec_case(&mut self, lines: &[String], rec: &mut CaseRec) {
        if let Some(n) = lines.first().and_then(|l| l.strip_prefix("sizes ")).and_then(|n| n.parse::<i64>().ok()) {
            sizes_scenario(n, rec);
            return;
        }
        let first = lines.first().map(|s| s.split_whitespace().collect::<Vec<_>>()).unwrap_or_default();
        if first.len() != 3 || first[0] != "cfg" { rec.op(lines.first().cloned().unwrap_or_default(), "bad-op"); return; }
        let mut wx = WorldExec::new(first[1], first[2]);
        rec.op(lines[0].clone(), "ok");
        let mut tracker = SeenTracker::begin();
        for line in &lines[1..] {
            let w: Vec<&str> = line.split_whitespace().collect();
            let out = wx.op(line);
            rec.op(line.clone(), out.clone());
            rec.nontrivial = true;
            rec.stat(format!("op={}/{}", w[0], out.split_whitespace().next().map(|c| if c.starts_with('h') { "handle" } else { c }).unwrap_or("")));
            if w[0] == "view" && w.len() == 4 {
                // C13: asking for any other type yields None (or a panic), never a reinterpretation
                let same = w[1] == w[2];
                let want = format!("ref={same} is={same} guard={same}");
                if out != want && out != "absent" && out != "bad-op" { rec.oracle_fail(format!("type-erasure-lies `{line}` -> {out}, expected {want}")); }
                continue;
            }
            check_ledger(&wx, rec, line);
            // identity, not only counts: a value seen through a handle (by a loader too) is not dropped / replaced while its key stays
            if !SeenTracker::goi_targets().is_empty() { rec.stat("loader-get-or-insert"); }
            let mut fs = tracker.after_op(&wx, line, &wx.snapshot());
            fs.sort_by_key(|f| !f.starts_with("dropped-while-reachable"));   // this property's own class first
            for f in fs { rec.oracle_fail(f); }
            // the model's ghost ledger (created / gone, tracked types) against the real one, after every operation
            if w[0] != "ledger" && !wx.unspecified { let lo = wx.op("ledger"); rec.op("ledger".to_string(), lo); }
            if wx.unspecified { rec.stat(format!("truncated/{}", wx.unspecified_why)); break; }
        }
        // the cache is dropped: everything that is still stored is dropped, exactly once
        drop(wx);
        let l = ledger();
        let mut seen = std::collections::BTreeSet::new();
        if l.dropped.iter().any(|u| !seen.insert(*u)) { rec.oracle_fail("dropped-twice at cache drop".to_string()); }
        if l.created.len() != l.dropped.len() { rec.oracle_fail(format!("leak-at-cache-drop created {} values, dropped {}", l.created.len(), l.dropped.len())); }
    }
}

/// Values of every size / alignment class (12 bytes align 4, 13 bytes align 1, one byte, zero-sized,
/// over-aligned, heap-owning) loaded, rewritten `n` times by hot-reloading, read back, and dropped.
fn sizes_scenario(n: i64, rec: &mut CaseRec) {
    use crate::types::*;
    let mut wx = WorldExec::new("shared", "hot");
    let id = "sz";
    wx.op(&format!("src.put {} {} {} 0", hexs(id), hexs("s"), hexs("1")));
    let mut bad: Vec<String> = vec![];
    let check = |wx: &WorldExec, k: i64, bad: &mut Vec<String>| {
        let Fe::Shared(c) = &wx.fe else { return };
        let p = c.load::<P12>(id).unwrap(); { let g = p.read(); if g.a != k as u32 || g.b != !(k as u32) { bad.push(format!("P12 (12 bytes, align 4) reads {:?} after reload to {k}", *g)); } }
        let a = c.load::<A13>(id).unwrap(); { let g = a.read(); if g.0 != [k as u8; 13] { bad.push(format!("A13 (13 bytes, align 1) reads {:?} after reload to {k}", g.0)); } }
        let b = c.load::<B1>(id).unwrap(); if b.read().0 != k as u8 { bad.push(format!("B1 reads {} after reload to {k}", b.read().0)); }
        let _z = c.load::<Z>(id).unwrap();
        let o = c.load::<O64>(id).unwrap(); { let g = o.read(); if g.v != k || (&*g as *const O64 as usize) % 64 != 0 { bad.push(format!("O64 reads {} (addr % 64 = {}) after reload to {k}", g.v, (&*g as *const O64 as usize) % 64)); } }
        let h = c.load::<H>(id).unwrap(); { let g = h.read(); if g.s != format!("value-{k}-{}", "x".repeat((k % 40) as usize)) { bad.push(format!("H reads {:?} after reload to {k}", g.s)); } }
    };
    check(&wx, 1, &mut bad);
    for k in 2..=(n + 1) {
        wx.op(&format!("src.put {} {} {} 0", hexs(id), hexs("s"), hexs(&k.to_string())));
        wx.op(&format!("notify f:{}:{}", hexs(id), hexs("s")));
        wx.op("reload");
        check(&wx, k, &mut bad);
        // three tracked values are live (P12, O64, H); each reload created and dropped three
        let (c, d) = { let l = ledger(); (l.created.len(), l.dropped.len()) };
        if c - d != 3 { bad.push(format!("after reload {k}: created {c}, dropped {d}, but 3 tracked values are stored")); }
        if bad.len() > 3 { break; }
    }
    drop(wx);
    let l = ledger();
    let mut seen = std::collections::BTreeSet::new();
    if l.dropped.iter().any(|u| !seen.insert(*u)) { bad.push("a value was dropped twice".into()); }
    if l.created.len() != l.dropped.len() { bad.push(format!("leak: created {}, dropped {}", l.created.len(), l.dropped.len())); }
    rec.nontrivial = true;
    rec.stat("family=sizes");
    for b in &bad { rec.oracle_fail(format!("reload-corrupts-value {b}")); }
    rec.op(format!("own.sizes {n}"), if bad.is_empty() { "intact" } else { "corrupted" });
}
