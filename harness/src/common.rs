//! Shared infrastructure: PRNG, hex, case recording, stats.

use std::collections::{BTreeMap, BTreeSet};

#[derive(Clone, Copy, PartialEq, Eq, Debug)]
pub enum Tier { Quick, Thorough }

pub fn fxhash(b: &[u8]) -> u64 {
    let mut h: u64 = 0xcbf29ce484222325;
    for &x in b { h ^= x as u64; h = h.wrapping_mul(0x100000001b3); }
    h
}

/// splitmix64-seeded xorshift64*; every random choice of a run derives from one seed.
#[derive(Clone)]
pub struct Prng(u64);

impl Prng {
    pub fn new(seed: u64) -> Self {
        let mut z = seed.wrapping_add(0x9E3779B97F4A7C15);
        z = (z ^ (z >> 30)).wrapping_mul(0xBF58476D1CE4E5B9);
        z = (z ^ (z >> 27)).wrapping_mul(0x94D049BB133111EB);
        z ^= z >> 31;
        Prng(if z == 0 { 0x1234567 } else { z })
    }
    pub fn next(&mut self) -> u64 {
        let mut x = self.0;
        x ^= x >> 12; x ^= x << 25; x ^= x >> 27;
        self.0 = x;
        x.wrapping_mul(0x2545F4914F6CDD1D)
    }
    pub fn fork(&mut self) -> Prng { Prng::new(self.next()) }
    pub fn below(&mut self, n: usize) -> usize { if n == 0 { 0 } else { (self.next() % n as u64) as usize } }
    pub fn range(&mut self, lo: usize, hi: usize) -> usize { lo + self.below(hi - lo + 1) }
    pub fn chance(&mut self, num: usize, den: usize) -> bool { self.below(den) < num }
    pub fn pick<'a, T>(&mut self, xs: &'a [T]) -> &'a T { &xs[self.below(xs.len())] }
    pub fn shuffle<T>(&mut self, xs: &mut [T]) {
        for i in (1..xs.len()).rev() { let j = self.below(i + 1); xs.swap(i, j); }
    }
}

pub fn hex(b: &[u8]) -> String {
    if b.is_empty() { return "-".into(); }
    let mut s = String::with_capacity(b.len() * 2);
    for x in b { s.push_str(&format!("{x:02x}")); }
    s
}
pub fn hexs(s: &str) -> String { hex(s.as_bytes()) }
pub fn unhex(s: &str) -> Vec<u8> {
    if s == "-" { return vec![]; }
    (0..s.len() / 2).map(|i| u8::from_str_radix(&s[2 * i..2 * i + 2], 16).expect("hex")).collect()
}
pub fn unhexs(s: &str) -> String { String::from_utf8(unhex(s)).expect("utf8 in hex string") }

/// What an engine records while executing one case.
#[derive(Default)]
pub struct CaseRec {
    pub ops: Vec<String>,
    pub imp: Vec<String>,
    pub oracle: Vec<String>,
    pub stats: Vec<String>,
    pub nontrivial: bool,
}

impl CaseRec {
    /// One operation: the line handed to the model and the implementation's canonical result.
    pub fn op(&mut self, model_line: impl Into<String>, impl_result: impl Into<String>) {
        self.ops.push(model_line.into());
        self.imp.push(impl_result.into());
    }
    pub fn oracle_fail(&mut self, msg: impl Into<String>) { self.oracle.push(msg.into()); }
    pub fn stat(&mut self, key: impl Into<String>) { self.stats.push(key.into()); }
}

pub trait Engine {
    fn name(&self) -> &'static str;
    /// Generate the replayable input lines of case `idx`.
    fn gen_case(&mut self, rng: &mut Prng, tier: Tier, idx: usize) -> Vec<String>;
    /// Execute input lines on the real implementation.
    fn exec_case(&mut self, lines: &[String], rec: &mut CaseRec);
    fn finish(&mut self, _run: &mut Run) {}
}

pub struct Run {
    pub gen: Vec<String>,
    pub ops: Vec<String>,
    pub imp: Vec<String>,
    pub oracle: Vec<String>,
    pub counters: BTreeMap<String, u64>,
    pub distinct: BTreeSet<u64>,
    pub distinct_nontrivial: BTreeSet<u64>,
    pub samples: Vec<Vec<String>>,
    pub n_ops: usize,
    pub n_cases: usize,
    pub panics: usize,
    pub extra: BTreeMap<String, String>,
}

impl Run {
    pub fn new() -> Self {
        Run { gen: vec![], ops: vec![], imp: vec![], oracle: vec![], counters: BTreeMap::new(), distinct: BTreeSet::new(),
              distinct_nontrivial: BTreeSet::new(), samples: vec![], n_ops: 0, n_cases: 0, panics: 0, extra: BTreeMap::new() }
    }

    pub fn exec_case(&mut self, eng: &mut dyn Engine, idx: usize, lines: Vec<String>, origin: Option<String>) {
        let mut rec = CaseRec::default();
        let res = std::panic::catch_unwind(std::panic::AssertUnwindSafe(|| eng.exec_case(&lines, &mut rec)));
        if let Err(p) = res {
            let msg = p.downcast_ref::<String>().cloned().or_else(|| p.downcast_ref::<&str>().map(|s| s.to_string())).unwrap_or_default();
            rec.oracle_fail(format!("harness-panic {}", msg.replace('\n', " ")));
            self.panics += 1;
        }
        let head = format!("case {idx}");
        self.gen.push(match &origin { Some(o) => format!("{head} # {o}"), None => head.clone() });
        self.gen.extend(lines.iter().cloned());
        self.gen.push("end".into());
        self.ops.push(head.clone());
        self.ops.extend(rec.ops.iter().cloned());
        self.ops.push("end".into());
        self.imp.push(head.clone());
        self.imp.extend(rec.imp.iter().cloned());
        self.imp.push("end".into());
        for o in &rec.oracle { self.oracle.push(format!("{head} {o}")); }
        for s in &rec.stats { *self.counters.entry(s.clone()).or_insert(0) += 1; }
        let h = fxhash(rec.ops.join("\n").as_bytes());
        self.distinct.insert(h);
        if rec.nontrivial { self.distinct_nontrivial.insert(h); }
        if self.samples.len() < 3 && rec.nontrivial { self.samples.push(rec.ops.iter().zip(rec.imp.iter()).take(12).map(|(a, b)| format!("{a} => {b}")).collect()); }
        self.n_ops += rec.ops.len();
        self.n_cases += 1;
    }

    pub fn stats_json(&self, engine: &str, seed: u64, tier: Tier) -> String {
        let mut s = String::from("{\n");
        s.push_str(&format!("  \"engine\": {:?},\n  \"seed\": {seed},\n  \"tier\": {:?},\n", engine, if tier == Tier::Quick { "quick" } else { "thorough" }));
        s.push_str(&format!("  \"cases\": {},\n  \"ops\": {},\n  \"distinct\": {},\n  \"distinct_nontrivial\": {},\n  \"oracle_failures\": {},\n  \"harness_panics\": {},\n",
            self.n_cases, self.n_ops, self.distinct.len(), self.distinct_nontrivial.len(), self.oracle.len(), self.panics));
        s.push_str("  \"distribution\": {");
        let n = self.counters.len();
        for (k, (key, v)) in self.counters.iter().enumerate() {
            s.push_str(&format!("{:?}: {}{}", key, v, if k + 1 < n { ", " } else { "" }));
        }
        s.push_str("},\n  \"extra\": {");
        let n = self.extra.len();
        for (k, (key, v)) in self.extra.iter().enumerate() {
            s.push_str(&format!("{:?}: {:?}{}", key, v, if k + 1 < n { ", " } else { "" }));
        }
        s.push_str("},\n  \"samples\": [");
        for (k, smp) in self.samples.iter().enumerate() {
            s.push_str("[");
            for (j, l) in smp.iter().enumerate() { s.push_str(&format!("{:?}{}", l, if j + 1 < smp.len() { ", " } else { "" })); }
            s.push_str(if k + 1 < self.samples.len() { "], " } else { "]" });
        }
        s.push_str("]\n}\n");
        s
    }
}
