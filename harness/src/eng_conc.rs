//! Engine `conc` (C01, search only): real threads racing on one cache.
//!
//! * `race`: K threads load / get_or_insert the same absent keys; the loader waits until all racers
//!   are inside it (forced simultaneous cache misses), so every racer builds its own entry and the
//!   map has to pick one. Oracle: one handle per key, every racer observes it, it is still the
//!   stored entry at the end and readable after thousands of unrelated insertions.
//! * `probe`: reader threads look up stable entries while writer threads insert unrelated entries
//!   into the same shards. Oracle: presence never flips to absent; the handle never changes.
//! Free-running: never evidence of absence; the model side answers what C01's theorems say must
//! come out for every interleaving (`one-handle`, `stable`).

use crate::common::*;
use assets_manager::{AnyCache, AssetCache, BoxedError, Compound, SharedString};
use crate::types::{ledger, MemSource, Uid};
use std::sync::{atomic::{AtomicUsize, Ordering}, Arc, Barrier};

#[derive(Default)]
pub struct ConcEngine;

static RACERS: AtomicUsize = AtomicUsize::new(0);
static ARRIVED: AtomicUsize = AtomicUsize::new(0);
static SERIAL: AtomicUsize = AtomicUsize::new(0);

/// Loader that waits (bounded) until all racers of the round are inside a loader.
pub struct B(pub usize, pub Uid);
impl Compound for B {
    fn load(_cache: AnyCache, _id: &SharedString) -> Result<Self, BoxedError> {
        let want = RACERS.load(Ordering::Acquire);
        ARRIVED.fetch_add(1, Ordering::AcqRel);
        let t0 = std::time::Instant::now();
        while ARRIVED.load(Ordering::Acquire) < want && t0.elapsed().as_millis() < 20 { std::hint::spin_loop(); }
        Ok(B(SERIAL.fetch_add(1, Ordering::Relaxed), Uid::new()))
    }
}

impl Engine for ConcEngine {
    fn name(&self) -> &'static str { "conc" }

    fn gen_case(&mut self, rng: &mut Prng, tier: Tier, idx: usize) -> Vec<String> {
        let big = tier == Tier::Thorough;
        if idx % 4 == 3 {
            // key identity is (WHOLE id, type): ids that share trailing segments, and one id under several types, on many fresh
            // caches (every cache has its own hash seed: a comparison that is too coarse only shows on a hash collision)
            return vec![format!("keys {}", if big { 30000 } else { 4000 })];
        }
        if idx % 2 == 0 {
            vec![format!("race {} {} {} {}", rng.range(2, 8), if big { 300 } else { 60 }, rng.below(3), if rng.chance(1, 2) { "any" } else { "direct" })]
        } else {
            vec![format!("probe {} {} {}", rng.range(2, 4), rng.range(2, 4), if big { 200_000 } else { 30_000 })]
        }
    }

    fn exec_case(&mut self, lines: &[String], rec: &mut CaseRec) {
        for line in lines {
            let w: Vec<&str> = line.split_whitespace().collect();
            let n = |i: usize| -> usize { w.get(i).and_then(|x| x.parse().ok()).unwrap_or(0) };
            match w[0] {
                "race" => {
                    let (threads, rounds, mix, via_any) = (n(1).clamp(2, 16), n(2), n(3), w.get(4) == Some(&"any"));
                    let cache = AssetCache::with_source(MemSource::new(mix == 1));
                    let mut bad: Vec<String> = vec![];
                    let mut growth_checked = 0usize;
                    for round in 0..rounds {
                        let id = format!("k{round}");
                        RACERS.store(threads, Ordering::Release);
                        ARRIVED.store(0, Ordering::Release);
                        let (c0, d0) = { let l = ledger(); (l.created.len(), l.dropped.len()) };
                        let bar = Barrier::new(threads);
                        let ptrs: Vec<(usize, usize)> = std::thread::scope(|s| {
                            let hs: Vec<_> = (0..threads).map(|t| {
                                let (cache, bar, id) = (&cache, &bar, &id);
                                s.spawn(move || {
                                    bar.wait();
                                    let c = cache.as_any_cache();
                                    // racers mix `load` and `get_or_insert` on the same key
                                    let h = if mix == 2 && t % 2 == 1 {
                                        if via_any { c.get_or_insert::<B>(id, B(1_000_000 + t, Uid::new())) } else { cache.get_or_insert::<B>(id, B(1_000_000 + t, Uid::new())) }
                                    } else if via_any { c.load::<B>(id).unwrap() } else { cache.load::<B>(id).unwrap() };
                                    (h as *const _ as usize, h.read().0)
                                })
                            }).collect();
                            hs.into_iter().map(|h| h.join().unwrap()).collect()
                        });
                        RACERS.store(0, Ordering::Release);
                        let first = ptrs[0];
                        if ptrs.iter().any(|p| *p != first) { bad.push(format!("round {round}: racers got different entries {:?}", ptrs)); }
                        match cache.get_cached::<B>(&id) {
                            Some(h) if (h as *const _ as usize, h.read().0) == first => {}
                            other => bad.push(format!("round {round}: stored entry {:?} is not the racers' {:?}", other.map(|h| (h as *const _ as usize, h.read().0)), first)),
                        }
                        if !cache.contains::<B>(&id) { bad.push(format!("round {round}: contains is false after the race")); }
                        // C13: every racer built a value; exactly one is stored, every other one was dropped, once
                        let (c1, d1) = { let l = ledger(); (l.created.len(), l.dropped.len()) };
                        if (c1 - c0) < 1 || (c1 - c0) - (d1 - d0) != 1 { bad.push(format!("round {round}: {} values created by the racers, {} dropped, exactly one must survive", c1 - c0, d1 - d0)); }
                        // unrelated insertions (map growth inside the shards), then re-read every earlier handle
                        if round % 16 == 15 {
                            for j in 0..2000 { cache.get_or_insert::<u64>(&format!("fill{round}-{j}"), j as u64); }
                            for r in 0..=round {
                                let rid = format!("k{r}");
                                if cache.get_cached::<B>(&rid).is_none() { bad.push(format!("entry k{r} vanished after unrelated insertions")); }
                                growth_checked += 1;
                            }
                        }
                        if bad.len() > 3 { break; }
                    }
                    rec.stat(format!("race/threads={threads}"));
                    rec.stat(format!("race/mix={mix}"));
                    rec.nontrivial = true;
                    let _ = growth_checked;
                    for b in &bad { rec.oracle_fail(format!("racers-diverge {b}")); }
                    rec.op(format!("conc.race {threads} {rounds}"), if bad.is_empty() { "one-handle" } else { "diverged" });
                }
                "probe" => {
                    let (readers, writers, iters) = (n(1).clamp(1, 8), n(2).clamp(1, 8), n(3));
                    let cache = AssetCache::with_source(MemSource::new(false));
                    let stable: Vec<(String, usize)> = (0..32).map(|i| { let id = format!("s{i}"); let p = cache.get_or_insert::<u64>(&id, i as u64) as *const _ as usize; (id, p) }).collect();
                    let stop = Arc::new(AtomicUsize::new(0));
                    let bad: Vec<String> = std::thread::scope(|s| {
                        let ws: Vec<_> = (0..writers).map(|wi| { let (cache, stop) = (&cache, stop.clone()); s.spawn(move || {
                            let mut j = 0usize;
                            while stop.load(Ordering::Acquire) == 0 && j < iters { cache.get_or_insert::<u64>(&format!("w{wi}-{j}"), j as u64); j += 1; }
                        }) }).collect();
                        let rs: Vec<_> = (0..readers).map(|ri| { let (cache, stable) = (&cache, &stable); s.spawn(move || {
                            let mut bad = vec![];
                            let c = cache.as_any_cache();
                            for it in 0..iters {
                                let (id, p) = &stable[(it + ri) % stable.len()];
                                let got = if it % 2 == 0 { cache.get_cached::<u64>(id) } else { c.get_cached::<u64>(id) };
                                match got {
                                    None => bad.push(format!("get_cached({id}) returned None for an entry that is present")),
                                    Some(h) if h as *const _ as usize != *p => bad.push(format!("get_cached({id}) returned a different entry")),
                                    _ => {}
                                }
                                if it % 7 == 0 && !cache.contains::<u64>(id) { bad.push(format!("contains({id}) flipped to false")); }
                                if bad.len() > 2 { break; }
                            }
                            bad
                        }) }).collect();
                        let mut all = vec![];
                        for r in rs { all.extend(r.join().unwrap()); }
                        stop.store(1, Ordering::Release);
                        for w in ws { w.join().unwrap(); }
                        all
                    });
                    rec.stat(format!("probe/readers={readers}/writers={writers}"));
                    rec.nontrivial = true;
                    for b in bad.iter().take(3) { rec.oracle_fail(format!("presence-flipped {b}")); }
                    rec.op(format!("conc.probe {readers} {writers}"), if bad.is_empty() { "stable" } else { "unstable" });
                }
                "keys" => {
                    let caches = n(1).clamp(1, 200_000);
                    let mut bad: Vec<String> = vec![];
                    let ids = ["world.items.asset1", "items.asset1", "asset1", "x.asset1", "a.b.c.d", "b.c.d", "c.d", "d", ""];
                    for k in 0..caches {
                        let local = assets_manager::LocalAssetCache::with_source(MemSource::new(false));
                        let shared = AssetCache::with_source(MemSource::new(false));
                        macro_rules! round { ($c:expr, $fe:expr) => {{
                            let c = $c;
                            let mut seen: Vec<(String, usize)> = vec![];
                            for (j, id) in ids.iter().enumerate() {
                                let h = c.get_or_insert::<u64>(id, j as u64);
                                if h.id().as_str() != *id || *h.read() != j as u64 { bad.push(format!("{} cache {k}: get_or_insert({id:?}) handed out the entry of {:?} (value {})", $fe, h.id().as_str(), *h.read())); }
                                let p = h as *const _ as usize;
                                if let Some((other, _)) = seen.iter().find(|(_, q)| *q == p) { bad.push(format!("{} cache {k}: ids {id:?} and {other:?} share one entry", $fe)); }
                                seen.push((id.to_string(), p));
                                // the same id under another type is another key
                                if c.contains::<u32>(id) { bad.push(format!("{} cache {k}: contains::<u32>({id:?}) is true, only a u64 was stored", $fe)); }
                            }
                            for (id, p) in &seen { match c.get_cached::<u64>(id) { Some(h) if h as *const _ as usize == *p => {} _ => bad.push(format!("{} cache {k}: get_cached({id:?}) does not return the entry that was inserted", $fe)) } }
                        }}; }
                        round!(&local, "LocalAssetCache");
                        round!(&shared, "AssetCache");
                        if bad.len() > 3 { break; }
                    }
                    rec.stat("keys/suffix-ids-and-types");
                    rec.nontrivial = true;
                    for b in bad.iter().take(3) { rec.oracle_fail(format!("racers-diverge key identity: {b}")); }
                    rec.op(format!("conc.keys {caches}"), if bad.is_empty() { "distinct" } else { "confused" });
                }
                _ => rec.op(line.clone(), "bad-op"),
            }
        }
    }
}
