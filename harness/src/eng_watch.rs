//! Engine `watch` (C12): the real `id_of_path` and the real notify event handler (hook H1:
//! `hot_reloading::verif_watcher::{id_of_path, Handler}`, `EventSender::verif_channel`) fed with
//! synthetic `notify::Event`s about entries of a temporary directory, `FileSystem::path_of`
//! (public), and — thorough tier — real create/modify/rename/delete histories observed through
//! the public `FsWatcherBuilder`, made deterministic by sentinel files.
//!
//! Gen lines (replayable, independent of where the temporary directory lives). A *gpath* is
//! `B:<hex>` (bytes of a path relative to the case's temporary base directory) or `L:<hex>`
//! (taken literally).
//!
//!   roots <w:0|1> <gpath>..            new handler (with a real notify watcher if w=1) and channel
//!   mk d|f <gpath> / rm <gpath>        file-system set-up
//!   id <root gpath> <path gpath>       raw `id_of_path`
//!   ev <kind> <gpath>..                raw event (kind: any access create modname modother remove removeany other;
//!                                      `remove` carries `RemoveKind::File` / `Folder` after what is at the path)
//!   err / drop-rx                      an `Err` event / drop the receiving end of the channel
//!   pathof f|d <hexid> <hexext>        `FileSystem::path_of` under root 0, then back through `id_of_path`
//!   note <create|modify|rename|delete|deleteany|any|access> <root#> f|d <hexid> <hexext> <decor>
//!                                      scenario: the valid entry (id, ext) under root # is notified;
//!                                      decor bits spell the path with `.` / `zz/..` detours
//!   real-roots <n> / real pre|create|modify|delete|rename … / real-start   (see `exec_real`)
//!
//! The oracle is written from the statement of C12: it knows the entry every scenario path was
//! built from and what must be named; it never looks at the Lean model.

use crate::common::*;
use assets_manager::hot_reloading::{verif_watcher, EventSender, FsWatcherBuilder, VerifEvents};
use assets_manager::source::{DirEntry, FileSystem, OwnedDirEntry};
use notify::event::{AccessKind, CreateKind, DataChange, ModifyKind, RemoveKind, RenameMode};
use notify::EventKind;
use std::ffi::OsStr;
use std::os::unix::ffi::OsStrExt;
use std::path::{Component, Path, PathBuf};
use std::time::{Duration, Instant};

#[derive(Default)]
pub struct WatchEngine {
    counter: usize,
}

// ------------------------------------------------------------------ encoding

fn tok(p: &Path) -> String {
    let v: Vec<String> = p
        .components()
        .map(|c| match c {
            Component::Prefix(_) => "X".to_string(),
            Component::RootDir => "R".to_string(),
            Component::CurDir => "C".to_string(),
            Component::ParentDir => "P".to_string(),
            Component::Normal(s) => format!("N{}", hex(s.as_bytes())),
        })
        .collect();
    if v.is_empty() { "-".into() } else { v.join(",") }
}

fn show_ent(e: &OwnedDirEntry) -> String {
    match e {
        OwnedDirEntry::File(id, ext) => format!("f:{}:{}", hexs(id), hexs(ext)),
        OwnedDirEntry::Directory(id) => format!("d:{}", hexs(id)),
    }
}

fn flag(b: bool) -> &'static str { if b { "1" } else { "0" } }

fn gp_b(s: &[u8]) -> String { format!("B:{}", hex(s)) }
fn gp_l(s: &[u8]) -> String { format!("L:{}", hex(s)) }

fn resolve(base: &Path, g: &str) -> PathBuf {
    let (k, h) = g.split_at(2);
    let bytes = unhex(h);
    let rel = PathBuf::from(OsStr::from_bytes(&bytes));
    match k {
        "B:" => if bytes.is_empty() { base.to_path_buf() } else { base.join(rel) },
        "L:" => rel,
        _ => panic!("watch engine: bad gpath {g}"),
    }
}

/// Lexical normal form used by the oracle only: `.` dropped, `x/..` cancelled.
fn lexical(p: &Path) -> Vec<Vec<u8>> {
    let mut out: Vec<Vec<u8>> = vec![];
    for c in p.components() {
        match c {
            Component::CurDir => {}
            Component::ParentDir => { if out.last().map_or(false, |l| l != b"/" && l != b"..") { out.pop(); } else { out.push(b"..".to_vec()) } }
            Component::RootDir => out.push(b"/".to_vec()),
            Component::Prefix(p) => out.push(p.as_os_str().as_bytes().to_vec()),
            Component::Normal(s) => out.push(s.as_bytes().to_vec()),
        }
    }
    out
}

/// The oracle's own forward mapping (statement: root / id segments / last segment + "." + ext).
fn own_path_of(root: &Path, e: &OwnedDirEntry) -> PathBuf {
    let (id, ext) = match e { OwnedDirEntry::File(i, x) => (i.as_str(), Some(x.as_str())), OwnedDirEntry::Directory(i) => (i.as_str(), None) };
    let mut p = root.to_path_buf();
    let segs: Vec<&str> = if id.is_empty() { vec![] } else { id.split('.').collect() };
    for (k, s) in segs.iter().enumerate() {
        if k + 1 == segs.len() { if let Some(x) = ext { if !x.is_empty() { p.push(format!("{s}.{x}")); continue; } } }
        p.push(s);
    }
    p
}

fn ent(is_dir: bool, id: &str, ext: &str) -> OwnedDirEntry {
    if is_dir { OwnedDirEntry::Directory(id.into()) } else { OwnedDirEntry::File(id.into(), ext.into()) }
}

fn parent_ent(id: &str) -> Option<OwnedDirEntry> {
    if id.is_empty() { return None; }
    Some(OwnedDirEntry::Directory(match id.rfind('.') { Some(n) => id[..n].into(), None => "".into() }))
}

fn ent_id(e: &OwnedDirEntry) -> &str { match e { OwnedDirEntry::File(i, _) => i, OwnedDirEntry::Directory(i) => i } }

// ------------------------------------------------------------------ the statement, as a checker

#[derive(Clone, Copy, PartialEq, Debug)]
enum NKind { Create, Modify, Rename, Delete, Any, Access }

impl NKind {
    fn parse(s: &str) -> NKind {
        match s { "create" => NKind::Create, "modify" => NKind::Modify, "rename" => NKind::Rename, "delete" => NKind::Delete, "any" => NKind::Any, "access" => NKind::Access, _ => panic!("watch engine: notification kind {s}") }
    }
    fn names_parent(self) -> bool { matches!(self, NKind::Create | NKind::Rename | NKind::Delete) }
}

/// `expected`: per covering root (own root first) the entry and, for create / rename / delete,
/// its parent directory. `got`: every entry delivered for the notification.
fn judge(kind: NKind, own: &OwnedDirEntry, others: &[OwnedDirEntry], got: &[OwnedDirEntry], lenient_extra: &[OwnedDirEntry], detour_before_last: bool, what: &str, out: &mut Vec<String>) {
    if kind == NKind::Access {
        if !got.is_empty() { out.push(format!("spurious-event {what}: an access notification produced {}", got.iter().map(show_ent).collect::<Vec<_>>().join(" "))); }
        return;
    }
    let mut expected: Vec<OwnedDirEntry> = vec![];
    for (k, e) in std::iter::once(own).chain(others.iter()).enumerate() {
        let named = got.contains(e);
        expected.push(e.clone());
        if !named && k == 0 {
            let cls = if kind == NKind::Delete { "delete-entry-not-named" } else if ent_id(e).is_empty() { "root-not-notified" } else { "entry-not-named" };
            out.push(format!("{cls} {what}: no event names {}", show_ent(e)));
        } else if !named {
            let cls = if kind == NKind::Delete { "delete-entry-not-named" } else if ent_id(e).is_empty() { "root-not-notified" } else { "entry-not-named" };
            out.push(format!("{cls} {what}: no event names {} (through another covering root)", show_ent(e)));
        }
        if kind.names_parent() {
            if let Some(p) = parent_ent(ent_id(e)) {
                if !got.contains(&p) {
                    let cls = if ent_id(&p).is_empty() { "root-not-notified" } else if kind == NKind::Rename { "rename-parent-not-named" } else if detour_before_last { "detour-parent-not-named" } else { "parent-not-named" };
                    out.push(format!("{cls} {what}: no event names the parent {}", show_ent(&p)));
                }
                expected.push(p);
            }
        }
    }
    for g in got {
        if !expected.contains(g) && !lenient_extra.contains(g) {
            out.push(format!("spurious-event {what}: unexpected {}", show_ent(g)));
        }
    }
}

/// Findings the design already lists come last, so that a case's class (= its first message)
/// is a *new* class whenever there is one.
fn priority(msg: &str) -> u8 {
    match msg.split_whitespace().next().unwrap_or("") {
        "root-not-notified" | "delete-entry-not-named" | "rename-parent-not-named" => 1,
        _ => 0,
    }
}

// ------------------------------------------------------------------ per-case state

struct TempBase(PathBuf);
impl Drop for TempBase { fn drop(&mut self) { let _ = std::fs::remove_dir_all(&self.0); } }

struct Live {
    roots: Vec<PathBuf>,
    handler: verif_watcher::Handler,
    rx: Option<VerifEvents>,
    had_watcher: bool,
}

/// Every file-system change the engine makes stays strictly inside a case directory below its own
/// temporary base (paths are resolved lexically; the base contains no symlinks).
fn confined(path: &Path) -> bool {
    let b = lexical(&std::env::temp_dir().join(format!("amh-watch-{}", std::process::id())));
    let p = lexical(path);
    p.len() >= b.len() + 2 && p[..b.len()] == b[..] && !p.iter().any(|c| c == b"..")
}

fn mk(path: &Path, dir: bool) {
    if !confined(path) { return; }
    if dir { let _ = std::fs::create_dir_all(path); } else {
        if let Some(p) = path.parent() { let _ = std::fs::create_dir_all(p); }
        if !path.is_dir() { let _ = std::fs::write(path, b"x"); }
    }
}

fn rm(path: &Path) {
    if !confined(path) { return; }
    if path.is_dir() { let _ = std::fs::remove_dir_all(path); } else { let _ = std::fs::remove_file(path); }
}

fn ev_kind(k: &str, npaths: usize, dir: bool) -> EventKind {
    match k {
        "any" => EventKind::Any,
        "access" => EventKind::Access(AccessKind::Any),
        "create" => EventKind::Create(if dir { CreateKind::Folder } else { CreateKind::File }),
        "modname" => EventKind::Modify(ModifyKind::Name(if npaths == 2 { RenameMode::Both } else { RenameMode::To })),
        "modother" => EventKind::Modify(ModifyKind::Data(DataChange::Any)),
        "remove" => EventKind::Remove(if dir { RemoveKind::Folder } else { RemoveKind::File }),
        "removeany" => EventKind::Remove(RemoveKind::Any),
        "other" => EventKind::Other,
        _ => panic!("watch engine: event kind {k}"),
    }
}

impl Live {
    /// Feed one event to the real handler; record the model line; return the batches delivered.
    fn feed(&mut self, k: &str, paths: &[PathBuf], dir_hint: bool, rec: &mut CaseRec) -> Vec<Vec<OwnedDirEntry>> {
        // a typed removal says what the entry was; the model is told which `RemoveKind` was sent
        let mk = match k { "remove" => if dir_hint { "removefolder" } else { "removefile" }, other => other };
        let mut line = format!("watch.ev {mk}");
        for p in paths {
            line.push_str(&format!(" {} {} {}", tok(p), flag(p.is_dir()), flag(p.parent().map_or(false, |q| q.is_dir()))));
        }
        let mut ev = notify::Event::new(ev_kind(k, paths.len(), dir_hint));
        for p in paths { ev = ev.add_path(p.clone()); }
        self.handler.handle_event(Ok(ev));
        let msgs = self.drain();
        rec.op(line, self.show(&msgs));
        msgs
    }

    fn drain(&mut self) -> Vec<Vec<OwnedDirEntry>> {
        let mut msgs = vec![];
        if let Some(rx) = &self.rx { while let Some(b) = rx.try_next() { msgs.push(b); } }
        msgs
    }

    fn show(&self, msgs: &[Vec<OwnedDirEntry>]) -> String {
        let mut s = format!("w={} n={}", flag(self.handler.has_watcher()), msgs.len());
        for b in msgs {
            s.push_str(" [ ");
            for e in b { s.push_str(&show_ent(e)); s.push(' '); }
            s.push(']');
        }
        s
    }

    fn watcher_check(&self, what: &str, out: &mut Vec<String>) {
        if self.had_watcher && self.rx.is_some() && !self.handler.has_watcher() {
            out.push(format!("watcher-stopped {what}: the handler dropped its watcher although the channel is connected"));
        }
    }
}

// ------------------------------------------------------------------ generator vocabulary

const SEGS: &[&str] = &["a", "b", "dir", "é", "x y", "A1"];
const EXTS: &[&str] = &["", "txt", "x", "é"];
/// Names that are not valid id segments / not expressible (bytes).
const WEIRD: &[&[u8]] = &[b"a.b", b".h", b"a.", b"a..b", b"a.b.c", b"\xff", b"a\xff", b"a.\xff", b"\xffa.txt", b"..", b".", b"\xc3\xbc.\xc3\xb6"];
const KINDS: &[&str] = &["any", "access", "create", "modname", "modother", "remove", "removeany", "other"];
const NKINDS: &[&str] = &["create", "modify", "rename", "delete", "any", "access"];

fn entries_upto(depth: usize) -> Vec<(bool, String, String)> {
    // (is_dir, id, ext): the root, then every kind of entry at each depth along a/b/dir
    let chain = ["a", "b", "dir"];
    let mut v = vec![(true, String::new(), String::new())];
    for d in 1..=depth {
        let parent = chain[..d - 1].join(".");
        let j = |s: &str| if parent.is_empty() { s.to_string() } else { format!("{parent}.{s}") };
        v.push((true, j(chain[d - 1]), String::new()));
        v.push((false, j("f"), "txt".into()));
        v.push((false, j("g"), String::new()));
        v.push((false, j("é"), "é".into()));
    }
    v
}

fn note(kind: &str, root: usize, e: &(bool, String, String), decor: usize) -> String {
    format!("note {kind} {root} {} {} {} {decor}", if e.0 { "d" } else { "f" }, hexs(&e.1), hexs(&e.2))
}

fn rand_entry(rng: &mut Prng) -> (bool, String, String) {
    if rng.chance(1, 20) { return (true, String::new(), String::new()); }
    let depth = if rng.chance(1, 6) { rng.range(4, 6) } else { rng.range(1, 3) };
    let segs: Vec<&str> = (0..depth).map(|_| *rng.pick(SEGS)).collect();
    let dir = rng.chance(1, 3);
    (dir, segs.join("."), if dir { String::new() } else { rng.pick(EXTS).to_string() })
}

fn rand_raw_path(rng: &mut Prng, root: &[u8]) -> String {
    // a path around `root` (bytes relative to the base): under it, beside it, above it, weird names
    let mut p: Vec<u8> = match rng.below(8) {
        0 => b"elsewhere".to_vec(),
        1 => { let mut r = root.to_vec(); r.extend_from_slice(b"x"); r }   // shares a name prefix only
        2 => return gp_b(root),
        3 => return gp_b(b""),
        _ => root.to_vec(),
    };
    let n = rng.range(1, 3);
    for _ in 0..n {
        p.push(b'/');
        if rng.chance(1, 3) { p.extend_from_slice(*rng.pick(WEIRD)); } else if rng.chance(1, 8) { p.extend_from_slice(b"./zz/.."); } else { p.extend_from_slice(rng.pick(SEGS).as_bytes()); }
    }
    if rng.chance(1, 2) { p.push(b'.'); p.extend_from_slice(rng.pick(&["txt", "x", "\u{e9}"]).as_bytes()); }
    gp_b(&p)
}

impl Engine for WatchEngine {
    fn name(&self) -> &'static str { "watch" }

    fn gen_case(&mut self, rng: &mut Prng, tier: Tier, idx: usize) -> Vec<String> {
        let mut l = vec![];
        let all = entries_upto(3);
        match idx {
            // one case per notification kind: every entry up to depth 3, plain and with detours
            0..=5 => {
                l.push(format!("roots {} {}", flag(idx % 2 == 0), gp_b(b"r0")));
                for e in &all { for decor in [0usize, 0b01, 0b1110, 0b110101] { l.push(note(NKINDS[idx], 0, e, decor)); } }
            }
            // several roots: disjoint, nested, dotted root name
            6 => {
                l.push(format!("roots 0 {} {} {}", gp_b(b"r0"), gp_b(b"r0/a"), gp_b(b"r.1")));
                for k in NKINDS { for e in &entries_upto(2) { for root in 0..3 { l.push(note(k, root, e, 0)); } } }
            }
            // raw id_of_path over weird names, both as last and as inner component; paths at / above / beside the root
            7 => {
                l.push(format!("roots 0 {}", gp_b(b"r0")));
                for w in WEIRD {
                    let inner = [b"r0/".as_slice(), w, b"/f.txt"].concat();
                    let last = [b"r0/a/".as_slice(), w].concat();
                    let lastdir = [b"r0/d/".as_slice(), w].concat();
                    if *w != b"..".as_slice() && *w != b".".as_slice() { l.push(format!("mk d {}", gp_b(&lastdir))); }
                    for p in [&inner, &last, &lastdir] { l.push(format!("id {} {}", gp_b(b"r0"), gp_b(p))); }
                    l.push(format!("ev create {}", gp_b(&lastdir)));
                    l.push(format!("ev modother {}", gp_b(&inner)));
                }
                for p in [b"r0".as_slice(), b"", b"r0x/f.txt", b"r0x", b"other/r0/f.txt", b"r0/..", b"r0/../r0/f.txt", b"r0/a/../../f.txt", b"r0/a/../../../f.txt"] {
                    l.push(format!("id {} {}", gp_b(b"r0"), gp_b(p)));
                    for k in KINDS { l.push(format!("ev {k} {}", gp_b(p))); }
                }
                for (r, p) in [("", "f.txt"), ("", "./a/f.txt"), ("", ""), ("", "."), ("", ".."), (".", "./f.txt"), ("/", "/f.txt"), ("/", "/"), ("rel/x", "rel/x/./a/f.txt"), ("rel/x", "rel/x/../x/f"), ("/nonexistent/q", "/nonexistent/q/a.b/f")] {
                    l.push(format!("id {} {}", gp_l(r.as_bytes()), gp_l(p.as_bytes())));
                }
            }
            // path_of over valid and odd ids, and back
            8 => {
                l.push(format!("roots 0 {}", gp_b(b"r0")));
                for id in ["", "a", "a.b", "a.b.dir", "a.b.dir.x y", "a.b.dir.x y.A1.é", "é.x y", "a..b", ".a", "a.", "."] {
                    for ext in ["", "txt", "é", "tar.gz"] { l.push(format!("pathof f {} {}", hexs(id), hexs(ext))); }
                    l.push(format!("pathof d {} -", hexs(id)));
                }
            }
            // the channel is disconnected: only then the watcher goes away
            9 => {
                l.push(format!("roots 1 {}", gp_b(b"r0")));
                l.push(format!("ev modother {}", gp_b(b"elsewhere/f.txt")));
                l.push(format!("ev create {}", gp_b(b"r0/\xff/f.txt")));
                l.push("err".into());
                l.push(format!("ev remove {}", gp_l(b"/")));
                l.push(note("modify", 0, &all[2], 0));
                l.push("drop-rx".into());
                l.push(format!("ev remove {}", gp_l(b"/")));
                l.push(format!("ev access {}", gp_b(b"r0/a")));
                l.push(format!("ev modother {}", gp_b(b"elsewhere/f.txt")));
                l.push(format!("ev modother {}", gp_b(b"r0/a")));
            }
            _ if idx % 40 == 9 => {
                // both tiers: a short real history under a root that the source hands to `FsWatcherBuilder::watch` through an
                // alias (symbolic link / `x/..` detour): the events come back spelled like the watch, not like the canonical path
                let alias = *rng.pick(&["link", "dotdot"]);
                l.push(format!("real-roots 1 {alias}"));
                l.push("real-start".into());
                l.push(format!("real create f 0 {} {}", hexs("a"), hexs("txt")));
                l.push(format!("real modify f 0 {} {}", hexs("a"), hexs("txt")));
                l.push(format!("real create d 0 {} {}", hexs("d"), hexs("")));
                l.push(format!("real create f 0 {} {}", hexs("d.b"), hexs("x")));
                l.push(format!("real delete f 0 {} {}", hexs("a"), hexs("txt")));
            }
            _ if tier == Tier::Thorough && idx % 8 == 2 => {
                // real watcher history
                let nroots = rng.range(1, 2);
                l.push(format!("real-roots {nroots} {}", rng.pick(&["plain", "plain", "link", "dotdot"])));
                let mut live: Vec<(usize, bool, String, String)> = vec![];
                let pre = rng.range(0, 3);
                let total = pre + rng.range(4, 10);
                let mut started = false;
                for step in 0..total {
                    if step == pre { l.push("real-start".into()); started = true; }
                    let verb = if !started { "pre" } else { "" };
                    let choice = if !started || live.is_empty() { 0 } else { rng.below(5) };
                    match choice {
                        0 | 1 => {
                            // create below an existing directory (or at top level)
                            let root = rng.below(nroots);
                            let dirs: Vec<&(usize, bool, String, String)> = live.iter().filter(|e| e.0 == root && e.1).collect();
                            let parent = if dirs.is_empty() || rng.chance(1, 3) { String::new() } else { rng.pick(&dirs).2.clone() };
                            let seg = *rng.pick(SEGS);
                            let id = if parent.is_empty() { seg.to_string() } else { format!("{parent}.{seg}") };
                            let dir = rng.chance(1, 3);
                            let ext = if dir { String::new() } else { rng.pick(&["txt", "x", "ron"]).to_string() };
                            if live.iter().any(|e| e.0 == root && e.2 == id) { continue; }
                            l.push(format!("real {} {} {root} {} {}", if started { "create" } else { verb }, if dir { "d" } else { "f" }, hexs(&id), hexs(&ext)));
                            live.push((root, dir, id, ext));
                        }
                        2 => {
                            let files: Vec<&(usize, bool, String, String)> = live.iter().filter(|e| !e.1).collect();
                            if files.is_empty() { continue; }
                            let e = (*rng.pick(&files)).clone();
                            l.push(format!("real modify f {} {} {}", e.0, hexs(&e.2), hexs(&e.3)));
                        }
                        3 => {
                            let k = rng.below(live.len());
                            let e = live[k].clone();
                            let prefix = format!("{}.", e.2);
                            live.retain(|x| !(x.0 == e.0 && (x.2 == e.2 || x.2.starts_with(&prefix))));
                            l.push(format!("real delete {} {} {} {}", if e.1 { "d" } else { "f" }, e.0, hexs(&e.2), hexs(&e.3)));
                        }
                        _ => {
                            let k = rng.below(live.len());
                            let e = live[k].clone();
                            let parent = match e.2.rfind('.') { Some(n) => e.2[..n].to_string(), None => String::new() };
                            let seg = format!("{}2", rng.pick(SEGS));
                            let id2 = if parent.is_empty() { seg } else { format!("{parent}.{seg}") };
                            if live.iter().any(|x| x.0 == e.0 && x.2 == id2) { continue; }
                            let prefix = format!("{}.", e.2);
                            let moved: Vec<(usize, bool, String, String)> = live.iter().filter(|x| x.0 == e.0 && x.2.starts_with(&prefix)).cloned().collect();
                            live.retain(|x| !(x.0 == e.0 && (x.2 == e.2 || x.2.starts_with(&prefix))));
                            for m in moved { live.push((m.0, m.1, format!("{id2}.{}", &m.2[prefix.len()..]), m.3)); }
                            live.push((e.0, e.1, id2.clone(), e.3.clone()));
                            l.push(format!("real rename {} {} {} {} {}", if e.1 { "d" } else { "f" }, e.0, hexs(&e.2), hexs(&e.3), hexs(&id2)));
                        }
                    }
                }
                if !started { l.push("real-start".into()); }
            }
            _ => {
                let roots: Vec<&[u8]> = match rng.below(6) {
                    0 => vec![b"r0", b"r1"],
                    1 => vec![b"r0", b"r0/a"],
                    2 => vec![b"r0/a/b", b"r0", b"r.1"],
                    3 => vec![b"r.1"],
                    _ => vec![b"r0"],
                };
                l.push(format!("roots {} {}", flag(rng.chance(1, 3)), roots.iter().map(|r| gp_b(r)).collect::<Vec<_>>().join(" ")));
                let n = rng.range(8, 30);
                let mut dropped = false;
                for _ in 0..n {
                    match rng.below(100) {
                        0..=59 => {
                            let e = rand_entry(rng);
                            let decor = if rng.chance(1, 2) { 0 } else { rng.below(256) };
                            let nk = if rng.chance(1, 10) { "deleteany" } else { *rng.pick(NKINDS) };
                            l.push(note(nk, rng.below(roots.len()), &e, decor));
                        }
                        60..=69 => { let r = *rng.pick(&roots); let p = rand_raw_path(rng, r); l.push(format!("mk {} {p}", if rng.chance(2, 3) { "d" } else { "f" })); l.push(format!("ev {} {p}", rng.pick(KINDS))); }
                        70..=79 => { let np = rng.range(1, 2); let ps: Vec<String> = (0..np).map(|_| { let r = *rng.pick(&roots); rand_raw_path(rng, r) }).collect(); l.push(format!("ev {} {}", rng.pick(KINDS), ps.join(" "))); }
                        80..=89 => { let r = *rng.pick(&roots); let r2 = *rng.pick(&roots); l.push(format!("id {} {}", gp_b(r), rand_raw_path(rng, r2))); }
                        90..=94 => { let e = rand_entry(rng); l.push(format!("pathof {} {} {}", if e.0 { "d" } else { "f" }, hexs(&e.1), hexs(&e.2))); }
                        95..=96 => l.push("err".into()),
                        97 => { let r = *rng.pick(&roots); let p = rand_raw_path(rng, r); l.push(format!("rm {p}")); }
                        _ => { if !dropped && rng.chance(1, 3) { l.push("drop-rx".into()); dropped = true; } }
                    }
                }
            }
        }
        l
    }

    fn finish(&mut self, _run: &mut Run) {
        let _ = std::fs::remove_dir(std::env::temp_dir().join(format!("amh-watch-{}", std::process::id())));
    }

    fn exec_case(&mut self, lines: &[String], rec: &mut CaseRec) {
        self.counter += 1;
        let base = std::env::temp_dir().join(format!("amh-watch-{}", std::process::id())).join(format!("c{}", self.counter));
        let _ = std::fs::remove_dir_all(&base);
        std::fs::create_dir_all(&base).expect("temp base");
        let _guard = TempBase(base.clone());
        let mut live: Option<Live> = None;
        let mut fails: Vec<String> = vec![];
        let mut real = RealRun::default();

        for line in lines {
            let w: Vec<&str> = line.split_whitespace().collect();
            match w[0] {
                "roots" => {
                    let roots: Vec<PathBuf> = w[2..].iter().map(|g| resolve(&base, g)).collect();
                    for (g, r) in w[2..].iter().zip(&roots) { if g.starts_with("B:") { mk(r, true); } }
                    let with_watcher = w[1] == "1";
                    let watcher = if with_watcher { notify::recommended_watcher(|_r: notify::Result<notify::Event>| {}).ok() } else { None };
                    let had_watcher = watcher.is_some();
                    let (tx, rx) = EventSender::verif_channel();
                    let handler = verif_watcher::Handler::new(roots.clone(), tx, watcher);
                    rec.op(format!("watch.roots {} {}", flag(had_watcher), roots.iter().map(|r| tok(r)).collect::<Vec<_>>().join(" ")).trim_end().to_string(), "ok");
                    rec.stat(format!("roots/{}", roots.len()));
                    live = Some(Live { roots, handler, rx: Some(rx), had_watcher });
                }
                "mk" | "rm" => {
                    // never turn the base or a root (or one of their ancestors) into a file / remove it
                    let target = resolve(&base, w[w.len() - 1]);
                    let tl = lexical(&target);
                    let covers = |p: &Path| { let pl = lexical(p); pl.len() >= tl.len() && pl[..tl.len()] == tl[..] };
                    let protected = covers(&base) || live.as_ref().map_or(false, |lv| lv.roots.iter().any(|r| covers(r)));
                    if protected && !(w[0] == "mk" && w[1] == "d") { rec.stat("skipped/protected-path"); continue; }
                    if w[0] == "mk" { mk(&target, w[1] == "d") } else { rm(&target) }
                }
                "id" => {
                    let (root, path) = (resolve(&base, w[1]), resolve(&base, w[2]));
                    let d = path.is_dir();
                    let got = verif_watcher::id_of_path(&root, &path);
                    rec.op(format!("watch.id {} {} {}", flag(d), tok(&root), tok(&path)), got.as_ref().map_or("none".to_string(), show_ent));
                    rec.stat(if got.is_some() { "id/some" } else { "id/none" });
                    rec.nontrivial = true;
                    if let Some(e) = &got { if !expressible_ok(&[root.clone()], &path, e) { expressible_fail(&path, e, &mut fails); } }
                    let _ = d;
                }
                "ev" => {
                    let Some(lv) = live.as_mut() else { rec.stat("skipped/no-roots"); continue };
                    let paths: Vec<PathBuf> = w[2..].iter().map(|g| resolve(&base, g)).collect();
                    let dir_hint = paths.first().map_or(false, |p| p.is_dir());
                    // one notification carries one `RemoveKind`: paths of both kinds are reported untyped
                    let kind = if w[1] == "remove" && paths.iter().any(|p| p.is_dir() != dir_hint) { "removeany" } else { w[1] };
                    let msgs = lv.feed(kind, &paths, dir_hint, rec);
                    rec.stat(format!("ev/{}", w[1]));
                    rec.nontrivial = true;
                    // statement: whatever is named must be the entry at the notified path (or its parent)
                    if w[1] == "access" || w[1] == "other" {
                        if !msgs.is_empty() { fails.push(format!("spurious-event raw {line}: an {} notification sent {} message(s)", w[1], msgs.len())); }
                    }
                    if msgs.len() == paths.len() {
                        for (p, b) in paths.iter().zip(&msgs) {
                            for e in b {
                                // the parent of an entry is a directory by definition; an event about a path below
                                // a regular file contradicts the file system, not the property
                                let at_parent = p.parent().map_or(false, |q| expressible_ok(&lv.roots, q, e)
                                    || (q.exists() && !q.is_dir() && matches!(e, OwnedDirEntry::Directory(_)) && names_path(&lv.roots, q, e)));
                                if !expressible_ok(&lv.roots, p, e) && !at_parent { expressible_fail(p, e, &mut fails); }
                            }
                        }
                    }
                    lv.watcher_check(line, &mut fails);
                }
                "err" => {
                    let Some(lv) = live.as_mut() else { continue };
                    lv.handler.handle_event(Err(notify::Error::generic("synthetic")));
                    let msgs = lv.drain();
                    rec.op("watch.err", lv.show(&msgs));
                    if !msgs.is_empty() { fails.push("spurious-event an Err notification produced events".into()); }
                    lv.watcher_check(line, &mut fails);
                }
                "drop-rx" => {
                    let Some(lv) = live.as_mut() else { continue };
                    lv.rx = None;
                    rec.op("watch.drop-rx", "ok");
                    rec.stat("drop-rx");
                }
                "pathof" => {
                    let Some(lv) = live.as_ref() else { continue };
                    let Ok(fs) = FileSystem::new(&lv.roots[0]) else { rec.stat("skipped/pathof-no-root"); continue };
                    let (id, ext) = (unhexs(w[2]), unhexs(w[3]));
                    let dir = w[1] == "d";
                    let p = fs.path_of(if dir { DirEntry::Directory(&id) } else { DirEntry::File(&id, &ext) });
                    rec.op(format!("watch.pathof {} {} {} {}", w[1], w[2], if dir { "-" } else { w[3] }, tok(fs.root())), tok(&p));
                    rec.stat("pathof");
                    rec.nontrivial = true;
                    let valid = |s: &str| !s.is_empty() && !s.contains('/');
                    let is_valid = (id.is_empty() && dir) || (id.split('.').all(valid) && !ext.contains('.') && !ext.contains('/'));
                    if is_valid {
                        let e = ent(dir, &id, &ext);
                        if lexical(&own_path_of(fs.root(), &e)) != lexical(&p) {
                            fails.push(format!("path-of-mismatch path_of({}) = {:?}", show_ent(&e), p));
                        }
                        // … and back: a valid entry that exists with its kind is recognised
                        if !id.is_empty() {
                            mk(&p, dir);
                            let back = verif_watcher::id_of_path(fs.root(), &p);
                            rec.op(format!("watch.id {} {} {}", flag(p.is_dir()), tok(fs.root()), tok(&p)), back.as_ref().map_or("none".to_string(), show_ent));
                            if p.is_dir() == dir && back.as_ref() != Some(&e) {
                                fails.push(format!("roundtrip-broken id_of_path(path_of({})) = {}", show_ent(&e), back.as_ref().map_or("none".to_string(), show_ent)));
                            }
                            rm(&p);
                        }
                    }
                }
                "note" => {
                    let Some(lv) = live.as_mut() else { rec.stat("skipped/no-roots"); continue };
                    // `deleteany`: a deletion reported without the kind of what was deleted (Remove(Any))
                    let untyped = w[1] == "deleteany";
                    let kind = if untyped { NKind::Delete } else { NKind::parse(w[1]) };
                    let ri: usize = w[2].parse().expect("root index");
                    if ri >= lv.roots.len() { rec.stat("skipped/bad-root"); continue; }
                    let dir = w[3] == "d";
                    let (id, ext) = (unhexs(w[4]), unhexs(w[5]));
                    let decor: usize = w[6].parse().expect("decor");
                    let segs: Vec<&str> = if id.is_empty() { vec![] } else { id.split('.').collect() };
                    // the plain path (own join, from the statement) and the spelled path with detours
                    let own = ent(dir, &id, &ext);
                    let plain = own_path_of(&lv.roots[ri], &own);
                    // a FILE notification must not turn another watched root (or an ancestor of one) into a file: roots are directories
                    if !dir {
                        let tl = lexical(&plain);
                        if lv.roots.iter().any(|r| { let rl = lexical(r); rl.len() >= tl.len() && rl[..tl.len()] == tl[..] }) { rec.stat("skipped/file-notification-on-a-root-path"); continue; }
                    }
                    ensure_dirs(&base, &lv.roots[ri]);
                    if let Some(par) = plain.parent() { if !id.is_empty() { ensure_dirs(&lv.roots[ri], par); } }
                    let mut spelled = lv.roots[ri].clone();
                    for (k, s) in segs.iter().enumerate() {
                        if decor >> (2 * k) & 1 == 1 { spelled.push("."); }
                        if decor >> (2 * k + 1) & 1 == 1 { mk(&spelled.join("zz"), true); spelled.push("zz"); spelled.push(".."); }
                        if k + 1 == segs.len() && !dir && !ext.is_empty() { spelled.push(format!("{s}.{ext}")); } else { spelled.push(s); }
                    }
                    // bring the file system into the state the notification reports
                    if kind == NKind::Delete {
                        if !id.is_empty() { rm(&plain); }
                    } else {
                        if plain.is_dir() != dir && plain.exists() { rm(&plain); }
                        mk(&plain, dir);
                    }
                    let k = match kind { NKind::Create => "create", NKind::Modify => "modother", NKind::Rename => "modname", NKind::Delete => if untyped { "removeany" } else { "remove" }, NKind::Any => "any", NKind::Access => "access" };
                    let msgs = lv.feed(k, &[spelled.clone()], dir, rec);
                    rec.stat(format!("note/{}/{}/depth{}{}", w[1], w[3], segs.len(), if decor != 0 { "/detour" } else { "" }));
                    rec.nontrivial = true;
                    let got: Vec<OwnedDirEntry> = msgs.into_iter().flatten().collect();
                    // the same entry seen from every other root the spelled path literally starts with;
                    // roots that cover it only after resolving a detour may name it or not
                    let full = lexical(&plain);
                    let (mut others, mut lenient) = (vec![], vec![]);
                    for (j, r) in lv.roots.iter().enumerate() {
                        if j == ri { continue; }
                        let rl = lexical(r);
                        if full.len() >= rl.len() && full[..rl.len()] == rl[..] {
                            let mut rest: Vec<String> = full[rl.len()..].iter().map(|b| String::from_utf8_lossy(b).into_owned()).collect();
                            let seen = if rest.is_empty() { OwnedDirEntry::Directory("".into()) } else {
                                if !dir && !ext.is_empty() { let l = rest.pop().unwrap(); rest.push(l[..l.len() - ext.len() - 1].to_string()); }
                                ent(dir, &rest.join("."), &ext)
                            };
                            if spelled.starts_with(r) { others.push(seen); } else {
                                if let Some(p) = parent_ent(ent_id(&seen)) { lenient.push(p); }
                                lenient.push(seen);
                            }
                        }
                    }
                    let what = format!("{} of {} under root {ri} (path {:?})", w[1], show_ent(&own), spelled.strip_prefix(&base).unwrap_or(&spelled));
                    let detour_before_last = !segs.is_empty() && decor >> (2 * (segs.len() - 1) + 1) & 1 == 1;
                    // the kind of a deleted directory cannot be known from an untyped removal: only files are judged then
                    if untyped && dir { rec.stat("note/deleteany/directory(not judged)"); }
                    else if lv.rx.is_some() { judge(kind, &own, &others, &got, &lenient, detour_before_last, &what, &mut fails); }
                    lv.watcher_check(&what, &mut fails);
                }
                "real-roots" | "real" | "real-start" => real.line(&base, &w, rec, &mut fails),
                other => panic!("watch engine: unknown line {other}"),
            }
        }
        real.finish();
        fails.sort_by_key(|m| priority(m));
        for f in fails { rec.oracle_fail(f); }
    }
}

/// Is `e` the entry whose path (under one of the roots) is `path`, with the kind the file system
/// shows (the kind of something that is gone cannot be told)?
fn expressible_ok(roots: &[PathBuf], path: &Path, e: &OwnedDirEntry) -> bool {
    let kind_ok = !path.exists() || matches!(e, OwnedDirEntry::Directory(_)) == path.is_dir();
    kind_ok && names_path(roots, path, e)
}

/// Is `path` the path of `e` under one of the roots (kind apart)?
fn names_path(roots: &[PathBuf], path: &Path, e: &OwnedDirEntry) -> bool {
    let target = lexical(path);
    roots.iter().any(|r| lexical(&own_path_of(r, e)) == target)
}

fn expressible_fail(path: &Path, e: &OwnedDirEntry, out: &mut Vec<String>) {
    out.push(format!("unexpressible-path-named the path …/{:?} ({}) is not the path of any entry of that kind (nor is its parent), yet {} was named", path.file_name().unwrap_or_default(), if path.is_dir() { "a directory" } else { "not a directory" }, show_ent(e)));
}

/// Make every directory from `root` down to `dir` a real directory (removing files in the way).
fn ensure_dirs(root: &Path, dir: &Path) {
    let Ok(rel) = dir.strip_prefix(root) else { return };
    let mut p = root.to_path_buf();
    let _ = std::fs::create_dir_all(&p);
    for c in rel.components() {
        p.push(c);
        if !p.is_dir() { if p.exists() { rm(&p); } let _ = std::fs::create_dir(&p); }
    }
}

// ------------------------------------------------------------------ real watcher (thorough)

/// `real-roots n`; `real pre f|d root id ext` (before the watcher starts); `real-start`;
/// `real create|modify|delete f|d root id ext`; `real rename f|d root id ext id2`.
/// Every operation is followed by a sentinel file written into a directory reserved for it:
/// inotify preserves order, so once the sentinel's own event has arrived every event of the
/// operation has; nothing is ever concluded from a time-out except that the run is unusable.
#[derive(Default)]
struct RealRun {
    roots: Vec<PathBuf>,
    /// how each root is spelled when it is handed to `FsWatcherBuilder::watch`
    watch_paths: Vec<PathBuf>,
    rx: Option<VerifEvents>,
    n_sentinel: usize,
}

impl RealRun {
    fn path(&self, root: usize, dir: bool, id: &str, ext: &str) -> PathBuf { own_path_of(&self.roots[root], &ent(dir, id, ext)) }

    /// Wait for a fresh sentinel; returns what arrived before it (sentinel traffic removed).
    fn barrier(&mut self, fails: &mut Vec<String>) -> Vec<OwnedDirEntry> {
        let mut got = vec![];
        let Some(rx) = &self.rx else { return got };
        self.n_sentinel += 1;
        let name = format!("s{}", self.n_sentinel);
        std::fs::write(self.roots[0].join("zsnt").join(format!("{name}.snt")), b"s").expect("sentinel");
        let want = OwnedDirEntry::File(format!("zsnt.{name}").into(), "snt".into());
        let t0 = Instant::now();
        loop {
            match rx.try_next() {
                Some(batch) => {
                    let mut seen = false;
                    for e in batch { if e == want { seen = true } else if !(ent_id(&e) == "zsnt" || ent_id(&e).starts_with("zsnt.")) { got.push(e) } }
                    if seen { return got; }
                }
                None => {
                    if t0.elapsed() > Duration::from_secs(20) { fails.push("sentinel-timeout the real watcher did not report the sentinel file within 20 s (run unusable)".into()); self.rx = None; return got; }
                    std::thread::sleep(Duration::from_millis(2));
                }
            }
        }
    }

    fn line(&mut self, base: &Path, w: &[&str], rec: &mut CaseRec, fails: &mut Vec<String>) {
        match w[0] {
            "real-roots" => {
                let n: usize = w[1].parse().expect("n");
                self.roots = (0..n).map(|k| base.join(format!("real{k}"))).collect();
                for r in &self.roots { mk(r, true); }
                let alias = w.get(2).copied().unwrap_or("plain");
                self.watch_paths = self.roots.iter().enumerate().map(|(k, r)| match alias {
                    "link" => { let l = base.join(format!("alias{k}")); let _ = std::fs::remove_file(&l); std::os::unix::fs::symlink(r, &l).expect("symlink"); l }
                    "dotdot" => { mk(&base.join("detour"), true); base.join("detour").join("..").join(format!("real{k}")) }
                    _ => r.clone(),
                }).collect();
                rec.stat(format!("real/root-spelling={alias}"));
                mk(&self.roots[0].join("zsnt"), true);
            }
            "real-start" => {
                if self.roots.is_empty() { return; }
                let (tx, rx) = EventSender::verif_channel();
                let mut b = match FsWatcherBuilder::new() { Ok(b) => b, Err(e) => { rec.stat("real/unavailable"); eprintln!("watch engine: no real watcher: {e}"); return } };
                for r in &self.watch_paths { if let Err(e) = b.watch(r.clone()) { eprintln!("watch engine: cannot watch: {e}"); rec.stat("real/unavailable"); return; } }
                b.build(tx);
                self.rx = Some(rx);
                // the handler is handed over on the first event: make sure it is in place
                self.barrier(fails);
                rec.stat("real/started");
            }
            "real" => {
                if self.roots.is_empty() { return; }
                let dir = w[2] == "d";
                let root: usize = w[3].parse().expect("root");
                if root >= self.roots.len() { return; }
                let (id, ext) = (unhexs(w[4]), unhexs(w[5]));
                let p = self.path(root, dir, &id, &ext);
                let own = ent(dir, &id, &ext);
                let (kind, lenient): (NKind, Vec<OwnedDirEntry>) = match w[1] {
                    "pre" => { mk(&p, dir); return }
                    "create" => { if dir { std::fs::create_dir(&p).expect("mkdir") } else { std::fs::write(&p, b"new").expect("write") }; (NKind::Create, vec![]) }
                    "modify" => { std::fs::write(&p, b"changed").expect("write"); (NKind::Modify, vec![]) }
                    "delete" => { rm(&p); (NKind::Delete, vec![OwnedDirEntry::File(id.as_str().into(), ext.as_str().into())]) }
                    "rename" => {
                        let id2 = unhexs(w[6]);
                        let p2 = self.path(root, dir, &id2, &ext);
                        std::fs::rename(&p, &p2).expect("rename");
                        // judged on the new name; the old name may be named too (as a file: it is gone)
                        let got = self.settle(dir, fails);
                        if self.rx.is_none() { return; }
                        let own2 = ent(dir, &id2, &ext);
                        let what = format!("real rename of {} to {} under root {root}", show_ent(&own), show_ent(&own2));
                        let lenient = vec![own.clone(), OwnedDirEntry::File(id.as_str().into(), ext.as_str().into())];
                        judge(NKind::Rename, &own2, &[], &got, &lenient, false, &what, fails);
                        rec.stat("real/rename");
                        rec.nontrivial = true;
                        return;
                    }
                    other => panic!("watch engine: real verb {other}"),
                };
                let mut got = self.settle(dir && kind == NKind::Create, fails);
                if self.rx.is_none() { return; }
                let below = format!("{id}.");
                got.retain(|e| !ent_id(e).starts_with(&below));   // a removed directory's own content
                let what = format!("real {} of {} under root {root}", w[1], show_ent(&own));
                judge(kind, &own, &[], &got, &lenient, false, &what, fails);
                rec.stat(format!("real/{}", w[1]));
                rec.nontrivial = true;
            }
            _ => {}
        }
    }

    /// One barrier; a second one after a directory appeared (notify installs the watch of a new
    /// directory only after it has delivered the batch of events announcing it).
    fn settle(&mut self, new_dir: bool, fails: &mut Vec<String>) -> Vec<OwnedDirEntry> {
        let mut got = self.barrier(fails);
        if new_dir { got.extend(self.barrier(fails)); }
        got
    }

    fn finish(&mut self) { self.rx = None; }
}
