//! Engine `fault` (C09): faults while loading are contained.
//!
//! A scenario = a source with a script DAG + setup loads + ONE probed operation (a top-level `load` /
//! `owned`, or an edit + `notify` + `reload` pass). The scenario is first run cleanly to count the
//! source reads and loader checkpoints the probed operation performs; then, for EVERY read index (five
//! `io::ErrorKind`s) and EVERY loader checkpoint (error and panic), the world is rebuilt from scratch
//! (`reset`), the setup replayed, the single fault injected, the probed operation run, the fault plan
//! cleared and the operation retried. Every line is an ordinary op executed by the model driver too.
//!
//! Gen-line format (replayable, hand-writable):
//! ```text
//! cfg <frontend> <mode>
//! family load|reload|small        (label for the statistics)
//! <setup op lines>
//! probe
//! <probe op lines: `load T id` | `owned T id` | `src.*` edits, `notify …`, `reload`>
//! ```
//! Family `recording` has no `probe` marker: its lines are executed in order; the directive
//! `recprobe T id` says "the asset (T, id) read the file edited next AFTER it contained a panic of an
//! inner `no_record` load: the following notify + reload + dump must show it reloaded and up to date".
//!
//! Oracle (written from the statement of C09), class tokens: `fault-not-reported`,
//! `fault-corrupted-cache`, `fault-partial-value-visible`, `hot-reload-stuck-after-fault`,
//! `no-recovery-after-fault`, `recording-not-restored`.

use crate::common::*;
use crate::eng_cache::{gen_source, IDS};
use crate::exec_world::*;
use crate::types::{loader_faults, loader_log, LOG_LOADERS};
use std::collections::BTreeMap;
use std::sync::atomic::{AtomicUsize, Ordering};

#[derive(Default)]
pub struct FaultEngine;

pub const KINDS: &[&str] = &["NotFound", "PermissionDenied", "InvalidData", "Interrupted", "Other"];
/// bounded wait for anything that involves the reloader thread (a healthy pass takes well under a millisecond)
const WAIT_SECS: u64 = 8;
/// scenarios in which the reloader was found stuck (each costs `WAIT_SECS`): after a few of them the remaining
/// scenarios stop at the first one as well, but the run is not made to wait for every injection point
static STUCK_SEEN: AtomicUsize = AtomicUsize::new(0);

type Snap = BTreeMap<(String, String), (String, usize, usize)>;

fn snap(wx: &WorldExec) -> Snap {
    wx.snapshot().into_iter().map(|(k, (v, p))| { let r = wx.rid_of(&k.0, &k.1).unwrap_or(0); (k, (v, p, r)) }).collect()
}

fn exec(wx: &mut WorldExec, line: &str) -> String {
    // `WorldExec::op` bounds `reload` itself and analyses the pass (order-dependent passes set `wx.unspecified`)
    wx.op(line)
}

/// result line without the handle number (`ok h3 v:5` → `ok v:5`)
fn strip_handle(out: &str) -> String {
    let w: Vec<&str> = out.split_whitespace().collect();
    if w.len() >= 3 && w[0] == "ok" && w[1].starts_with('h') && w[1][1..].chars().all(|c| c.is_ascii_digit()) { format!("ok {}", w[2..].join(" ")) } else { out.to_string() }
}

/// `dump` line → key ↦ value (reload ids dropped)
fn dump_values(out: &str) -> BTreeMap<String, String> {
    out.split_whitespace().skip(1).filter_map(|p| { let (k, rest) = p.split_once('=')?; let (v, _r) = rest.rsplit_once('@')?; Some((k.to_string(), v.to_string())) }).collect()
}

fn is_script_type(t: &str) -> bool { matches!(t, "S0" | "S1" | "S2" | "N0") }

// ------------------------------------------------------------------------------------------------ generators

fn put_s(l: &mut Vec<String>, id: &str, script: &str) { l.push(format!("src.put {} {} {} 0", hexs(id), hexs("s"), hexs(script))); }
fn put_a(l: &mut Vec<String>, id: &str, content: &str) { l.push(format!("src.put {} {} {} 0", hexs(id), hexs("a"), hexs(content))); }

/// Family `reload`: the assets that depend on the edited file form a CHAIN (each one loads the previous
/// one), so the order of the reloads within the pass — and with it the meaning of "read index k" — does not
/// depend on the iteration order of the reloader's hash sets. Side assets never depend on a chain member, are
/// never edited, and tolerate no failure (no `=`, no default value, a single extension).
fn gen_reload(rng: &mut Prng, l: &mut Vec<String>) {
    let fe = *rng.pick(&["shared", "any"]);
    l.push(format!("cfg {fe} hot"));
    l.push("family reload".into());
    let n = IDS.len();
    let m = rng.range(1, 4);
    let mut ranks: Vec<usize> = (0..n).collect();
    rng.shuffle(&mut ranks);
    let mut chain: Vec<usize> = ranks[..m].to_vec();
    chain.sort_by(|a, b| b.cmp(a));               // chain[0] = deepest (highest rank), chain[m-1] = top
    let is_chain = |r: usize| chain.contains(&r);
    let sty: Vec<&str> = (0..n).map(|r| if is_chain(r) { *rng.pick(&["S0", "S1", "S2"]) } else { *rng.pick(&["S0", "S1", "S2", "N0"]) }).collect();
    let leaf_is_asset = rng.chance(1, 4);         // the edited file is `c1.a` of an `M20` leaf instead of a script
    let side_above = |r: usize| -> Vec<usize> { (r + 1..n).filter(|x| !is_chain(*x)).collect() };
    let extra = |rng: &mut Prng, r: usize, tolerant: bool| -> Option<String> {
        let hs = side_above(r);
        if hs.is_empty() { return Some(rng.below(9).to_string()); }
        let t = *rng.pick(&hs);
        Some(match rng.below(if tolerant { 8 } else { 6 }) {
            0..=2 => format!("+{}:{}", sty[t], IDS[t]),
            3 => format!("!{}:{}", sty[t], IDS[t]),
            4 => format!("r:{}:a", IDS[t]),
            5 => format!("+M20:{}", IDS[t]),
            _ => format!("={}:{}", sty[t], IDS[t]),
        })
    };
    // side assets
    for r in 0..n {
        if is_chain(r) { continue; }
        let mut toks = vec![rng.below(20).to_string()];
        for _ in 0..rng.range(0, 2) { if let Some(t) = extra(rng, r, false) { toks.push(t); } }
        if rng.chance(1, 12) { toks.push("%".into()); }
        put_s(l, IDS[r], &toks.join(" "));
        put_a(l, IDS[r], &format!("ok:{}", rng.below(50)));
    }
    // chain members
    let leaf_script = |rng: &mut Prng, edited: bool| -> String {
        let mut toks = vec![rng.range(if edited { 100 } else { 0 }, if edited { 200 } else { 20 }).to_string()];
        for _ in 0..rng.range(0, 3) { if let Some(t) = extra(rng, chain[0], true) { toks.push(t); } }
        if edited { match rng.below(10) { 0 => toks.push("%".into()), 1 => toks.push("#".into()), _ => {} } }
        toks.join(" ")
    };
    for (i, &r) in chain.iter().enumerate() {
        if i == 0 {
            if leaf_is_asset { put_a(l, IDS[r], &format!("ok:{}", rng.below(50))); } else { let s = leaf_script(rng, false); put_s(l, IDS[r], &s); }
            continue;
        }
        let prev = chain[i - 1];
        let link = format!("{}{}:{}", if rng.chance(1, 4) { "=" } else { "+" }, if i == 1 && leaf_is_asset { "M20" } else { sty[prev] }, IDS[prev]);
        let mut toks = vec![rng.below(20).to_string()];
        let k = rng.range(0, 2);
        let at = rng.below(k + 1);
        for j in 0..=k {
            if j == at { toks.push(link.clone()); }
            if j < k {
                if i >= 2 && rng.chance(1, 4) { let e = chain[rng.below(i - 1)]; toks.push(format!("+{}:{}", if e == chain[0] && leaf_is_asset { "M20" } else { sty[e] }, IDS[e])); }
                else if let Some(t) = extra(rng, r, true) { toks.push(t); }
            }
        }
        put_s(l, IDS[r], &toks.join(" "));
    }
    // setup: the top of the chain (loads everything below it), a few direct loads, drain the registrations
    let top = chain[m - 1];
    let top_ty = if m == 1 && leaf_is_asset { "M20" } else { sty[top] };
    l.push(format!("load {top_ty} {}", hexs(IDS[top])));
    for _ in 0..rng.range(0, 2) {
        let r = rng.below(n);
        let t = if r == chain[0] && leaf_is_asset { "M20" } else { sty[r] };
        l.push(format!("load {t} {}", hexs(IDS[r])));
    }
    l.push("reload".into());
    l.push("dump".into());
    l.push("probe".into());
    let c1 = IDS[chain[0]];
    let ext = if leaf_is_asset { "a" } else { "s" };
    if leaf_is_asset {
        put_a(l, c1, &if rng.chance(1, 6) { "garbage".to_string() } else { format!("ok:{}", rng.range(100, 200)) });
    } else {
        let s = leaf_script(rng, true);
        put_s(l, c1, &s);
    }
    let ev = format!("f:{}:{}", hexs(c1), hexs(ext));
    l.push(if rng.chance(1, 4) { format!("notify {ev} f:{}:{} {ev}", hexs("unknown"), hexs("s")) } else { format!("notify {ev}") });
    l.push("reload".into());
}

/// Family `load`: the `cache` engine's random source (every token kind, failing and panicking scripts, assets with
/// several extensions and default values, directories), a few setup loads, one probed `load` / `owned`.
fn gen_load(rng: &mut Prng, l: &mut Vec<String>, hot_only: bool) {
    let fe = if hot_only { *rng.pick(&["shared", "any"]) } else { *rng.pick(&["shared", "any", "local", "localany"]) };
    let mode = if hot_only { "hot" } else { *rng.pick(&["hot", "hot", "nohot-ctor", "nohot-src"]) };
    l.push(format!("cfg {fe} {mode}"));
    l.push("family load".into());
    gen_source(rng, l, true, false);
    let (pt, pid) = match rng.below(10) {
        0 => (*rng.pick(&["D2", "R2", "R3"]), *rng.pick(&["", "d"])),
        1 => (*rng.pick(&["M31", "M20", "M41", "M30"]), *rng.pick(IDS)),
        _ => (*rng.pick(&["S0", "S1", "S2", "N0"]), *rng.pick(&IDS[..4])),
    };
    for _ in 0..rng.range(0, 3) {
        let t = *rng.pick(&["S0", "S1", "N0", "M20", "M31", "D2"]);
        let id = if t == "D2" { *rng.pick(&["", "d"]) } else { *rng.pick(IDS) };
        if (t, id) == (pt, pid) { continue; }
        l.push(format!("load {t} {}", hexs(id)));
    }
    if mode == "hot" && rng.chance(1, 2) { l.push("reload".into()); }
    l.push("probe".into());
    l.push(format!("{} {pt} {}", if rng.chance(1, 4) { "owned" } else { "load" }, hexs(pid)));
}

/// Family `small`: seeded slice of the enumeration {link token kind} x {content of the inner asset} on a
/// two-level world, probed with `load` and `owned` (every injection point of each).
fn gen_small(rng: &mut Prng, l: &mut Vec<String>, idx: usize) {
    const LINKS: &[&str] = &["+", "=", "!", "~", "&", "^", "?"];
    const INNER: &[&str] = &["2", "2 +M20:c", "2 r:c:a", "2 +M31:c", "%", "#", "2 +S1:c"];
    let code = (rng.below(LINKS.len() * INNER.len()) + idx / 10) % (LINKS.len() * INNER.len());
    let (link, inner) = (LINKS[code / INNER.len()], INNER[code % INNER.len()]);
    let mode = *rng.pick(&["hot", "hot", "nohot-ctor"]);
    l.push(format!("cfg {} {mode}", rng.pick(&["shared", "any", "local"])));
    l.push("family small".into());
    put_s(l, "a", &format!("1 {link}S1:b 4"));
    put_s(l, "b", inner);
    put_s(l, "c", "3");
    put_a(l, "c", "ok:5");
    if rng.chance(1, 3) { l.push(format!("load S1 {}", hexs("c"))); }
    l.push("probe".into());
    l.push(format!("{} S0 {}", if rng.chance(1, 3) { "owned" } else { "load" }, hexs("a")));
}

/// Family `recording`: a panic of an inner `no_record` load is contained by the outer loader (`^`), which then goes
/// on loading; every later (recorded) read must still be attributed to the outer asset.
fn gen_recording(rng: &mut Prng, l: &mut Vec<String>) {
    l.push(format!("cfg {} hot", rng.pick(&["shared", "any"])));
    l.push("family recording".into());
    let leaves = ["c", "d.x", "d.y", "e"];
    for lf in leaves { put_s(l, lf, &rng.below(50).to_string()); put_a(l, lf, &format!("ok:{}", rng.below(50))); }
    let variant = rng.below(4);
    let tok = |rng: &mut Prng, lf: &str| -> (String, &'static str) {
        match rng.below(5) { 0 => (format!("+M20:{lf}"), "a"), 1 => (format!("r:{lf}:a"), "a"), 2 => (format!("={}:{lf}", rng.pick(&["S1", "S2"])), "s"), 3 => (format!("!S1:{lf}"), "s"), _ => (format!("+{}:{lf}", rng.pick(&["S1", "S2"])), "s") }
    };
    let mut pool: Vec<&str> = leaves.to_vec();
    rng.shuffle(&mut pool);
    let n_pre = rng.range(0, 1);
    let n_post = rng.range(1, 2);
    let mut pre = vec![];
    let mut pre_invocations = 0;
    for lf in pool.iter().take(n_pre) { let (t, e) = tok(rng, lf); if e == "s" { pre_invocations += 1; } pre.push(t); }
    let mut post = vec![];
    for lf in pool.iter().skip(n_pre).take(n_post) { let (t, e) = tok(rng, lf); post.push((lf.to_string(), t, e)); }
    let post_toks: Vec<String> = post.iter().map(|p| p.1.clone()).collect();
    match variant {
        // the inner asset panics by itself / by an injected loader panic / loads normally (control) — inside `^`
        0 | 1 | 2 => {
            // (the inner asset never depends on an edited leaf: it is looked up unrecorded, so its reload would not be ordered before the outer one's)
            put_s(l, "b", match variant { 0 => "#", 1 => "3", _ => "4 5" });
            put_s(l, "a", &format!("1 {} ^S1:b {}", pre.join(" "), post_toks.join(" ")));
            if variant == 1 { l.push(format!("fault.load {} panic", 1 + pre_invocations)); }
            l.push(format!("load S0 {}", hexs("a")));
            if variant == 1 { l.push("fault.clear".into()); }
        }
        // the panic reaches the caller of `load`; the next asset loaded on the same thread must be recorded as usual
        _ => {
            put_s(l, "b", &format!("2 {}S1:c #", rng.pick(&["~", "+", "&"])));
            l.push(format!("load S2 {}", hexs("b")));
            put_s(l, "a", &format!("1 {}", post_toks.join(" ")));
            l.push(format!("load S0 {}", hexs("a")));
        }
    }
    l.push("reload".into());
    l.push("dump".into());
    for (lf, _t, ext) in &post {
        if *ext == "s" { put_s(l, lf, &rng.range(100, 200).to_string()); } else { put_a(l, lf, &format!("ok:{}", rng.range(100, 200))); }
        l.push(format!("recprobe S0 {}", hexs("a")));
        l.push(format!("notify f:{}:{}", hexs(lf), hexs(ext)));
        l.push("reload".into());
        l.push("dump".into());
    }
}

fn gen_malformed(rng: &mut Prng, l: &mut Vec<String>) {
    l.push(format!("cfg {} hot", rng.pick(&["shared", "local"])));
    l.push("family malformed".into());
    put_s(l, "a", "1 +S1:b");
    put_s(l, "b", "2");
    let junk = ["fault.read x NotFound", "fault.read", "fault.load 0 boom", "fault.load -1 panic", "fault.load 0", "fault.clear now", "reset 1", "load S9 61", "owned S0", "notify q:61", "probe-me", "recprobe"];
    for _ in 0..rng.range(2, 6) { l.push(rng.pick(&junk).to_string()); }
    // a fault beyond the reads of the operation is never consumed; a fault plan entry is consumed at most once
    l.push(format!("fault.read {} Other", rng.range(5, 9)));
    l.push(format!("load S0 {}", hexs("a")));
    l.push("fault.clear".into());
    l.push("dump".into());
}

// ------------------------------------------------------------------------------------------------ engine

impl Engine for FaultEngine {
    fn name(&self) -> &'static str { "fault" }

    fn gen_case(&mut self, rng: &mut Prng, _tier: Tier, idx: usize) -> Vec<String> {
        let mut l = vec![];
        match idx % 10 {
            0 => gen_small(rng, &mut l, idx),
            1 | 6 | 8 => gen_reload(rng, &mut l),
            2 | 7 => gen_load(rng, &mut l, false),
            3 => gen_load(rng, &mut l, true),
            4 | 9 => if idx % 40 == 39 { gen_malformed(rng, &mut l) } else { gen_recording(rng, &mut l) },
            _ => gen_reload(rng, &mut l),
        }
        l
    }

    fn exec_case(&mut self, lines: &[String], rec: &mut CaseRec) {
        let first = lines.first().map(|s| s.split_whitespace().collect::<Vec<_>>()).unwrap_or_default();
        if first.len() != 3 || first[0] != "cfg" { rec.op(lines.first().cloned().unwrap_or_default(), "bad-op"); return; }
        let (fe, mode) = (first[1].to_string(), first[2].to_string());
        let mut body: Vec<&String> = lines[1..].iter().collect();
        let mut family = "load".to_string();
        if let Some(f) = body.first().and_then(|l| l.strip_prefix("family ")) { family = f.trim().to_string(); body.remove(0); }
        rec.stat(format!("family={family}"));
        rec.stat(format!("cfg={fe}/{mode}"));
        match body.iter().position(|l| l.as_str() == "probe") {
            Some(p) => {
                let setup: Vec<String> = body[..p].iter().map(|s| s.to_string()).collect();
                let probe: Vec<String> = body[p + 1..].iter().map(|s| s.to_string()).collect();
                self.exec_scenario(&lines[0], &fe, &mode, &setup, &probe, rec);
            }
            None => self.exec_linear(&lines[0], &fe, &mode, &body, rec),
        }
    }
}

struct Fault { line: String, is_read: bool, k: usize, what: String }

impl FaultEngine {
    /// Families without a `probe` marker: the lines in order, with the `recprobe` directive.
    fn exec_linear(&mut self, cfg: &str, fe: &str, mode: &str, body: &[&String], rec: &mut CaseRec) {
        let mut wx = WorldExec::new(fe, mode);
        wx.wait_secs = WAIT_SECS;
        rec.op(cfg.to_string(), "ok");
        let mut pending: Option<(String, String, usize)> = None;
        for line in body {
            let w: Vec<&str> = line.split_whitespace().collect();
            if w.is_empty() { continue; }
            if w[0] == "recprobe" {
                if w.len() == 3 { let id = unhexs(w[2]); let rid = wx.rid_of(w[1], &id).unwrap_or(0); pending = Some((w[1].to_string(), id, rid)); continue; }
                rec.op(line.to_string(), "bad-op");
                continue;
            }
            if line.as_str() == "reset" { drop(wx); wx = WorldExec::new(fe, mode); wx.wait_secs = WAIT_SECS; rec.op("reset", "ok"); rec.op(cfg.to_string(), "ok"); continue; }
            let out = exec(&mut wx, line);
            rec.op(line.to_string(), out.clone());
            rec.stat(format!("op={}", w[0]));
            if w[0] == "load" || w[0] == "owned" { rec.nontrivial = true; rec.stat(format!("outcome={}", out.split_whitespace().next().unwrap_or(""))); }
            if (w[0] == "reload" || w[0] == "notify") && out != "ok" && out != "no-reloader" && out != "bad-op" {
                rec.oracle_fail(format!("hot-reload-stuck-after-fault `{line}` answered {out}"));
                return;
            }
            if w[0] == "dump" {
                if let Some((ty, id, rid0)) = pending.take() {
                    rec.stat("recording-probe");
                    // the outer asset read the edited file while it was being recorded: it must have been reloaded …
                    let now = wx.peek(&ty, &id).map(|p| p.0);
                    let rid1 = wx.rid_of(&ty, &id).unwrap_or(0);
                    let l2 = format!("owned {ty} {}", hexs(&id));
                    let fresh = exec(&mut wx, &l2);
                    rec.op(l2, fresh.clone());
                    match (now, fresh.strip_prefix("ok ")) {
                        (Some(cur), Some(fresh)) => {
                            if rid1 <= rid0 { rec.oracle_fail(format!("recording-not-restored {ty}:{id} was not reloaded (reload id {rid0} -> {rid1}) after the edit of a file it read after containing an inner panic; it holds {cur}, a fresh load gives {fresh}")); }
                            // … and hold what a fresh load gives
                            else if cur != fresh { rec.oracle_fail(format!("recording-not-restored {ty}:{id} holds {cur} after the reload, a fresh load gives {fresh}")); }
                        }
                        (None, _) => rec.stat("recording-probe-outer-not-cached"),
                        _ => rec.stat("recording-probe-fresh-load-fails"),
                    }
                }
            }
        }
    }

    fn world(&self, cfg: &str, fe: &str, mode: &str, setup: &[String], rec: &mut CaseRec, first_outs: Option<&Vec<String>>) -> (WorldExec, Vec<String>) {
        let mut wx = WorldExec::new(fe, mode);
        wx.wait_secs = WAIT_SECS;
        rec.op(cfg.to_string(), "ok");
        let mut outs = vec![];
        for (i, line) in setup.iter().enumerate() {
            let out = exec(&mut wx, line);
            rec.op(line.clone(), out.clone());
            if let Some(f) = first_outs { if f.get(i) != Some(&out) { rec.oracle_fail(format!("setup-not-reproducible `{line}` gave {out}, the first time {:?}", f.get(i))); } }
            outs.push(out);
        }
        (wx, outs)
    }

    fn exec_scenario(&mut self, cfg: &str, fe: &str, mode: &str, setup: &[String], probe: &[String], rec: &mut CaseRec) {
        let is_reload = probe.iter().any(|l| l == "reload" || l.starts_with("notify"));
        let probe_key: Option<(String, String, String)> = probe.iter().find_map(|l| {
            let w: Vec<&str> = l.split_whitespace().collect();
            if w.len() == 3 && (w[0] == "load" || w[0] == "owned") { Some((w[0].to_string(), w[1].to_string(), unhexs(w[2]))) } else { None }
        });
        // ------------------------------------------------------------------ clean run: count injection points
        let (mut wx, setup_outs) = self.world(cfg, fe, mode, setup, rec, None);
        let hot = wx.has_reloader;
        let (ios0, lf0) = (wx.src.lock().ios, loader_faults().0);
        loader_log().clear();
        LOG_LOADERS.store(true, Ordering::Relaxed);
        let mut clean_outs = vec![];
        for line in probe { let out = exec(&mut wx, line); rec.op(line.clone(), out.clone()); clean_outs.push(out); if wx.unspecified { break; } }
        LOG_LOADERS.store(false, Ordering::Relaxed);
        // the pass of this scenario is order-dependent (known findings F-C05d / F-C05e, unrecorded look-ups): neither values nor fault
        // positions are determined from here on
        if wx.unspecified { rec.stat(format!("truncated/{}", wx.unspecified_why)); return; }
        let (ios1, lf1) = (wx.src.lock().ios, loader_faults().0);
        let reads: Vec<String> = wx.src.lock().read_log.get(ios0..ios1).map(|s| s.to_vec()).unwrap_or_default();
        let invocations: Vec<(String, String, usize)> = loader_log().clone();
        if hot && !is_reload { let out = exec(&mut wx, "reload"); rec.op("reload", out); }
        let clean_dump = exec(&mut wx, "dump");
        rec.op("dump", clean_dump.clone());
        let clean_vals = dump_values(&clean_dump);
        if clean_outs.iter().any(|o| o == "sync-timeout") { rec.oracle_fail("hot-reload-stuck-after-fault the clean run of the scenario did not settle (no fault injected)".to_string()); return; }
        let (n_reads, n_loads) = (ios1 - ios0, lf1 - lf0);
        rec.stat(format!("reads-in-probe={}", if n_reads >= 8 { "8+".to_string() } else { n_reads.to_string() }));
        rec.stat(format!("checkpoints-in-probe={}", if n_loads >= 6 { "6+".to_string() } else { n_loads.to_string() }));
        rec.stat(format!("probe={}", if is_reload { "reload".to_string() } else { probe_key.as_ref().map(|k| k.0.clone()).unwrap_or_default() }));
        for o in &clean_outs { rec.stat(format!("clean-outcome={}", o.split_whitespace().next().unwrap_or(""))); }
        // which loader invocation performs read k (a script loader's own `id.s` read is the first thing after its checkpoint)
        let mut read_owner: Vec<Option<usize>> = vec![];
        let mut j = 0;
        for r in &reads {
            if r.starts_with("f:") && r.ends_with(".s") {
                let ok = invocations.get(j).map_or(false, |inv| *r == format!("f:{}.s", inv.1));
                read_owner.push(if ok { Some(j) } else { None });
                j += 1;
            } else { read_owner.push(None); }
        }
        let consistent_log = j == invocations.len() && invocations.len() == n_loads;
        // ------------------------------------------------------------------ the fault plan: every point, every kind
        let mut plan: Vec<Fault> = vec![];
        for k in 0..n_reads { for kind in KINDS { plan.push(Fault { line: format!("fault.read {k} {kind}"), is_read: true, k, what: kind.to_string() }); } }
        for k in 0..n_loads { for what in ["err", "panic"] { plan.push(Fault { line: format!("fault.load {k} {what}"), is_read: false, k, what: what.to_string() }); } }
        let wx_files: BTreeMap<String, Vec<u8>> = wx.src.lock().files.iter().filter_map(|((id, ext), st)| if ext == "s" { if let crate::types::FileSt::Bytes(b, _) = st { Some((id.clone(), b.to_vec())) } else { None } } else { None }).collect();
        drop(wx);
        // a reload pass over several independent assets reloads them in hash-set order, which changes from one cache instance to the
        // next: WHICH asset a fault index hits is then not determined, neither for the oracle nor for the model. Such scenarios are
        // run cleanly (above) but no fault is injected.
        if is_reload {
            let top: Vec<(String, String)> = invocations.iter().filter(|inv| inv.2 == 0).map(|inv| (inv.0.clone(), inv.1.clone())).collect();
            // the order is determined only when the reloaded assets form a chain of dependents (each later one reaches every earlier
            // one through recorded look-ups in the scripts)
            let files = wx_files.clone();
            let refs_of = |k: &(String, String)| -> Vec<(String, String)> { crate::exec_world::script_refs_of_kinds(files.get(&k.1).map(|b| &b[..]), "+=?!@").into_iter().collect() };
            let reaches = |from: &(String, String), to: &(String, String)| -> bool {
                let mut seen = std::collections::BTreeSet::new();
                let mut todo = vec![from.clone()];
                while let Some(x) = todo.pop() { if &x == to { return true; } if !seen.insert(x.clone()) { continue; } todo.extend(refs_of(&x)); }
                false
            };
            let chain = (0..top.len()).all(|j| (0..j).all(|i| reaches(&top[j], &top[i])));
            if !chain { rec.stat("reload-scenario-with-independent-assets(no-fault-injected:order-dependent)"); return; }
        }
        for f in &plan {
            rec.op("reset", "ok");
            let (mut wx, _) = self.world(cfg, fe, mode, setup, rec, Some(&setup_outs));
            rec.nontrivial = true;
            let before = snap(&wx);
            let d0 = exec(&mut wx, "dump");
            rec.op("dump", d0);
            let ios_before = wx.src.lock().ios;
            let lf_before = loader_faults().0;
            let o = exec(&mut wx, &f.line);
            rec.op(f.line.clone(), o);
            rec.stat(format!("fault={}", if f.is_read { format!("read/{}", f.what) } else { format!("loader/{}", f.what) }));
            let mut outs = vec![];
            let mut stuck = false;
            for line in probe {
                let out = exec(&mut wx, line);
                rec.op(line.clone(), out.clone());
                let op = line.split_whitespace().next().unwrap_or("");
                if (op == "reload" || op == "notify") && out != "ok" {
                    rec.oracle_fail(format!("hot-reload-stuck-after-fault `{}`: `{line}` answered {out} (the reloader thread is gone, or did not answer within {WAIT_SECS} s)", f.line));
                    stuck = true;
                    break;
                }
                outs.push(out);
                if wx.unspecified { break; }
            }
            if stuck { STUCK_SEEN.fetch_add(1, Ordering::Relaxed); return; }
            if wx.unspecified { rec.stat(format!("truncated/{}", wx.unspecified_why)); continue; }
            let consumed = if f.is_read { wx.src.lock().ios > ios_before + f.k } else { loader_faults().0 > lf_before + f.k };
            if !consumed { rec.stat("fault-not-reached"); }
            let after = snap(&wx);
            let d1 = exec(&mut wx, "dump");
            rec.op("dump", d1);
            // the asset whose own loader invocation was hit
            let hit: Option<&(String, String, usize)> = if !consistent_log { None } else if f.is_read { read_owner.get(f.k).copied().flatten().and_then(|j| invocations.get(j)) } else { invocations.get(f.k) };

            // ---------------------------------------------------------------- ORACLE (statement of C09)
            if let (Some((op, ty, id)), false) = (&probe_key, is_reload) {
                let out = outs.first().cloned().unwrap_or_default();
                let cls = out.split_whitespace().next().unwrap_or("").to_string();
                rec.stat(format!("faulted-outcome={cls}"));
                // (1) the call reports the error, or the panic reaches the caller, or the fault was tolerated and it succeeds
                if !matches!(cls.as_str(), "ok" | "err" | "panic") { rec.oracle_fail(format!("fault-not-reported `{}` then `{op} {ty} {id}` answered {out}", f.line)); }
                // a fault in the probed asset's OWN loader (first checkpoint, first read of a script asset) cannot be tolerated by anybody
                if f.k == 0 && is_script_type(ty) {
                    let want = if f.is_read { out.starts_with("err ") && out.contains(&format!("io:{}:", f.what)) } else if f.what == "panic" { out == "panic" } else { out.starts_with("err ") && out.ends_with("custom:injected") };
                    if !want { rec.oracle_fail(format!("fault-not-reported `{}` hit the loader of {ty}:{id} itself, `{op}` answered {out}", f.line)); }
                }
                // (2) every entry cached before is untouched (value, handle, reload id)
                for (k, v) in &before {
                    match after.get(k) {
                        Some(a) if a == v => {}
                        other => rec.oracle_fail(format!("fault-corrupted-cache `{}` then `{op} {ty} {id}` ({cls}): entry {}:{} was {:?}, is {:?}", f.line, k.0, k.1, v, other)),
                    }
                }
                // (3) no entry for the probed key appears unless the operation succeeded (and never for `owned`)
                let key = (ty.clone(), id.clone());
                if !before.contains_key(&key) && after.contains_key(&key) && (cls != "ok" || op == "owned") {
                    rec.oracle_fail(format!("fault-partial-value-visible `{}` then `{op} {ty} {id}` answered {out}, yet the cache now holds {:?} for that key", f.line, after.get(&key)));
                }
                if op == "load" && cls == "ok" {
                    match after.get(&key) { Some((v, _, _)) if out.ends_with(v.as_str()) => {} other => rec.oracle_fail(format!("fault-partial-value-visible `{}` then `{op} {ty} {id}` answered {out} but the cache holds {other:?}", f.line)) }
                }
                // (4) hot_reload still returns
                if hot {
                    let r = exec(&mut wx, "reload");
                    rec.op("reload", r.clone());
                    if r != "ok" { rec.oracle_fail(format!("hot-reload-stuck-after-fault `{}` then `{op} {ty} {id}` ({cls}): hot_reload answered {r}", f.line)); STUCK_SEEN.fetch_add(1, Ordering::Relaxed); return; }
                }
                // (5) repaired (the injected fault is gone): the same call gives the clean outcome
                let c = exec(&mut wx, "fault.clear");
                rec.op("fault.clear", c);
                let line = &probe[0];
                let retry = exec(&mut wx, line);
                rec.op(line.clone(), retry.clone());
                let clean = clean_outs.first().cloned().unwrap_or_default();
                // a loader that probes the cache (`?` get_cached, `@` get_or_insert) legitimately answers differently once the failed
                // attempt has cached what it probes: "same as a run without any fault" is owed only by scripts that do not probe
                let probes = wx.src.lock().files.iter().any(|((_, ext), st)| ext == "s" && match st { crate::types::FileSt::Bytes(b, _) => std::str::from_utf8(b).map_or(false, |t| t.split_whitespace().any(|tok| tok.starts_with('?') || tok.starts_with('@'))), _ => false });
                if probes { rec.stat("recovery-compared-with-the-model-only(cache-probing-script)"); }
                if cls != "ok" && !probes {
                    if strip_handle(&retry) != strip_handle(&clean) { rec.oracle_fail(format!("no-recovery-after-fault `{}` made `{line}` answer {out}; after the fault is gone it answers {retry}, without any fault {clean}", f.line)); }
                    rec.stat("recovery-checked");
                } else if strip_handle(&out) != strip_handle(&clean) { rec.stat("tolerated-fault-changed-value"); } else { rec.stat("tolerated-fault-same-value"); }
            } else if is_reload {
                // (2) entries cached before: same handle; rewritten at most once, and every rewrite is reported by the reload id
                for (k, v) in &before {
                    match after.get(k) {
                        None => rec.oracle_fail(format!("fault-corrupted-cache `{}` during a reload: entry {}:{} vanished", f.line, k.0, k.1)),
                        Some(a) => {
                            if a.1 != v.1 { rec.oracle_fail(format!("fault-corrupted-cache `{}` during a reload: entry {}:{} changed its handle", f.line, k.0, k.1)); }
                            if a.2 < v.2 || a.2 > v.2 + 1 { rec.oracle_fail(format!("fault-corrupted-cache `{}` during a reload: entry {}:{} reload id {} -> {}", f.line, k.0, k.1, v.2, a.2)); }
                            if a.2 == v.2 && a.0 != v.0 { rec.oracle_fail(format!("fault-corrupted-cache `{}` during a reload: entry {}:{} value {} -> {} with the reload id unchanged", f.line, k.0, k.1, v.0, a.0)); }
                        }
                    }
                }
                // the asset whose own reload was hit keeps its previous value (and is not reported as reloaded)
                // (scenarios whose pass reloads independent assets never get here: which asset a fault index hits would depend on the
                // hash-set order of that cache instance; for a chain of dependents the clean run's loader log tells it)
                if let Some((ty, id, 0)) = hit {
                    let key = (ty.clone(), id.clone());
                    if let (Some(b), Some(a)) = (before.get(&key), after.get(&key)) {
                        rec.stat("faulted-reload-target-identified");
                        if a != b { rec.oracle_fail(format!("fault-partial-value-visible `{}` hit the reload of {ty}:{id} itself: it held {}@{}, now {}@{}", f.line, b.0, b.2, a.0, a.2)); }
                    }
                }
                // (5) repaired: the same notification again, then everything is as if no fault had happened
                let c = exec(&mut wx, "fault.clear");
                rec.op("fault.clear", c);
                for line in probe {
                    let op = line.split_whitespace().next().unwrap_or("");
                    if op != "notify" && op != "reload" { continue; }
                    let out = exec(&mut wx, line);
                    rec.op(line.clone(), out.clone());
                    if out != "ok" { rec.oracle_fail(format!("hot-reload-stuck-after-fault `{}`: afterwards `{line}` answered {out}", f.line)); STUCK_SEEN.fetch_add(1, Ordering::Relaxed); return; }
                }
                let d2 = exec(&mut wx, "dump");
                rec.op("dump", d2.clone());
                let vals = dump_values(&d2);
                // Recovery is owed when the fault made a reload FAIL: the asset keeps its dependencies (plus what the failed attempt read),
                // so the same notification reloads it again. When some loader tolerated the fault (`=`, default value, `catch_unwind`,
                // next extension) the pass succeeded with a legitimately degraded value and nothing says it must be redone: a loader
                // that failed at its very start has read nothing the reloader could watch.
                // root = the directly reloaded asset during whose reload the fault struck
                let inv_at = if f.is_read { reads[..=f.k.min(reads.len().saturating_sub(1))].iter().filter(|r| r.starts_with("f:") && r.ends_with(".s")).count().checked_sub(1) } else { Some(f.k) };
                let root = if !consistent_log { None } else { inv_at.and_then(|j| invocations[..=j.min(invocations.len().saturating_sub(1))].iter().rev().find(|inv| inv.2 == 0 && before.contains_key(&(inv.0.clone(), inv.1.clone())))) };
                let mut root: Option<(String, String)> = root.map(|inv| (inv.0.clone(), inv.1.clone()));
                // a read before any script loader ran in this pass: the direct reload of a plain asset `M..:id` reading `id.ext`
                if root.is_none() && f.is_read && inv_at.is_none() {
                    if let Some((id, _ext)) = reads.get(f.k).and_then(|r| r.strip_prefix("f:")).and_then(|r| r.rsplit_once('.')) {
                        let cands: Vec<&(String, String)> = before.keys().filter(|k| k.1 == id && k.0.starts_with('M')).collect();
                        if cands.len() == 1 { root = Some(cands[0].clone()); }
                    }
                }
                if !consistent_log { rec.stat("loader-log-inconsistent"); }
                let root_failed = root.as_ref().map_or(false, |key| before.get(key).map(|b| b.2) == after.get(key).map(|a| a.2));
                // entries created during the faulted pass by a loader that tolerated the fault legitimately stay as they are
                let degraded = after.iter().any(|(k, v)| !before.contains_key(k) && clean_vals.get(&format!("{}/{}", k.0, hexs(&k.1))) != Some(&v.0));
                if !root_failed { rec.stat(if root.is_some() { "recovery-not-owed-fault-tolerated" } else { "recovery-not-owed-root-unknown" }); }
                else if degraded { rec.stat("recovery-not-owed-tolerated-fresh-entry"); }
                else {
                    rec.stat("recovery-checked");
                    if vals != clean_vals {
                        let diff: Vec<String> = clean_vals.iter().filter(|(k, v)| vals.get(*k) != Some(*v)).map(|(k, v)| format!("{k}: {:?} instead of {v}", vals.get(k))).chain(vals.keys().filter(|k| !clean_vals.contains_key(*k)).map(|k| format!("{k}: unexpected"))).collect();
                        rec.oracle_fail(format!("no-recovery-after-fault `{}` during a reload; after clearing it and notifying again: {}", f.line, diff.join("; ")));
                    }
                }
            }
            if STUCK_SEEN.load(Ordering::Relaxed) > 3 && rec.oracle.iter().any(|o| o.starts_with("hot-reload-stuck")) { return; }
        }
    }
}
