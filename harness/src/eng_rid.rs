//! Engine `rid` (C18): `ReloadId::update`, `AtomicReloadId::{update,fetch_max,swap,store,load}`
//! through the public API (+ the raw accessors of the verif hook), sequentially (bounded
//! exhaustive + random) and from concurrent free-running threads.

use crate::common::*;
use assets_manager::{AtomicReloadId, ReloadId};
use std::sync::{atomic::{AtomicUsize, Ordering}, Arc};

#[derive(Default)]
pub struct RidEngine;

const VALS: &[usize] = &[0, 1, 2, 3, 7, 1 << 31, 1 << 63, usize::MAX - 1, usize::MAX];

fn rid(n: usize) -> ReloadId { ReloadId::verif_from_raw(n) }

impl Engine for RidEngine {
    fn name(&self) -> &'static str { "rid" }

    fn gen_case(&mut self, rng: &mut Prng, tier: Tier, idx: usize) -> Vec<String> {
        let mut l = vec![];
        match idx {
            0 => {
                // all pairs (stored, offered) for the plain id
                l.push("rid.never".to_string());
                for &a in VALS { for &b in VALS { l.push(format!("rid.set {a}")); l.push(format!("rid.update {b}")); } }
            }
            1 => {
                // all pairs for every atomic op
                for op in ["update", "fetch_max", "swap", "store"] {
                    for &a in VALS { for &b in VALS { l.push(format!("at.with {a}")); l.push(format!("at.{op} {b}")); l.push("at.load".into()); } }
                }
                l.push("at.new".into());
                l.push("at.load".into());
            }
            2 => {
                // all update sequences of length 3 over 4 values
                let v = [0usize, 1, 2, 3];
                for &a in &v { for &b in &v { for &c in &v {
                    l.push("at.new".into());
                    for x in [a, b, c] { l.push(format!("at.update {x}")); }
                    l.push("rid.set 0".into());
                    for x in [a, b, c] { l.push(format!("rid.update {x}")); }
                } } }
            }
            _ if idx % 2 == 1 => {
                // concurrent free-running updates
                let k = rng.range(2, if tier == Tier::Thorough { 6 } else { 5 });
                let pool: Vec<usize> = if rng.chance(1, 2) { vec![1, 2, 3] } else { VALS.to_vec() };
                let init = *rng.pick(&pool);
                let vs: Vec<String> = (0..k).map(|_| rng.pick(&pool).to_string()).collect();
                let reps = if tier == Tier::Thorough { 20000 } else { 3000 };
                l.push(format!("at.conc-run {reps} {init} {}", vs.join(" ")));
            }
            _ => {
                let n = rng.range(5, 40);
                for _ in 0..n {
                    let v = if rng.chance(2, 3) { rng.below(6) } else { *rng.pick(VALS) };
                    let op = *rng.pick(&["rid.set", "rid.update", "rid.update", "at.with", "at.update", "at.update", "at.fetch_max", "at.swap", "at.store", "at.load", "at.new"]);
                    if op == "at.load" || op == "at.new" { l.push(op.to_string()) } else { l.push(format!("{op} {v}")) }
                }
            }
        }
        l
    }

    fn exec_case(&mut self, lines: &[String], rec: &mut CaseRec) {
        let mut id = ReloadId::NEVER;
        let mut at = AtomicReloadId::new();
        // reference state of the oracle
        let mut o_id: usize = 0;
        let mut o_at: usize = 0;
        rec.nontrivial = true;
        for line in lines {
            let w: Vec<&str> = line.split_whitespace().collect();
            let arg = |i: usize| -> usize { w[i].parse().expect("numeric argument") };
            match w[0] {
                "rid.never" => rec.op(line.clone(), ReloadId::NEVER.verif_raw().to_string()),
                "rid.set" => { id = rid(arg(1)); o_id = arg(1); rec.op(line.clone(), "ok") }
                "rid.update" => {
                    let n = arg(1);
                    let told = id.update(rid(n));
                    rec.op(line.clone(), format!("{told} {}", id.verif_raw()));
                    rec.stat(if told { "rid.update/true" } else { "rid.update/false" });
                    let exp_told = n > o_id; o_id = o_id.max(n);
                    if told != exp_told || id.verif_raw() != o_id { rec.oracle_fail(format!("rid-update-not-max ReloadId::update({n}): told={told} stored={} expected told={exp_told} stored={o_id}", id.verif_raw())); }
                    if ReloadId::NEVER > id { rec.oracle_fail("never-not-least NEVER is not the least id".to_string()); }
                }
                "at.new" => { at = AtomicReloadId::new(); o_at = 0; rec.op(line.clone(), at.load().verif_raw().to_string()) }
                "at.with" => { at = AtomicReloadId::with_value(rid(arg(1))); o_at = arg(1); rec.op(line.clone(), at.load().verif_raw().to_string()) }
                "at.update" => {
                    let n = arg(1);
                    let told = at.update(rid(n));
                    rec.op(line.clone(), format!("{told} {}", at.load().verif_raw()));
                    rec.stat(if told { "at.update/true" } else { "at.update/false" });
                    let exp = n > o_at; o_at = o_at.max(n);
                    if told != exp || at.load().verif_raw() != o_at { rec.oracle_fail(format!("atomic-update-not-max AtomicReloadId::update({n}): told={told} stored={} expected told={exp} stored={o_at}", at.load().verif_raw())); }
                }
                "at.fetch_max" => {
                    let n = arg(1);
                    let p = at.fetch_max(rid(n)).verif_raw();
                    rec.op(line.clone(), format!("{p} {}", at.load().verif_raw()));
                    rec.stat("at.fetch_max");
                    if p != o_at || at.load().verif_raw() != o_at.max(n) { rec.oracle_fail(format!("atomic-op-wrong fetch_max({n}) prev={p} now={} expected prev={o_at} now={}", at.load().verif_raw(), o_at.max(n))); }
                    o_at = o_at.max(n);
                }
                "at.swap" => {
                    let n = arg(1);
                    let p = at.swap(rid(n)).verif_raw();
                    rec.op(line.clone(), format!("{p} {}", at.load().verif_raw()));
                    rec.stat("at.swap");
                    if p != o_at || at.load().verif_raw() != n { rec.oracle_fail(format!("atomic-op-wrong swap({n}) prev={p} now={}", at.load().verif_raw())); }
                    o_at = n;
                }
                "at.store" => {
                    let n = arg(1);
                    at.store(rid(n));
                    rec.op(line.clone(), format!("- {}", at.load().verif_raw()));
                    rec.stat("at.store");
                    if at.load().verif_raw() != n { rec.oracle_fail(format!("atomic-op-wrong store({n}) now={}", at.load().verif_raw())); }
                    o_at = n;
                }
                "at.load" => { let v = at.load().verif_raw(); rec.op(line.clone(), format!("{v} {v}")); if v != o_at { rec.oracle_fail(format!("atomic-op-wrong load={v} expected {o_at}")); } }
                "at.conc-run" => {
                    // at.conc-run <reps> <init> <v1> .. <vk>: k pooled threads, `reps` rounds, every round
                    // released by a spin barrier so that the update() calls really overlap.
                    let reps = arg(1);
                    let init = arg(2);
                    let offered: Vec<usize> = (3..w.len()).map(arg).collect();
                    let k = offered.len();
                    let cell = Arc::new(AtomicReloadId::with_value(rid(init)));
                    let gen = Arc::new(AtomicUsize::new(0));      // round number published by the coordinator
                    let done = Arc::new(AtomicUsize::new(0));     // threads finished with the current round
                    let told_bits = Arc::new(AtomicUsize::new(0));
                    let hs: Vec<_> = offered.iter().enumerate().map(|(t, &v)| {
                        let (cell, gen, done, told_bits) = (cell.clone(), gen.clone(), done.clone(), told_bits.clone());
                        std::thread::spawn(move || {
                            for round in 1..=reps {
                                while gen.load(Ordering::Acquire) != round { std::hint::spin_loop(); }
                                if cell.update(rid(v)) { told_bits.fetch_or(1 << t, Ordering::AcqRel); }
                                done.fetch_add(1, Ordering::AcqRel);
                            }
                        })
                    }).collect();
                    let mut outcomes: std::collections::BTreeMap<(usize, usize), usize> = Default::default();
                    for round in 1..=reps {
                        cell.store(rid(init));
                        told_bits.store(0, Ordering::Release);
                        done.store(0, Ordering::Release);
                        gen.store(round, Ordering::Release);
                        while done.load(Ordering::Acquire) != k { std::hint::spin_loop(); }
                        *outcomes.entry((cell.load().verif_raw(), told_bits.load(Ordering::Acquire))).or_insert(0) += 1;
                    }
                    for h in hs { h.join().unwrap(); }
                    let mx = offered.iter().copied().fold(init, usize::max);
                    rec.stat(format!("at.conc/threads={k}"));
                    rec.stat(format!("at.conc/distinct-outcomes={}", outcomes.len().min(9)));
                    for ((fin, bits), _count) in outcomes {
                        let told: Vec<bool> = (0..k).map(|t| bits >> t & 1 == 1).collect();
                        let obs: Vec<String> = offered.iter().zip(&told).map(|(v, t)| format!("{v} {t}")).collect();
                        rec.op(format!("at.conc {init} {fin} {}", obs.join(" ")), "lin-ok");
                        // oracle straight from the statement
                        if fin != mx { rec.oracle_fail(format!("conc-final-not-max concurrent updates {offered:?} from {init}: final {fin} is not the maximum {mx}")); }
                        let mut trues: Vec<usize> = offered.iter().zip(&told).filter(|(_, t)| **t).map(|(v, _)| *v).collect();
                        trues.sort();
                        if trues.windows(2).any(|p| p[0] == p[1]) { rec.oracle_fail(format!("conc-growth-told-twice one growth reported to two callers: init {init} offered {offered:?} told {told:?}")); }
                        if trues.iter().any(|&v| v <= init) { rec.oracle_fail(format!("conc-told-without-growth init {init} offered {offered:?} told {told:?}")); }
                        if mx > init && !trues.contains(&mx) { rec.oracle_fail(format!("conc-growth-lost growth to {mx} reported to nobody: init {init} offered {offered:?} told {told:?}")); }
                    }
                }
                other => panic!("rid engine: unknown op {other}"),
            }
        }
    }
}
