//! Engine `load` (C03): every assignment of {absent, unreadable, undecodable, ok} to the declared
//! extensions of every asset type `M<e,d>`, contents of all shapes delivered as every `FileContent`
//! variant, then repair and retry; compounds wrapping the failing asset.
//! Oracle: the statement of C03 computed directly from the status vector.

use crate::common::*;
use crate::exec_world::*;
use crate::types::EXT_TABLE;

#[derive(Default)]
pub struct LoadEngine;

const KINDS: &[&str] = &["PermissionDenied", "InvalidData", "Interrupted", "UnexpectedEof", "Other", "NotFound"];

fn bad_content(rng: &mut Prng) -> Vec<u8> {
    match rng.below(8) {
        0 => vec![],
        1 => b" ok:5".to_vec(),
        2 => b"ok:5\n".to_vec(),
        3 => vec![0xff, 0xfe, 0x6f, 0x6b],
        4 => vec![0xef, 0xbb, 0xbf, b'o', b'k', b':', b'1'],
        5 => b"ok:".to_vec(),
        6 => b"ok:12x".to_vec(),
        _ => { let n = rng.range(1, 4000); (0..n).map(|_| rng.below(256) as u8).collect() }
    }
}

/// One block: set up `id` for type M<e,d> with the status vector, load, look, repair, retry.
fn block(l: &mut Vec<String>, rng: &mut Prng, id: &str, e: usize, d: usize, status: &[usize]) {
    let h = hexs(id);
    let exts = EXT_TABLE[e];
    for (k, ext) in exts.iter().enumerate() {
        match status[k] {
            0 => {}
            1 => l.push(format!("src.bad {h} {} {}", hexs(ext), rng.pick(KINDS))),
            2 => l.push(format!("src.put {h} {} {} {}", hexs(ext), hex(&bad_content(rng)), rng.below(3))),
            _ => l.push(format!("src.put {h} {} {} {}", hexs(ext), hexs(&format!("ok:{}", rng.below(2000) as i64 - 1000)), rng.below(3))),
        }
    }
    let t = format!("M{e}{d}");
    l.push(format!("status {t} {h} {}", if status.is_empty() { "-".to_string() } else { status.iter().map(|s| s.to_string()).collect::<Vec<_>>().join(",") }));
    l.push(format!("load {t} {h}"));
    l.push(format!("contains {t} {h}"));
    l.push(format!("cached {t} {h}"));
    // repair the first extension (if any) and retry
    if let Some(ext) = exts.first() {
        l.push(format!("src.put {h} {} {} {}", hexs(ext), hexs("ok:4242"), rng.below(3)));
        l.push(format!("status {t} {h} repaired"));
        l.push(format!("load {t} {h}"));
    }
}

impl Engine for LoadEngine {
    fn name(&self) -> &'static str { "load" }

    fn gen_case(&mut self, rng: &mut Prng, tier: Tier, idx: usize) -> Vec<String> {
        let mut l = vec![];
        let fe = *rng.pick(&["shared", "any", "local", "localany"]);
        let mode = *rng.pick(&["hot", "nohot-ctor", "nohot-src"]);
        l.push(format!("cfg {fe} {mode}"));
        if idx < 12 {
            // exhaustive: type (e, d) = idx, every status vector
            let (e, d) = (idx / 2, idx % 2);
            let n = EXT_TABLE[e].len();
            let total = 4usize.pow(n as u32);
            for code in 0..total {
                let status: Vec<usize> = (0..n).map(|k| code / 4usize.pow(k as u32) % 4).collect();
                block(&mut l, rng, &format!("x{code}"), e, d, &status);
            }
            return l;
        }
        match idx % 3 {
            0 => {
                // random blocks with odd ids
                let mut used_root = false;
                for k in 0..rng.range(3, 10) {
                    let e = rng.below(6);
                    let n = EXT_TABLE[e].len();
                    let status: Vec<usize> = (0..n).map(|_| rng.below(4)).collect();
                    let id = match rng.below(6) { 0 if !used_root => { used_root = true; "".to_string() } 1 => format!("dir.sub.f{k}"), 2 => format!("é{k}"), 3 => format!("a b{k}"), _ => format!("y{k}") };
                    let d = rng.below(2);
                    block(&mut l, rng, &id, e, d, &status);
                }
            }
            1 => {
                // compounds over failing / succeeding assets: the error is wrapped with the compound's id
                for k in 0..rng.range(2, 6) {
                    let e = rng.range(2, 5);
                    let n = EXT_TABLE[e].len();
                    let status: Vec<usize> = (0..n).map(|_| rng.below(4)).collect();
                    let leaf = format!("leaf{k}");
                    for (j, ext) in EXT_TABLE[e].iter().enumerate() {
                        match status[j] {
                            0 => {}
                            1 => l.push(format!("src.bad {} {} {}", hexs(&leaf), hexs(ext), rng.pick(KINDS))),
                            2 => l.push(format!("src.put {} {} {} 0", hexs(&leaf), hexs(ext), hex(&bad_content(rng)))),
                            _ => l.push(format!("src.put {} {} {} {}", hexs(&leaf), hexs(ext), hexs(&format!("ok:{}", rng.below(50))), rng.below(3))),
                        }
                    }
                    let d = rng.below(2);
                    let depth = rng.range(1, if tier == Tier::Thorough { 4 } else { 3 });
                    let mut target = format!("M{e}{d}:{leaf}");
                    // the innermost compound may carry the SAME id as the asset it forwards (another type, so another key): the
                    // error is wrapped once per level all the same (seeded change C03-g dropped the wrapper when the ids coincide)
                    let same_id = rng.chance(1, 2);
                    for lvl in 0..depth {
                        let cid = if lvl == 0 && same_id { leaf.clone() } else { format!("c{k}l{lvl}") };
                        l.push(format!("src.put {} {} {} 0", hexs(&cid), hexs("s"), hexs(&format!("{} +{target}", lvl + 1))));
                        target = format!("S{}:{cid}", lvl % 3);
                    }
                    let (ty, top) = target.split_once(':').unwrap();
                    l.push(format!("load {ty} {}", hexs(top)));
                    l.push(format!("contains {ty} {}", hexs(top)));
                    l.push(format!("contains M{e}{d} {}", hexs(&leaf)));
                    l.push(format!("owned {ty} {}", hexs(top)));
                }
            }
            _ => {
                // source-read faults at every index of a multi-extension load
                let e = 4;
                let id = "f";
                for (j, ext) in EXT_TABLE[e].iter().enumerate() {
                    if rng.chance(2, 3) { l.push(format!("src.put {} {} {} {}", hexs(id), hexs(ext), hexs(&format!("ok:{j}")), rng.below(3))); }
                }
                for k in 0..3 {
                    l.push(format!("fault.read {k} {}", rng.pick(KINDS)));
                    l.push(format!("load M{e}{} {}", rng.below(2), hexs(id)));
                    l.push("fault.clear".into());
                    l.push(format!("remove M{e}0 {}", hexs(id)));
                    l.push(format!("remove M{e}1 {}", hexs(id)));
                }
                l.push(format!("load M{e}0 {}", hexs(id)));
            }
        }
        l
    }

    fn exec_case(&mut self, lines: &[String], rec: &mut CaseRec) {
        let first = lines.first().map(|s| s.split_whitespace().collect::<Vec<_>>()).unwrap_or_default();
        if first.len() != 3 || first[0] != "cfg" { rec.op(lines.first().cloned().unwrap_or_default(), "bad-op"); return; }
        let mut wx = WorldExec::new(first[1], first[2]);
        rec.op(lines[0].clone(), "ok");
        let mut pending: Option<(String, String, String)> = None; // (type, id, status)
        let mut bad_kinds: std::collections::BTreeMap<(String, String), String> = Default::default();
        let mut scripts: std::collections::BTreeMap<String, String> = Default::default();
        let mut faults_seen = false;
        for line in &lines[1..] {
            let w: Vec<&str> = line.split_whitespace().collect();
            if w[0] == "status" && w.len() == 4 { pending = Some((w[1].to_string(), unhexs(w[2]), w[3].to_string())); continue; }
            if w[0] == "src.bad" && w.len() == 4 { bad_kinds.insert((unhexs(w[1]), unhexs(w[2])), w[3].to_string()); }
            if w[0] == "src.put" && w.len() >= 4 { bad_kinds.remove(&(unhexs(w[1]), unhexs(w[2]))); }
            if w[0] == "src.put" && w.len() >= 4 && unhexs(w[2]) == "s" { scripts.insert(unhexs(w[1]), unhexs(w[3])); }
            if w[0].starts_with("fault.") || w[0] == "src.bad" && w.len() == 4 && unhexs(w[2]) == "s" { faults_seen = true; }
            let out = wx.op(line);
            rec.op(line.clone(), out.clone());
            rec.nontrivial = true;
            // A compound's failure is the error its load function returned, wrapped with the compound's own id — once per level,
            // whatever the ids are. For chains of forwarding scripts (`<n> +T:X`: the only thing that can fail is that load, and
            // its error is handed on unchanged) the expected prefix follows from the statement alone.
            if (w[0] == "load" || w[0] == "owned") && w.len() == 3 && w[1].starts_with('S') && out.starts_with("err ") && !faults_seen {
                let (mut ty, mut id) = (w[1].to_string(), unhexs(w[2]));
                let mut prefix = String::from("err ");
                let mut levels = 0;
                loop {
                    prefix.push_str(&format!("in:{}/", hexs(&id)));
                    levels += 1;
                    if !ty.starts_with('S') || levels > 8 { break; }
                    let toks: Vec<String> = scripts.get(&id).map(|s| s.split_whitespace().map(|x| x.to_string()).collect()).unwrap_or_default();
                    if toks.len() == 2 && toks[0].parse::<i64>().is_ok() && toks[1].starts_with('+') {
                        if let Some((t2, i2)) = toks[1][1..].split_once(':') { ty = t2.to_string(); id = i2.to_string(); continue; }
                    }
                    levels = 0; break;   // not a pure forwarding chain: no expectation
                }
                if levels > 0 && !ty.starts_with('S') {
                    rec.stat(format!("load/forwarded-error-levels={levels}"));
                    let rest = out.get(prefix.len()..).unwrap_or("");
                    if !out.starts_with(&prefix) || rest.starts_with("in:") {
                        rec.oracle_fail(format!("compound-error-not-wrapped-per-level `{line}` -> {out}, expected {prefix}<reason of the leaf>"));
                    }
                }
            }
            match (w[0], &pending) {
                ("load", Some((t, id, status))) if w[1] == t && unhexs(w[2]) == *id => {
                    let e: usize = t[1..2].parse().unwrap();
                    let d = &t[2..3] == "1";
                    let exts = EXT_TABLE[e];
                    let wrapped = format!("err in:{}/", hexs(id));
                    if status == "repaired" {
                        // already cached (then same as before) or now loads the repaired first extension
                        if !(out.starts_with("ok ")) { rec.oracle_fail(format!("no-recovery-after-repair `{line}` -> {out}")); }
                        rec.stat("load/after-repair");
                    } else {
                        let st: Vec<usize> = status.split(',').filter(|s| !s.is_empty() && *s != "-").map(|s| s.parse().unwrap()).collect();
                        let first_ok = st.iter().position(|s| *s == 3);
                        // an unreadable file whose error kind is NotFound counts as not found
                        let real_io = exts.iter().enumerate().any(|(k, x)| st[k] == 1 && bad_kinds.get(&(id.clone(), x.to_string())).map_or(false, |kd| kd != "NotFound"));
                        let cls = if st.contains(&2) { "conv" } else if real_io { "io" } else if !st.is_empty() { "notfound" } else { "nodefault" };
                        rec.stat(format!("load/status-class={}", if first_ok.is_some() { "ok" } else { cls }));
                        match first_ok {
                            Some(k) if st[..k].iter().all(|s| *s != 3) => {
                                let want_ext = hexs(exts[k]);
                                // value read from exactly the k-th extension
                                let ok = out.starts_with("ok ") && out.split(':').nth(2) == Some(want_ext.as_str());
                                if !ok { rec.oracle_fail(format!("wrong-extension-won `{line}` status {st:?} -> {out}, expected extension {}", exts[k])); }
                            }
                            _ => {
                                if d {
                                    if !out.starts_with("ok ") || !out.contains(" m:-1:") { rec.oracle_fail(format!("default-not-consulted `{line}` status {st:?} -> {out}")); }
                                    // the default saw an error of the right class
                                    let seen = out.split(':').nth(2).map(unhexs).unwrap_or_default();
                                    let good = match cls { "conv" => seen.starts_with("conv:"), "io" => seen.starts_with("io:") && !seen.starts_with("io:NotFound"), "notfound" => seen.starts_with("io:NotFound"), _ => seen == "nodefault" };
                                    if !good { rec.oracle_fail(format!("wrong-error-class `{line}` status {st:?}: default_value saw {seen}")); }
                                } else {
                                    if !out.starts_with(&wrapped) { rec.oracle_fail(format!("error-does-not-name-id `{line}` -> {out}")); }
                                    let reason = out[wrapped.len().min(out.len())..].to_string();
                                    let good = match cls { "conv" => reason.starts_with("conv:"), "io" => reason.starts_with("io:") && !reason.starts_with("io:NotFound"), "notfound" => reason.starts_with("io:NotFound"), _ => reason == "nodefault" };
                                    if !good { rec.oracle_fail(format!("wrong-error-class `{line}` status {st:?} -> {out}")); }
                                    if wx.contains(t, id) { rec.oracle_fail(format!("failed-load-cached `{line}`")); }
                                }
                            }
                        }
                    }
                    pending = None;
                }
                _ => {}
            }
        }
    }
}
