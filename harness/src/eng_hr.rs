//! Engine `hr` (C05, C06, C10, C14): hot-reloading histories over the in-memory source.
//!
//! Script-asset DAGs (diamonds, chains, fan-in, rewiring, break / repair, directory assets), edits with
//! and without notification, noise notifications, batches with duplicates, local and static mode,
//! `remove` / `take` / `clear` / `get_or_insert` on the same keys. After every quiescence barrier
//! the value and reload id of every cached entry is observed (`dump`), watchers and the global flag are
//! polled. Oracles are written from the statements (see each `oracle_*`).

use crate::common::*;
use crate::eng_cache::IDS;
use crate::exec_world::*;
use assets_manager::AssetCache;
use std::collections::{BTreeMap, BTreeSet};

#[derive(Default)]
pub struct HrEngine;

const HOT_S: &[&str] = &["S0", "S1", "S2"];

/// A script for the asset at `rank` loading only higher-ranked ids (acyclic loads AND look-ups).
/// Precision family: no unrecorded look-ups (`~`, `&`): with them the values depend on the (unspecified) order in which
/// independent assets are reloaded within one pass, and the model cannot be compared value by value.
fn dag_script(rng: &mut Prng, rank: usize, allow_err: bool) -> String { dag_script_m(rng, rank, allow_err, 1) }
fn dag_script_k(rng: &mut Prng, rank: usize, allow_err: bool, recorded_only: bool) -> String { dag_script_m(rng, rank, allow_err, if recorded_only { 2 } else { 0 }) }

/// `recorded_only`: only look-ups that hot-reloading tracks (`+ = ! r`, directories), so that "fresh load == cached value" is owed.
fn dag_script_m(rng: &mut Prng, rank: usize, allow_err: bool, mode: usize) -> String {
    let mut toks = vec![rng.below(20).to_string()];
    let higher: Vec<&str> = IDS.iter().skip(rank + 1).copied().collect();
    for _ in 0..rng.range(0, 3) {
        if higher.is_empty() { break; }
        let tgt = *rng.pick(&higher);
        let t = *rng.pick(&["S0", "S1", "S0", "M20", "M31", "N0"]);
        let r = rng.below(16);
        let r = if (mode >= 1 && matches!(r, 11 | 12)) || (mode >= 2 && matches!(r, 8 | 9)) { 0 } else { r };
        toks.push(match r {
            0..=6 => format!("+{t}:{tgt}"),
            7 => format!("={t}:{tgt}"),
            8..=9 => format!("?{t}:{tgt}"),
            10 => format!("!{t}:{tgt}"),
            11 => format!("~{t}:{tgt}"),
            12 => format!("&{t}:{tgt}"),
            13 => format!("r:{tgt}:a"),
            14 if allow_err => "%".to_string(),
            _ => format!("+D2:{}", if tgt.contains('.') { "d" } else { "" }),
        });
    }
    toks.join(" ")
}

fn ev_file(id: &str, ext: &str) -> String { format!("f:{}:{}", hexs(id), hexs(ext)) }
fn ev_dir(id: &str) -> String { format!("d:{}", hexs(id)) }
fn parent(id: &str) -> String { crate::types::parent_id(id).unwrap_or("").to_string() }
/// events for every ancestor directory of `id` (a creation may create intermediate directories too)
fn ev_ancestors(id: &str) -> Vec<String> {
    let mut v = vec![];
    let mut cur = crate::types::parent_id(id);
    while let Some(c) = cur { v.push(ev_dir(c)); cur = crate::types::parent_id(c); }
    v
}

impl Engine for HrEngine {
    fn name(&self) -> &'static str { "hr" }

    fn gen_case(&mut self, rng: &mut Prng, tier: Tier, idx: usize) -> Vec<String> {
        let mut l = vec![];
        let fe = *rng.pick(&["shared", "any"]);
        match idx % 8 {
            // ---------------------------------------------------------------- C14: single-edit attribution probes
            0 => {
                l.push(format!("cfg {fe} hot"));
                l.push("family attribution".into());
                // leaves: plain numbers; the probe asset `a` uses one token of each kind on distinct leaves
                let kinds = ["+", "=", "?", "!", "~", "&", "^"];
                let leaves = ["b", "c", "d.x", "d.y", "e"];
                let mut script = vec!["1".to_string()];
                let mut plan = vec![];
                // sometimes a contained loader panic inside no_record comes first: recording must resume after it
                if rng.chance(1, 2) {
                    l.push(format!("src.put {} {} {} 0", hexs("boom"), hexs("s"), hexs("#")));
                    script.push("^S1:boom".to_string());
                }
                for leaf in leaves.iter() {
                    let k = *rng.pick(&kinds);
                    let t = *rng.pick(&["S1", "S2", "M20"]);
                    l.push(format!("src.put {} {} {} 0", hexs(leaf), hexs("s"), hexs(&rng.below(50).to_string())));
                    l.push(format!("src.put {} {} {} 0", hexs(leaf), hexs("a"), hexs(&format!("ok:{}", rng.below(50)))));
                    script.push(format!("{k}{t}:{leaf}"));
                    plan.push(format!("{k}{t}:{leaf}"));
                }
                // raw read of a file no asset type uses (an event must not reach `a` and an unrecorded dependency of `a` at once:
                // their relative reload order is unspecified)
                let raw = rng.chance(1, 2);
                if raw { l.push(format!("src.put {} {} {} 0", hexs("e"), hexs("r"), hexs("xyz"))); script.push("r:e:r".into()); plan.push("r:e:r".into()); }
                l.push(format!("src.put {} {} {} 0", hexs("a"), hexs("s"), hexs(&script.join(" "))));
                // some leaves are also loaded directly (so that they are cached and registered themselves)
                for leaf in leaves.iter() { if rng.chance(1, 2) { l.push(format!("load {} {}", rng.pick(&["S1", "S2", "M20"]), hexs(leaf))); } }
                l.push(format!("load S0 {}", hexs("a")));
                // leaves looked up while absent become cached (and registered) only now
                for tok in plan.iter() {
                    if let Some((t, leaf)) = tok[1..].split_once(':') { if tok.starts_with('?') && rng.chance(2, 3) { l.push(format!("load {t} {}", hexs(leaf))); } }
                }
                l.push(format!("plan {}", plan.join(",")));
                l.push("reload".into());
                l.push("dump".into());
                // second round: `a` is rewired (some look-ups dropped); what it no longer reads must no longer reload it
                let rounds = if rng.chance(1, 2) { 2 } else { 1 };
                for round in 0..rounds {
                if round == 1 {
                    let mut keep: Vec<String> = plan.iter().filter(|_| rng.chance(1, 2)).cloned().collect();
                    // half of the time every dropped look-up is REPLACED by a look-up of another (already cached) asset, so that `a`
                    // reads as many entries as before or more: what it no longer reads must no longer reload it all the same
                    // (seeded change C06-i cleaned the reverse edges only when the number of dependencies shrank)
                    if rng.chance(1, 2) {
                        for j in 0..(plan.len() - keep.len()) {
                            let nid = format!("n{j}");
                            l.push(format!("src.put {} {} {} 0", hexs(&nid), hexs("s"), hexs(&rng.below(50).to_string())));
                            l.push(format!("load S1 {}", hexs(&nid)));
                            keep.push(format!("+S1:{nid}"));
                        }
                    }
                    let mut sc = vec!["1".to_string()];
                    sc.extend(keep.iter().cloned());
                    l.push(format!("src.put {} {} {} 0", hexs("a"), hexs("s"), hexs(&sc.join(" "))));
                    l.push(format!("notify {}", ev_file("a", "s")));
                    l.push("reload".into());
                    l.push(format!("plan {}", keep.join(",")));
                    l.push("dump".into());
                }
                // edit + notify exactly one file at a time
                for leaf in leaves.iter() {
                    for ext in ["s", "a", "r"] {
                        if ext == "r" && !(raw && *leaf == "e") { continue; }
                        let content = if ext == "s" { rng.range(100, 200).to_string() } else if ext == "r" { "x".repeat(rng.range(4, 9)) } else { format!("ok:{}", rng.range(100, 200)) };
                        l.push(format!("src.put {} {} {} 0", hexs(leaf), hexs(ext), hexs(&content)));
                        l.push(format!("probe {} {}", hexs(leaf), hexs(ext)));
                        l.push(format!("notify {}", ev_file(leaf, ext)));
                        l.push("reload".into());
                        l.push("dump".into());
                    }
                }
                }
            }
            // ---------------------------------------------------------------- C10: non-reloadable things
            1 => {
                let mode = *rng.pick(&["hot", "hot", "nohot-ctor", "nohot-src", "nohot-cfgfail"]);
                // C10 quantifies over all constructors: a quarter of the cases run on a LocalAssetCache (never has a reloader)
                let fe = if rng.chance(1, 4) { *rng.pick(&["local", "localany"]) } else { fe };
                l.push(format!("cfg {fe} {mode}"));
                l.push("family nonreloadable".into());
                for id in ["a", "b", "c"] {
                    l.push(format!("src.put {} {} {} 0", hexs(id), hexs("s"), hexs(&rng.below(50).to_string())));
                    l.push(format!("src.put {} {} {} 0", hexs(id), hexs("a"), hexs(&format!("ok:{}", rng.below(50)))));
                }
                for _ in 0..rng.range(6, if tier == Tier::Thorough { 40 } else { 18 }) {
                    let id = *rng.pick(&["a", "b", "c"]);
                    let h = hexs(id);
                    let t = *rng.pick(&["S0", "N0", "M20", "I", "AN", "AS"]);
                    let lt = if t == "I" { "S0" } else { t };
                    let next = match rng.below(14) {
                        0..=2 => format!("load {lt} {h}"),
                        3..=5 => format!("goi {t} {h} {}", rng.range(500, 900)),
                        6 => format!("remove {t} {h}"),
                        7 => format!("take {t} {h}"),
                        8 => "clear".into(),
                        _ => {
                            let ext = if lt == "M20" { "a" } else { "s" };
                            let content = if ext == "s" { rng.range(100, 200).to_string() } else { format!("ok:{}", rng.range(100, 200)) };
                            l.push(format!("src.put {h} {} {} 0", hexs(ext), hexs(&content)));
                            l.push(format!("notify {}", ev_file(id, ext)));
                            "reload".into()
                        }
                    };
                    l.push(next);
                    if rng.chance(1, 3) { l.push("dump".into()); }
                }
                l.push("reload".into());
                l.push("dump".into());
            }
            // ---------------------------------------------------------------- C06: precision, watchers, noise
            2 => {
                l.push(format!("cfg {fe} hot"));
                l.push("family precision".into());
                for (rank, id) in IDS.iter().enumerate() {
                    l.push(format!("src.put {} {} {} 0", hexs(id), hexs("s"), hexs(&dag_script(rng, rank, false))));
                    l.push(format!("src.put {} {} {} 0", hexs(id), hexs("a"), hexs(&format!("ok:{}", rng.below(50)))));
                }
                for id in IDS.iter().take(4) { l.push(format!("load {} {}", rng.pick(HOT_S), hexs(id))); }
                for (k, id) in IDS.iter().take(3).enumerate() { l.push(format!("rw.new w{k} S0 {}", hexs(id))); l.push(format!("rw.new v{k} S1 {}", hexs(id))); }
                l.push("dump".into());
                for _ in 0..rng.range(4, 10) {
                    match rng.below(6) {
                        0 => { l.push("reload".into()); }                                                 // nothing notified
                        1 => { let id = *rng.pick(IDS); l.push(format!("src.put {} {} {} 0", hexs(id), hexs("s"), hexs(&rng.range(100, 200).to_string()))); l.push("reload".into()); } // edit never notified
                        2 => { l.push(format!("notify {} {}", ev_file("unknown", "s"), ev_dir("nowhere"))); l.push("reload".into()); }   // noise
                        _ => {
                            let id = *rng.pick(IDS);
                            l.push(format!("src.put {} {} {} 0", hexs(id), hexs("s"), hexs(&dag_script(rng, IDS.iter().position(|x| x == &id).unwrap(), false))));
                            let e = ev_file(id, "s");
                            l.push(if rng.chance(1, 2) { format!("notify {e}") } else { format!("notify {e} {} {e}", ev_file("unknown", "a")) });  // single or batched with duplicate + noise
                            l.push("reload".into());
                        }
                    }
                    l.push("dump".into());
                    for k in 0..3 { if rng.chance(1, 2) { l.push(format!("rw.poll w{k}")); } if rng.chance(1, 3) { l.push(format!("rw.poll v{k}")); } }
                    if rng.chance(1, 2) { let id = *rng.pick(&IDS[..4]); l.push(format!("global S0 {}", hexs(id))); }
                    // a watcher created LATE (after reloads): it starts from the asset's current reload id, so its first poll is `false`
                    if rng.chance(1, 3) { let k = rng.below(3); let id = IDS[k]; l.push(format!("rw.new late{k} S0 {}", hexs(id))); l.push(format!("rw.poll late{k}")); }
                }
            }
            // ---------------------------------------------------------------- C05: event sent right before hot_reload
            3 => {
                l.push(format!("cfg {fe} hot"));
                l.push("family barrier".into());
                l.push(format!("src.put {} {} {} 0", hexs("a"), hexs("s"), hexs("0")));
                l.push(format!("load S0 {}", hexs("a")));
                l.push("reload".into());
                for k in 1..=(if tier == Tier::Thorough { 400 } else { 60 }) {
                    l.push(format!("src.put {} {} {} 0", hexs("a"), hexs("s"), hexs(&k.to_string())));
                    l.push(format!("notify-nosync {}", ev_file("a", "s")));
                    l.push("reload-now".into());
                    l.push(format!("fresh S0 {}", hexs("a")));
                }
            }
            // ---------------------------------------------------------------- C05: an asset first loaded DURING a pass (known finding F-C05d)
            6 => {
                let n = if tier == Tier::Thorough { 60 } else { 24 };
                match (idx / 8) % 4 { 0 => l.push(format!("newdep {n}")), 1 => l.push(format!("rewire {n}")), 2 => l.push("cross 2".to_string()), _ => l.push("order 12".to_string()) }
            }
            // ---------------------------------------------------------------- C05: convergence over random DAGs
            _ => {
                let static_mode = idx % 8 == 7;
                l.push(format!("cfg {fe} hot"));
                l.push(format!("family converge{}", if static_mode { "-static" } else { "" }));
                for (rank, id) in IDS.iter().enumerate() {
                    if rng.chance(7, 8) { l.push(format!("src.put {} {} {} 0", hexs(id), hexs("s"), hexs(&dag_script_k(rng, rank, true, true)))); }
                    if rng.chance(3, 4) { l.push(format!("src.put {} {} {} 0", hexs(id), hexs("a"), hexs(&format!("ok:{}", rng.below(50))))); }
                    if rng.chance(1, 4) { l.push(format!("src.put {} {} {} 0", hexs(id), hexs("b"), hexs(&format!("ok:{}", rng.below(50))))); }
                }
                for _ in 0..rng.range(2, 5) {
                    let t = *rng.pick(&["S0", "S1", "M31", "D2", "R3", "S0"]);
                    let id = if t.starts_with('D') || t.starts_with('R') { *rng.pick(&["", "d"]) } else { *rng.pick(IDS) };
                    l.push(format!("load {t} {}", hexs(id)));
                }
                if static_mode {
                    // half of the time the switch to static mode finds a notified change that was not applied yet
                    if rng.chance(1, 2) {
                        let id = *rng.pick(IDS);
                        let rank = IDS.iter().position(|x| x == &id).unwrap();
                        l.push(format!("src.put {} {} {} 0", hexs(id), hexs("s"), hexs(&dag_script_k(rng, rank, true, true))));
                        l.push(format!("src.put {} {} {} 0", hexs(id), hexs("a"), hexs(&format!("ok:{}", rng.range(50, 99)))));
                        // the files may be new: their directories are notified as well (a creation changes the listing)
                        let mut evs = vec![ev_file(id, "s"), ev_file(id, "a")];
                        evs.extend(ev_ancestors(id));
                        l.push(format!("notify {}", evs.join(" ")));
                    }
                    l.push("enhance".into());
                }
                l.push("dump".into());
                let steps = rng.range(3, if tier == Tier::Thorough { 14 } else { 8 });
                for _ in 0..steps {
                    // one or two edits, all notified (file + parent directory for creations / deletions)
                    let mut evs = vec![];
                    for _ in 0..rng.range(1, 2) {
                        let id = *rng.pick(IDS);
                        let rank = IDS.iter().position(|x| x == &id).unwrap();
                        match rng.below(9) {
                            0..=3 => { l.push(format!("src.put {} {} {} 0", hexs(id), hexs("s"), hexs(&dag_script_k(rng, rank, true, true)))); evs.push(ev_file(id, "s")); evs.extend(ev_ancestors(id)); }
                            4 => { let ext = *rng.pick(&["a", "b"]); l.push(format!("src.put {} {} {} {}", hexs(id), hexs(ext), hexs(&format!("ok:{}", rng.below(50))), rng.below(3))); evs.push(ev_file(id, ext)); evs.extend(ev_ancestors(id)); }
                            5 => { let ext = *rng.pick(&["a", "b", "s"]); l.push(format!("src.rm {} {}", hexs(id), hexs(ext))); evs.push(ev_file(id, ext)); evs.push(ev_dir(&parent(id))); }
                            6 => { l.push(format!("src.put {} {} {} 0", hexs(id), hexs("a"), hexs("broken"))); evs.push(ev_file(id, "a")); evs.extend(ev_ancestors(id)); }
                            7 => { l.push(format!("src.bad {} {} PermissionDenied", hexs(id), hexs("s"))); evs.push(ev_file(id, "s")); evs.extend(ev_ancestors(id)); }
                            _ => { let nid = format!("d.n{}", rng.below(3)); l.push(format!("src.put {} {} {} 0", hexs(&nid), hexs("a"), hexs(&format!("ok:{}", rng.below(50))))); evs.push(ev_file(&nid, "a")); evs.extend(ev_ancestors(&nid)); }
                        }
                    }
                    if rng.chance(1, 3) { rng.shuffle(&mut evs); }
                    if rng.chance(1, 2) { l.push(format!("notify {}", evs.join(" "))); } else { for e in &evs { l.push(format!("notify {e}")); } }
                    if !static_mode || rng.chance(1, 3) { l.push("reload".into()); }
                    l.push("dump".into());
                    l.push("freshall".into());
                    if rng.chance(1, 4) { let t = *rng.pick(&["S0", "S1", "M31"]); let lid = *rng.pick(IDS); l.push(format!("load {t} {}", hexs(lid))); }
                }
            }
        }
        l
    }

    fn exec_case(&mut self, lines: &[String], rec: &mut CaseRec) {
        if let Some(n) = lines.first().and_then(|l| l.strip_prefix("newdep ")).and_then(|n| n.parse::<usize>().ok()) {
            newdep_probe(n, rec);
            return;
        }
        if let Some(n) = lines.first().and_then(|l| l.strip_prefix("order ")).and_then(|n| n.parse::<usize>().ok()) {
            order_probe(n, rec);
            return;
        }
        if let Some(n) = lines.first().and_then(|l| l.strip_prefix("cross ")).and_then(|n| n.parse::<usize>().ok()) {
            cross_probe(n, rec);
            return;
        }
        if let Some(n) = lines.first().and_then(|l| l.strip_prefix("rewire ")).and_then(|n| n.parse::<usize>().ok()) {
            rewire_probe(n, rec);
            return;
        }
        let first = lines.first().map(|s| s.split_whitespace().collect::<Vec<_>>()).unwrap_or_default();
        if first.len() != 3 || first[0] != "cfg" { rec.op(lines.first().cloned().unwrap_or_default(), "bad-op"); return; }
        let mut wx = WorldExec::new(first[1], first[2]);
        rec.op(lines[0].clone(), "ok");
        let mut family = String::new();
        // ---- oracle state
        let mut last_dump: BTreeMap<String, (String, usize)> = BTreeMap::new();      // "T/idhex" -> (value, rid)
        let mut notified_since_reload = false;
        let mut only_noise_since_reload = true;
        let mut goi_created: BTreeMap<(String, String), String> = BTreeMap::new();   // key -> value at creation
        let mut watch_last: BTreeMap<String, (String, usize)> = BTreeMap::new();     // watcher -> (key, rid at last poll)
        let mut global_last: BTreeMap<String, usize> = BTreeMap::new();              // key -> rid at last global poll
        let mut plan: Vec<String> = vec![];
        let mut probe: Option<(String, String)> = None;
        let mut known_ids: BTreeSet<String> = IDS.iter().map(|s| s.to_string()).collect();
        let parse_dump = |out: &str| -> BTreeMap<String, (String, usize)> {
            out.split_whitespace().skip(1).filter_map(|p| { let (k, rest) = p.split_once('=')?; let (v, r) = rest.rsplit_once('@')?; Some((k.to_string(), (v.to_string(), r.parse().ok()?))) }).collect()
        };
        for line in &lines[1..] {
            let w: Vec<&str> = line.split_whitespace().collect();
            match w[0] {
                "family" => { family = w[1].to_string(); rec.stat(format!("family={family}")); continue; }
                "plan" => { plan = w.get(1).map(|p| p.split(',').map(|s| s.to_string()).collect()).unwrap_or_default(); continue; }
                "probe" => { probe = Some((unhexs(w[1]), unhexs(w[2]))); continue; }
                "freshall" => {
                    // C05: after the barrier every cached reloadable asset equals a fresh load (load_owned), if that load succeeds
                    let snap = wx.snapshot();
                    for ((ty, id), (val, _)) in snap {
                        if ty == "N0" || ty == "I" || goi_created.contains_key(&(ty.clone(), id.clone())) { continue; }
                        let l2 = format!("owned {ty} {}", hexs(&id));
                        let out = wx.op(&l2);
                        rec.op(l2, out.clone());
                        if let Some(fresh) = out.strip_prefix("ok ") {
                            if fresh != val { rec.oracle_fail(format!("stale-after-hot-reload {ty}:{id} holds {val} but a fresh load gives {fresh}")); }
                        }
                    }
                    continue;
                }
                "fresh" => {
                    let (ty, id) = (w[1], unhexs(w[2]));
                    let cur = wx.peek(ty, &id).map(|p| p.0);
                    let l2 = format!("owned {ty} {}", w[2]);
                    let out = wx.op(&l2);
                    rec.op(l2, out.clone());
                    if let (Some(fresh), Some(cur)) = (out.strip_prefix("ok "), cur) {
                        if fresh != cur { rec.oracle_fail(format!("event-before-hot-reload-missed {ty}:{id} holds {cur} after hot_reload returned, the source says {fresh} (event sent before the call)")); }
                    }
                    continue;
                }
                _ => {}
            }
            let (model_line, exec_line) = match w[0] { "notify-nosync" => (line.replacen("notify-nosync", "notify", 1), line.clone()), "reload-now" => ("reload".to_string(), line.clone()), _ => (line.clone(), line.clone()) };
            let out = match w[0] {
                "notify-nosync" => { if let Some(tx) = wx.src.sender() { let e = &w[1]; let p: Vec<&str> = e.split(':').collect(); let _ = tx.send(assets_manager::source::OwnedDirEntry::File(unhexs(p[1]).into(), unhexs(p[2]).into())); } "ok".to_string() }
                "reload-now" => wx.reload_call(),
                _ => wx.op(&exec_line),
            };
            rec.op(model_line, out.clone());
            rec.nontrivial = true;
            rec.stat(format!("op={}", w[0]));
            if wx.unspecified { rec.stat(format!("truncated/{}", wx.unspecified_why)); break; }
            match w[0] {
                "notify" => {
                    notified_since_reload = true;
                    for e in &w[1..] { let p: Vec<&str> = e.split(':').collect(); if p.len() >= 2 && known_ids.contains(&unhexs(p[1])) { only_noise_since_reload = false; } if p[0] == "d" { only_noise_since_reload = false; } }
                    if out == "sync-timeout" { rec.oracle_fail("sync-timeout the reloader thread did not become quiescent".to_string()); }
                }
                "src.put" | "src.bad" | "src.rm" => { known_ids.insert(unhexs(w[1])); }
                "goi" => {
                    let key = (w[1].to_string(), unhexs(w[2]));
                    // created by this call iff it was absent: the returned value is then the offered one
                    let offered = w[3];
                    let created = out.split_whitespace().nth(1).map_or(false, |v| v == format!("v:{offered}") || v.starts_with(&format!("m:{offered}:")));
                    if created && !last_present(&wx, &goi_created, &key) { goi_created.insert(key, out.split_whitespace().nth(1).unwrap_or("").to_string()); }
                }
                "remove" | "take" => { goi_created.remove(&(w[1].to_string(), unhexs(w[2]))); watch_last.clear(); }
                "clear" => { goi_created.clear(); watch_last.clear(); global_last.clear(); }
                "reload" | "reload-now" | "enhance" => { if out == "sync-timeout" { rec.oracle_fail("sync-timeout hot_reload did not settle".to_string()); } }
                "rw.new" => { if out == "ok" { let key = format!("{}/{}", w[2], w[3]); let rid = wx.rid_of(w[2], &unhexs(w[3])).unwrap_or(0); watch_last.insert(w[1].to_string(), (key, rid)); } }
                "rw.poll" => {
                    if let Some((key, last)) = watch_last.get(w[1]).cloned() {
                        let (ty, idh) = key.split_once('/').unwrap();
                        let now = wx.rid_of(ty, &unhexs(idh)).unwrap_or(0);
                        // C06: true exactly when at least one rewrite happened since it was last asked
                        if out != (now > last).to_string() { rec.oracle_fail(format!("watcher-wrong {} said {out}, reload id went {last} -> {now}", w[1])); }
                        watch_last.insert(w[1].to_string(), (key, now.max(last)));
                    }
                }
                "global" => {
                    let key = format!("{}/{}", w[1], w[2]);
                    let now = wx.rid_of(w[1], &unhexs(w[2])).unwrap_or(0);
                    let last = global_last.get(&key).copied().unwrap_or(0);
                    if out == "true" || out == "false" { if out != (now > last).to_string() { rec.oracle_fail(format!("reloaded-global-wrong {key} said {out}, reload id went {last} -> {now}")); } }
                    global_last.insert(key, now);
                }
                "dump" => {
                    let cur = parse_dump(&out);
                    for (k, (v, rid)) in &cur {
                        if let Some((ov, orid)) = last_dump.get(k) {
                            // C06: the reload id never decreases, grows by at most one per pass, and a changed value is always reported
                            let no_removal = family != "nonreloadable";
                            if rid < orid && no_removal { rec.oracle_fail(format!("reload-id-decreased {k}: {orid} -> {rid}")); }
                            if *rid > orid + 1 && (family == "precision" || family == "attribution") { rec.oracle_fail(format!("reloaded-twice-in-a-pass {k}: reload id {orid} -> {rid} in one pass")); }
                            if v != ov && rid == orid && no_removal { rec.oracle_fail(format!("rewrite-not-reported {k}: value {ov} -> {v} with reload id unchanged ({rid})")); }
                            // C06: never re-reads on its own / noise never rewrites
                            if rid > orid && (!notified_since_reload || only_noise_since_reload) && family == "precision" { rec.oracle_fail(format!("rewritten-without-notification {k}: reload id {orid} -> {rid}")); }
                        }
                        // C10: what is declared non-reloadable is never rewritten
                        let (ty, idh) = k.split_once('/').unwrap();
                        let key = (ty.to_string(), unhexs(idh));
                        let never = ty == "N0" || ty == "AN" || ty == "I" || !wx.has_reloader;   // AN = Arc<N0>: Arc of an opted-out type
                        if never && *rid != 0 { rec.oracle_fail(format!("non-reloadable-rewritten {k} has reload id {rid}")); }
                        if let Some(v0) = goi_created.get(&key) { if v != v0 || *rid != 0 { rec.oracle_fail(format!("get-or-insert-rewritten {k} was stored as {v0} by get_or_insert and is now {v}@{rid}")); } }
                    }
                    // C14: single-edit attribution
                    if let (Some((leaf, ext)), "attribution") = (&probe, family.as_str()) {
                        let a_key = format!("S0/{}", hexs("a"));
                        let moved = match (last_dump.get(&a_key), cur.get(&a_key)) { (Some((_, o)), Some((_, n))) => n > o, _ => false };
                        // does `a`'s own load touch this file, directly or through an asset it depends on?
                        let mut expect = false;
                        for tok in &plan {
                            let (kind, rest) = tok.split_at(1);
                            if kind == "r" { if let Some(r) = rest.strip_prefix(':') { let mut it = r.split(':'); if it.next() == Some(leaf) && it.next() == Some(ext) { expect = true; } } continue; }
                            let Some((t, target)) = rest.split_once(':') else { continue };
                            if target != leaf { continue; }
                            let file_of_type = if t.starts_with('M') { "a" } else { "s" };
                            if ext != file_of_type { continue; }
                            let recorded = matches!(kind, "+" | "=" | "?" | "!");
                            if !recorded { continue; }
                            // `?` of an entry that is not cached reads nothing: `a` follows it only once somebody loaded it
                            if kind == "?" && !cur.contains_key(&format!("{t}/{}", hexs(leaf))) { continue; }
                            expect = true;
                        }
                        if moved != expect { rec.oracle_fail(format!("wrong-attribution editing {leaf}.{ext}: asset `a` ({}) {} reloaded, expected {}", plan.join(" "), if moved { "was" } else { "was not" }, if expect { "a reload" } else { "no reload" })); }
                        probe = None;
                    }
                    last_dump = cur;
                    notified_since_reload = false;
                    only_noise_since_reload = true;
                }
                _ => {}
            }
        }
    }
}

fn last_present(_wx: &WorldExec, goi: &BTreeMap<(String, String), String>, key: &(String, String)) -> bool { goi.contains_key(key) }

/// Known finding F-C05d. In one pass two files change: `b.s` (its new script loads `c`, which was never cached) and
/// `e.s`; `c` loads `e`. The pass was sorted before `c` existed, so whether `b` (and with it the fresh `c`) or `e` is
/// reloaded first is the arbitrary iteration order of a hash set: in one order `c` is built from the stale `e` and nothing
/// reloads it afterwards. Everything was notified, yet after `hot_reload` returns the cached `c` differs from a fresh load.
/// The same ordering question for an asset that is ALREADY cached: in one pass `b.s` changes (its new script starts to
/// load the cached `e`) and `e.s` changes. The graph has no edge e -> b when the pass is sorted.
fn rewire_probe(trials: usize, rec: &mut CaseRec) {
    let mut stale = 0usize;
    for t in 0..trials {
        let mut wx = WorldExec::new("shared", "hot");
        for (id, sc) in [("b", "1"), ("e", "10")] { wx.op(&format!("src.put {} {} {} 0", hexs(id), hexs("s"), hexs(sc))); }
        wx.op(&format!("load S0 {}", hexs("b")));
        wx.op(&format!("load S0 {}", hexs("e")));
        wx.op(&format!("src.put {} {} {} 0", hexs("b"), hexs("s"), hexs("2 +S0:e")));
        wx.op(&format!("src.put {} {} {} 0", hexs("e"), hexs("s"), hexs(&format!("{}", 20 + t))));
        wx.op(&format!("notify f:{}:{} f:{}:{}", hexs("b"), hexs("s"), hexs("e"), hexs("s")));
        wx.op("reload");
        let cached = wx.peek("S0", "b").map(|p| p.0);
        let fresh = wx.op(&format!("owned S0 {}", hexs("b")));
        if let (Some(c), Some(f)) = (cached, fresh.strip_prefix("ok ")) { if c != f { stale += 1; } }
    }
    rec.nontrivial = true;
    rec.stat("family=rewire");
    rec.stat(format!("rewire/stale-trials={}", if stale == 0 { "0" } else { ">0" }));
    if stale > 0 { rec.oracle_fail(format!("stale-asset-newly-depending-on-changed-asset in {stale} of {trials} trials: S0:b (rewired to load the cached S0:e) was rebuilt from the stale S0:e and not reloaded again, although b.s and e.s were both notified before hot_reload")); }
    rec.op(format!("hr.rewire {trials}"), "observed");
}

/// the second cache of `cross_probe` (a loader cannot be handed one: it is a global)
static SECOND: std::sync::Mutex<Option<&'static AssetCache<crate::types::MemSource>>> = std::sync::Mutex::new(None);
/// A compound of cache A that reads one asset of its own cache and ONE through a second, independent hot-reloaded cache B
/// (that load fails and the failure is tolerated).
pub struct X2(pub i64);
impl assets_manager::Compound for X2 {
    fn load(cache: assets_manager::AnyCache, id: &assets_manager::SharedString) -> Result<Self, assets_manager::BoxedError> {
        let own = cache.load::<crate::types::S<0>>(&format!("{id}_own"))?.read().0;
        let second = *SECOND.lock().unwrap_or_else(|e| e.into_inner());
        let other = second.and_then(|c| c.load::<crate::types::S<1>>("skin").ok().map(|h| h.read().0)).unwrap_or(-1);
        Ok(X2(own * 1000 + other))
    }
}

/// C14 "and only to it": what a load does through ANOTHER cache is not a dependency of the asset being loaded in this one.
/// `orc` (cache A) loads `orc_own` from A and tries `skin` through cache B, where it does not exist. A's source also has a
/// file `skin.s`, which nothing in A ever read: editing it must not reload `orc`; editing `orc_own.s` must.
fn cross_probe(rounds: usize, rec: &mut CaseRec) {
    let mut bad: Vec<String> = vec![];
    for r in 0..rounds {
        let b_src = crate::types::MemSource::new(true);
        let b: &'static AssetCache<crate::types::MemSource> = Box::leak(Box::new(AssetCache::with_source(b_src.clone())));
        *SECOND.lock().unwrap_or_else(|e| e.into_inner()) = Some(b);
        let mut wx = WorldExec::new("shared", "hot");
        wx.op(&format!("src.put {} {} {} 0", hexs("orc_own"), hexs("s"), hexs("1")));
        wx.op(&format!("src.put {} {} {} 0", hexs("skin"), hexs("s"), hexs("7")));
        let Fe::Shared(a) = &wx.fe else { unreachable!() };
        let a: &AssetCache<crate::types::MemSource> = unsafe { &*(&**a as *const AssetCache<crate::types::MemSource>) };
        let h = match a.load::<X2>("orc") { Ok(h) => h, Err(e) => { bad.push(format!("probe-broken load of orc failed: {e}")); break } };
        if h.read().0 != 1000 - 1 { bad.push(format!("probe-broken orc = {}", h.read().0)); }
        // the same-named file in A, which A never read
        wx.op(&format!("src.put {} {} {} 0", hexs("skin"), hexs("s"), hexs(&format!("{}", 8 + r))));
        wx.op(&format!("notify f:{}:{}", hexs("skin"), hexs("s")));
        wx.op("reload");
        let rid1 = h.last_reload_id().verif_raw();
        if rid1 != 0 { bad.push(format!("wrong-attribution editing skin.s of cache A, which `orc` never read (it tried `skin` through a second cache): `orc` was reloaded (reload id {rid1})")); }
        // control: its own dependency
        wx.op(&format!("src.put {} {} {} 0", hexs("orc_own"), hexs("s"), hexs("2")));
        wx.op(&format!("notify f:{}:{}", hexs("orc_own"), hexs("s")));
        wx.op("reload");
        let rid2 = h.last_reload_id().verif_raw();
        if rid2 != rid1 + 1 || h.read().0 != 2000 - 1 { bad.push(format!("wrong-attribution editing orc_own.s: `orc` has reload id {rid1} -> {rid2}, value {}", h.read().0)); }
        *SECOND.lock().unwrap_or_else(|e| e.into_inner()) = None;
        drop(wx);
    }
    rec.nontrivial = true;
    rec.stat("family=cross-cache");
    for m in &bad { rec.oracle_fail(m.clone()); }
    rec.op(format!("hr.cross {rounds}"), if bad.is_empty() { "isolated" } else { "leaked" });
}

/// C14 / C05: the registration of a load (AddAsset message) is taken before an event that arrives after it, whatever woke the
/// reloader: an asset loaded just before one of its files is edited follows that edit. The reloader is held (yield hook) after
/// an unrelated event woke it; meanwhile `n` is loaded and edited, so its AddAsset and the event about `n.s` are both pending.
fn order_probe(trials: usize, rec: &mut CaseRec) {
    let mut lost = 0usize;
    for t in 0..trials {
        let mut wx = WorldExec::new("shared", "hot");
        wx.op(&format!("src.put {} {} {} 0", hexs("a"), hexs("s"), hexs("1")));
        wx.op(&format!("src.put {} {} {} 0", hexs("n"), hexs("s"), hexs("5")));
        wx.op(&format!("load S0 {}", hexs("a")));
        let Some(tx) = wx.src.sender() else { break };
        // `Select::ready` picks among ready channels with a per-thread generator that starts from a fixed seed: vary how often
        // this reloader thread has selected before the decisive moment, so that the trials do not all take the same branch
        for j in 0..(t % 8) { let _ = tx.send(assets_manager::source::OwnedDirEntry::File(format!("warm{j}").into(), "s".into())); wx.sync(); }
        crate::exec_world::stall(true);
        let _ = tx.send(assets_manager::source::OwnedDirEntry::File("noise".into(), "s".into()));   // wakes the thread with "events ready"
        std::thread::sleep(std::time::Duration::from_millis(3));
        // (directly on the cache: `WorldExec::op` would wait for the reloader to be quiescent)
        if let Fe::Shared(c) = &wx.fe { let _ = c.load::<crate::types::S<0>>("n"); }                  // AddAsset pending
        wx.src.put("n", "s", crate::types::FileSt::Bytes(format!("{}", 6 + t).into_bytes().into(), 0));
        let _ = tx.send(assets_manager::source::OwnedDirEntry::File("n".into(), "s".into()));         // event about n.s pending
        crate::exec_world::stall(false);
        wx.op("reload");
        let got = wx.peek("S0", "n").map(|p| p.0);
        if got != Some(format!("v:{}", 6 + t)) { lost += 1; }
        drop(wx);
    }
    crate::exec_world::stall(false);
    rec.nontrivial = true;
    rec.stat("family=order");
    if lost > 0 { rec.oracle_fail(format!("wrong-attribution an edit of n.s notified right after `load n` returned was lost in {lost} of {trials} trials: the event was handled before the registration of the load (n keeps its old value after hot_reload)")); }
    rec.op(format!("hr.order {trials}"), if lost == 0 { "kept" } else { "lost" });
}

fn newdep_probe(trials: usize, rec: &mut CaseRec) {
    let mut stale = 0usize;
    for t in 0..trials {
        let mut wx = WorldExec::new("shared", "hot");
        for (id, sc) in [("b", "1"), ("e", "10"), ("c", "100 +S0:e")] { wx.op(&format!("src.put {} {} {} 0", hexs(id), hexs("s"), hexs(sc))); }
        wx.op(&format!("load S0 {}", hexs("b")));
        wx.op(&format!("load S0 {}", hexs("e")));
        wx.op(&format!("src.put {} {} {} 0", hexs("b"), hexs("s"), hexs("2 +S1:c")));
        wx.op(&format!("src.put {} {} {} 0", hexs("e"), hexs("s"), hexs(&format!("{}", 20 + t))));
        wx.op(&format!("notify f:{}:{} f:{}:{}", hexs("b"), hexs("s"), hexs("e"), hexs("s")));
        wx.op("reload");
        let cached = wx.peek("S1", "c").map(|p| p.0);
        let fresh = wx.op(&format!("owned S1 {}", hexs("c")));
        if let (Some(c), Some(f)) = (cached, fresh.strip_prefix("ok ")) { if c != f { stale += 1; } }
    }
    rec.nontrivial = true;
    rec.stat("family=newdep");
    rec.stat(format!("newdep/stale-trials={}", if stale == 0 { "0" } else { ">0" }));
    if stale > 0 { rec.oracle_fail(format!("stale-asset-first-loaded-during-reload in {stale} of {trials} trials: S1:c (first loaded by the reload of S0:b) was built from the stale S0:e and not reloaded, although b.s and e.s were both notified before hot_reload")); }
    rec.op(format!("hr.newdep {trials}"), "observed");
}
