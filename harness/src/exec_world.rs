//! Executor of the `cache` op vocabulary on the real crate (shared by several engines).
//!
//! One `WorldExec` = one cache (front-end chosen by `cfg`) over one `MemSource`.

use crate::common::*;
use crate::types::*;
use crate::{with_compound, with_insertable, with_storable};
use assets_manager::{source::OwnedDirEntry, AnyCache, AssetCache, LocalAssetCache, ReloadWatcher};
use std::collections::BTreeMap;

pub enum Fe {
    Shared(Box<AssetCache<MemSource>>),
    Local(Box<LocalAssetCache<MemSource>>),
}

/// Reloader threads seen through the verif yield points: thread id ↦ "is inside `select.ready()`".
static HR_THREADS: std::sync::Mutex<BTreeMap<u64, bool>> = std::sync::Mutex::new(BTreeMap::new());

fn tid() -> u64 {
    // ThreadId has no stable integer accessor: parse its Debug form `ThreadId(n)`
    let s = format!("{:?}", std::thread::current().id());
    s.trim_start_matches("ThreadId(").trim_end_matches(')').parse().unwrap_or(0)
}

/// OS thread ids of the reloader threads (rust thread id ↦ kernel tid), to tell a *dead* reloader thread
/// (its task directory is gone) from a slow one without waiting for a time-out.
static HR_OS_TID: std::sync::Mutex<BTreeMap<u64, u64>> = std::sync::Mutex::new(BTreeMap::new());

fn os_tid() -> Option<u64> {
    // `/proc/thread-self` -> `<pid>/task/<tid>`
    let l = std::fs::read_link("/proc/thread-self").ok()?;
    l.file_name()?.to_str()?.parse().ok()
}

static STALL: std::sync::atomic::AtomicBool = std::sync::atomic::AtomicBool::new(false);
/// Hold (true) / release (false) every reloader thread at its next wake-up (at most 2 s).
pub fn stall(on: bool) { STALL.store(on, std::sync::atomic::Ordering::SeqCst); }

fn yield_hook(tag: &'static str) {
    match tag {
        "hr-thread-before-ready" => {
            let t = tid();
            { let mut m = HR_OS_TID.lock().unwrap_or_else(|e| e.into_inner()); if !m.contains_key(&t) { if let Some(o) = os_tid() { m.insert(t, o); } } }
            HR_THREADS.lock().unwrap_or_else(|e| e.into_inner()).insert(t, true);
        }
        "hr-thread-after-ready" => {
            HR_THREADS.lock().unwrap_or_else(|e| e.into_inner()).insert(tid(), false);
            // `stall(true)`: hold the reloader thread right after it was woken, so that messages and events pile up behind it
            let t0 = std::time::Instant::now();
            while STALL.load(std::sync::atomic::Ordering::SeqCst) && t0.elapsed().as_millis() < 2000 { std::thread::yield_now(); }
        }
        _ => {}
    }
}

pub struct WorldExec {
    pub src: MemSource,
    pub fe: Fe,
    pub via_any: bool,
    pub has_reloader: bool,
    handles: BTreeMap<usize, usize>,
    next_h: usize,
    watchers: BTreeMap<String, ReloadWatcher<'static>>,
    pub universe_ids: Vec<String>,
    /// the reloader thread of this cache (as seen by the yield hook)
    hr_thread: Option<u64>,
    leak: bool,
    /// how long the quiescence barrier (and `reload_bounded`) waits before answering `sync-timeout`
    pub wait_secs: u64,
    static_mode: bool,
    /// set when a reload pass loaded an asset that was not cached before the pass: from then on the cached values
    /// depend on the (unspecified) order in which the assets of that pass were reloaded — see known finding F-C05d —
    /// and engines that compare values with the model stop the case here
    pub unspecified: bool,
    /// why (`new-asset-loaded-during-a-pass`, `rewired-onto-an-asset-changed-in-the-same-pass`)
    pub unspecified_why: &'static str,
    /// script files as they were at the end of the last pass (recorded at their first edit since then): the
    /// asset references a reloaded script asset had BEFORE this pass (known finding F-C05e)
    scripts_before: BTreeMap<String, Option<Vec<u8>>>,
    /// kernel tid of the reloader thread (liveness through `/proc/self/task`), when it could be determined
    hr_os_tid: Option<u64>,
}

/// the assets a script refers to: tokens `+T:id =T:id ?T:id !T:id ~T:id &T:id ^T:id @T:id:n`
pub fn script_refs(text: Option<&[u8]>) -> std::collections::BTreeSet<(String, String)> { script_refs_of_kinds(text, "+=?!~&^@") }

/// … restricted to tokens whose first character is in `kinds`
pub fn script_refs_of_kinds(text: Option<&[u8]>, kinds: &str) -> std::collections::BTreeSet<(String, String)> {
    let mut out = std::collections::BTreeSet::new();
    let Some(t) = text.and_then(|b| std::str::from_utf8(b).ok()) else { return out };
    for tok in t.split_whitespace() {
        let mut ch = tok.chars();
        let Some(c) = ch.next() else { continue };
        if !kinds.contains(c) { continue; }
        if let Some((ty, id)) = ch.as_str().split_once(':') {
            let id = if c == '@' { id.rsplit_once(':').map(|(i, _)| i).unwrap_or(id) } else { id };
            out.insert((ty.to_string(), id.to_string()));
        }
    }
    out
}

/// Oracle shared by the engines `cache` (C01) and `own` (C13), from the statements: *between two removals every
/// successful load / get_cached / get_or_insert of the same id and type yields the very same handle* — also the
/// handles given to loaders (`types::SEEN_LOG`) — *the entry never changes afterwards* (outside reload passes), and
/// *a value is never dropped while a handle can still reach it*.
#[derive(Default)]
pub struct SeenTracker {
    /// key ↦ (address of the handle, canonical value, ledger uid) at its first observation since the key's last removal
    known: BTreeMap<(String, String), (usize, String, Option<u64>)>,
}

impl SeenTracker {
    pub fn begin() -> SeenTracker {
        seen_log().clear();
        LOG_SEEN.store(true, std::sync::atomic::Ordering::Relaxed);
        SeenTracker::default()
    }

    /// the (type, id) pairs loaders filled / looked up with `get_or_insert` during the last operation (not drained)
    pub fn goi_targets() -> Vec<(String, String)> { seen_log().iter().filter(|s| s.how == "goi").map(|s| (s.ty.clone(), s.id.clone())).collect() }

    /// the (type, id) pairs for which a loader obtained a handle from `get_or_insert` or from a successful nested `load` during
    /// the last operation (not drained): entries that such calls create are theirs, not the enclosing operation's
    pub fn loader_obtained() -> Vec<(String, String)> { seen_log().iter().filter(|s| s.how != "cached").map(|s| (s.ty.clone(), s.id.clone())).collect() }

    /// To be called after every operation. `line` = the operation; returns the oracle failures (class token first).
    pub fn after_op(&mut self, wx: &WorldExec, line: &str, snap: &BTreeMap<(String, String), (String, usize)>) -> Vec<String> {
        let mut fails = vec![];
        let op = line.split_whitespace().next().unwrap_or("");
        let log: Vec<Seen> = std::mem::take(&mut *seen_log());
        // a reload pass legitimately rewrites values (new uid, new canonical value; same handle): start afresh
        let pass = matches!(op, "reload" | "notify" | "enhance");
        if pass { self.known.clear(); }
        let mut obs: Vec<((String, String), &'static str, usize, String, Option<u64>)> = vec![];
        if !pass { for s in &log { obs.push(((s.ty.clone(), s.id.clone()), s.how, s.addr, s.val.clone(), s.uid)); } }
        let dropped: std::collections::BTreeSet<u64> = ledger().dropped.iter().copied().collect();
        // entries that left the map (remove / take / clear) are forgotten; what is stored now is one more observation
        self.known.retain(|k, _| snap.contains_key(k) || obs.iter().any(|o| &o.0 == k));
        for (k, (v, p)) in snap { obs.push((k.clone(), "top-level", *p, v.clone(), wx.peek_uid(&k.0, &k.1))); }
        for (k, how, addr, val, uid) in obs {
            match self.known.get(&k) {
                None => { self.known.insert(k, (addr, val, uid)); }
                Some((a0, v0, u0)) => {
                    if *a0 != addr { fails.push(format!("handle-unstable `{line}`: {}/{} was handed out at entry #{a0:x} and, without any removal, is at #{addr:x} ({how})", k.0, hexs(&k.1))); }
                    if *v0 != val || *u0 != uid { fails.push(format!("entry-replaced `{line}`: {}/{} held {v0} (value uid {u0:?}) and, without any removal or reload, holds {val} (uid {uid:?}) ({how})", k.0, hexs(&k.1))); }
                    if let Some(u) = u0 { if *u0 != uid && dropped.contains(u) { fails.push(format!("dropped-while-reachable `{line}`: the value {v0} (uid {u}) of {}/{} was dropped although handles on its entry were given out and the key was never removed", k.0, hexs(&k.1))); } }
                    if *a0 != addr || *v0 != val || *u0 != uid { self.known.insert(k, (addr, val, uid)); }
                }
            }
        }
        // C13: a value seen in a live entry is not dropped while the entry is stored
        for (k, (_, v, u)) in &self.known {
            if let Some(u) = u { if dropped.contains(u) && snap.contains_key(k) { fails.push(format!("dropped-while-reachable `{line}`: the value {v} (uid {u}) of the stored entry {}/{} has been dropped", k.0, hexs(&k.1))); } }
        }
        fails
    }
}

pub const ALL_TYPES: &[&str] = &["S0", "S1", "S2", "N0", "AN", "AS", "I", "M00", "M01", "M10", "M11", "M20", "M21", "M30", "M31", "M40", "M41", "M50", "M51",
    "D0", "D1", "D2", "D3", "D4", "D5", "R0", "R1", "R2", "R3", "R4", "R5"];

fn catch<R>(f: impl FnOnce() -> R) -> Result<R, ()> {
    std::panic::catch_unwind(std::panic::AssertUnwindSafe(f)).map_err(|_| ())
}

/// decimal digits only (what the model driver's `String.toNat?` accepts from the generators)
fn strict_nat(s: &str) -> Option<usize> {
    if s.is_empty() || s.len() > 9 || !s.bytes().all(|b| b.is_ascii_digit()) { None } else { s.parse().ok() }
}

pub fn quiet_panics() {
    use std::sync::Once;
    static ONCE: Once = Once::new();
    ONCE.call_once(|| {
        let prev = std::panic::take_hook();
        std::panic::set_hook(Box::new(move |info| {
            let msg = info.to_string();
            if msg.contains("script panic") || msg.contains("injected loader panic") || msg.contains("Failed to load essential asset") { return; }
            prev(info);
        }));
    });
}

impl WorldExec {
    /// `cfg <shared|any|local|localany> <hot|nohot-ctor|nohot-src|nohot-cfgfail>`
    pub fn new(frontend: &str, mode: &str) -> WorldExec {
        quiet_panics();
        *loader_faults() = (0, BTreeMap::new());
        { let mut l = ledger(); l.created.clear(); l.dropped.clear(); }
        assets_manager::verif::set_yield_hook(Some(yield_hook));
        let known_max: u64 = HR_OS_TID.lock().unwrap_or_else(|e| e.into_inner()).keys().next_back().copied().unwrap_or(0);
        let (local, via_any) = match frontend { "shared" => (false, false), "any" => (false, true), "local" => (true, false), _ => (true, true) };
        let src = MemSource::new(mode == "hot" || mode == "nohot-ctor" || mode == "nohot-cfgfail");
        // hot-reloading fails to start AFTER the source kept the sender: the cache must be built without a reloader
        if mode == "nohot-cfgfail" { src.lock().cfg_fail = true; }
        let (fe, has_reloader) = if local {
            (Fe::Local(Box::new(LocalAssetCache::with_source(src.clone()))), false)
        } else if mode == "nohot-ctor" {
            (Fe::Shared(Box::new(AssetCache::without_hot_reloading(src.clone()))), false)
        } else {
            (Fe::Shared(Box::new(AssetCache::with_source(src.clone()))), mode == "hot")
        };
        // identity of the cache's reloader thread (verif hook)
        let hr_thread = match &fe { Fe::Shared(c) => c.verif_reloader_id().map(|i| i as u64), _ => None };
        // its kernel tid: the thread registers itself at its first `select.ready()`; rust thread ids only grow, so it is the
        // first one above every id seen before the cache was created (best effort: without it a dead thread costs a time-out)
        let mut hr_os_tid = None;
        if has_reloader {
            let t0 = std::time::Instant::now();
            while hr_os_tid.is_none() && t0.elapsed().as_millis() < 2000 {
                hr_os_tid = HR_OS_TID.lock().unwrap_or_else(|e| e.into_inner()).range(known_max + 1..).next().map(|(_, o)| *o);
                if hr_os_tid.is_none() { std::thread::yield_now(); }
            }
        }
        WorldExec { src, fe, via_any, has_reloader, handles: BTreeMap::new(), next_h: 0, watchers: BTreeMap::new(), hr_thread, hr_os_tid, leak: false, wait_secs: 20, static_mode: false, unspecified: false, unspecified_why: "", scripts_before: BTreeMap::new(), universe_ids: crate::eng_cache::IDS.iter().map(|s| s.to_string()).chain(["".to_string(), "d".to_string(), "d.e".to_string()]).collect() }
    }

    /// Quiescence barrier without sleeping: nothing is pending in either channel and the reloader
    /// thread is blocked inside `select.ready()`.
    pub fn sync(&self) -> bool {
        let (Some(t), Fe::Shared(c), Some(tx)) = (self.hr_thread, &self.fe, self.src.sender()) else { return true };
        let t0 = std::time::Instant::now();
        let mut stable = 0;
        let mut spins = 0u32;
        while t0.elapsed().as_secs() < self.wait_secs {
            spins = spins.wrapping_add(1);
            if spins % 256 == 0 && !self.reloader_alive() { return false; }   // killed (e.g. by a panic): it never reports back
            let state = assets_manager::verif::reloader_in_ready(t as usize);
            if state.is_none() && t0.elapsed().as_millis() > 200 { return false; }   // the reloader thread is gone
            let quiet = tx.verif_pending() == 0 && c.verif_msgs_pending() == Some(0) && state == Some(true);
            if quiet { stable += 1; if stable >= 2 { return true; } } else { stable = 0; }
            std::thread::yield_now();
        }
        false
    }

    /// `hot_reload()` with a bounded wait (engine `fault`: a reloader thread killed by a fault strands its caller
    /// forever). The call runs on a helper thread; if it has not returned after `wait_secs` the answer is
    /// `sync-timeout`, the helper stays parked and the cache is leaked (it must outlive the parked call).
    pub fn reload_bounded(&mut self) -> String {
        if !self.sync() { return "sync-timeout".into(); }
        self.reload_call()
    }

    /// `hot_reload()` on a helper thread, given up (answer `sync-timeout`, cache leaked) when the reloader thread is gone or stays
    /// silent for `wait_secs`: no engine may hang on a reloader that died.
    pub fn reload_call(&mut self) -> String {
        if let Fe::Shared(c) = &self.fe {
            let p = &**c as *const AssetCache<MemSource> as usize;
            let (tx, rx) = std::sync::mpsc::channel::<()>();
            std::thread::spawn(move || {
                let c: &AssetCache<MemSource> = unsafe { &*(p as *const AssetCache<MemSource>) };
                c.hot_reload();
                let _ = tx.send(());
            });
            let t0 = std::time::Instant::now();
            loop {
                match rx.recv_timeout(std::time::Duration::from_millis(2)) {
                    Ok(()) => break,
                    Err(std::sync::mpsc::RecvTimeoutError::Timeout) => {
                        // the reloader thread is gone (its caller will never be answered), or it is alive and silent for too long
                        if !self.reloader_alive() || t0.elapsed().as_secs() >= self.wait_secs { self.leak = true; return "sync-timeout".into(); }
                    }
                    Err(std::sync::mpsc::RecvTimeoutError::Disconnected) => return "panic".into(),
                }
            }
        }
        if self.sync() { "ok".into() } else { "sync-timeout".into() }
    }

    /// false once the reloader thread of this cache has exited (e.g. killed by a panic)
    pub fn reloader_alive(&self) -> bool {
        match self.hr_os_tid { Some(o) => std::path::Path::new(&format!("/proc/self/task/{o}")).exists(), None => true }
    }

    fn any(&self) -> AnyCache<'_> {
        match &self.fe { Fe::Shared(c) => c.as_any_cache(), Fe::Local(c) => c.as_any_cache() }
    }

    fn h(&mut self, ptr: usize) -> String {
        if !self.handles.contains_key(&ptr) { self.handles.insert(ptr, self.next_h); self.next_h += 1; }
        format!("h{}", self.handles[&ptr])
    }

    /// (present, canonical value, pointer) of a key, through `get_cached` (no side effect at top level)
    pub fn peek(&self, ty: &str, id: &str) -> Option<(String, usize)> {
        let c = self.any();
        with_storable!(ty, T => c.get_cached::<T>(id).map(|h| (h.read().canon(), h as *const _ as usize)), else None)
    }

    /// ledger identity of the value stored under a key (tracked types only)
    pub fn peek_uid(&self, ty: &str, id: &str) -> Option<u64> {
        let c = self.any();
        with_storable!(ty, T => c.get_cached::<T>(id).and_then(|h| h.read().uid()), else None)
    }

    pub fn contains(&self, ty: &str, id: &str) -> bool {
        macro_rules! go { ($c:expr) => { with_storable!(ty, T => $c.contains::<T>(id), else false) } }
        if self.via_any { let c = self.any(); go!(c) } else { match &self.fe { Fe::Shared(c) => go!(c), Fe::Local(c) => go!(c) } }
    }

    /// Snapshot of every key of the universe (types × ids seen in this case) that is present.
    pub fn snapshot(&self) -> BTreeMap<(String, String), (String, usize)> {
        let mut m = BTreeMap::new();
        for id in &self.universe_ids {
            for ty in ALL_TYPES {
                if let Some(v) = self.peek(ty, id) { m.insert((ty.to_string(), id.clone()), v); }
            }
        }
        m
    }

    fn script_bytes(&self, id: &str) -> Option<Vec<u8>> {
        match self.src.lock().files.get(&(id.to_string(), "s".to_string())) { Some(FileSt::Bytes(b, _)) => Some(b.to_vec()), _ => None }
    }

    /// Adds an id (and every directory prefix of it: recursive directory loads cache those) to the universe.
    pub fn note_id(&mut self, id: &str) {
        let mut cur = Some(id);
        while let Some(c) = cur {
            if !self.universe_ids.iter().any(|x| x == c) { self.universe_ids.push(c.to_string()); }
            cur = parent_id(c);
        }
    }

    /// Executes one op line; returns the implementation's canonical result.
    pub fn op(&mut self, line: &str) -> String {
        let w: Vec<&str> = line.split_whitespace().collect();
        if w.is_empty() { return "bad-op".into(); }
        let is_pass = self.has_reloader && (w[0] == "reload" || w[0] == "enhance" || (w[0] == "notify" && self.static_mode));
        if is_pass {
            let before: BTreeMap<(String, String), usize> = self.snapshot().into_keys().map(|k| { let r = self.rid_of(&k.0, &k.1).unwrap_or(0); (k, r) }).collect();
            let out = self.op_inner(line);
            let after: BTreeMap<(String, String), usize> = self.snapshot().into_keys().map(|k| { let r = self.rid_of(&k.0, &k.1).unwrap_or(0); (k, r) }).collect();
            if after.keys().any(|k| !before.contains_key(k)) { self.unspecified = true; self.unspecified_why = "new-asset-loaded-during-a-pass"; }
            // F-C05e: a script asset reloaded in this pass (reload id moved) starts to refer to another asset reloaded in this pass
            let reloaded: Vec<(String, String)> = after.iter().filter(|(k, v)| before.get(*k).map(|b| b != *v).unwrap_or(false)).map(|(k, _)| k.clone()).collect();
            for k in &reloaded {
                if !(k.0.starts_with('S') || k.0.starts_with('N') || k.0.starts_with('A')) { continue; }
                let now = script_refs(self.script_bytes(&k.1).as_deref());
                let old = match self.scripts_before.get(&k.1) { Some(b) => script_refs(b.as_deref()), None => now.clone() };
                if now.difference(&old).any(|d| d != k && reloaded.contains(d)) && !self.unspecified { self.unspecified = true; self.unspecified_why = "rewired-onto-an-asset-changed-in-the-same-pass"; }
            }
            // an UNRECORDED look-up (`~` no_record, `&` helper thread, `^` catch_unwind(no_record)) of an asset that is reloaded in the
            // same pass: the reading asset has no edge to it, so which of the two is reloaded first is the hash-set order
            for k in &reloaded {
                if !(k.0.starts_with('S') || k.0.starts_with('N') || k.0.starts_with('A')) { continue; }
                let unrec = script_refs_of_kinds(self.script_bytes(&k.1).as_deref(), "~&^");
                if unrec.iter().any(|d| d != k && reloaded.contains(d)) && !self.unspecified { self.unspecified = true; self.unspecified_why = "unrecorded-lookup-of-an-asset-reloaded-in-the-same-pass"; }
            }
            self.scripts_before.clear();
            return out;
        }
        if w[0].starts_with("src.") && w.len() >= 3 && unhexs(w[2]) == "s" {
            let id = unhexs(w[1]);
            // only for assets that are cached now: for the others the script they are first loaded from is the baseline
            let cached = ["S0", "S1", "S2", "N0", "AN", "AS"].iter().any(|t| self.peek(t, &id).is_some());
            if cached && !self.scripts_before.contains_key(&id) { let cur = self.script_bytes(&id); self.scripts_before.insert(id, cur); }
        }
        self.op_inner(line)
    }

    fn op_inner(&mut self, line: &str) -> String {
        let w: Vec<&str> = line.split_whitespace().collect();
        let s = |i: usize| -> String { w.get(i).map(|x| unhexs(x)).unwrap_or_default() };
        if w[0].starts_with("src.") && w.len() >= 2 { let id = s(1); self.note_id(&id); }
        match w[0] {
            "src.put" if w.len() >= 4 => {
                let variant = w.get(4).and_then(|v| v.parse::<u8>().ok()).unwrap_or(0);
                let bytes = unhex(w[3]);
                // ids a script may fill with `get_or_insert` (`@T:id:n`) belong to the observed universe even if no top-level
                // operation ever names them
                if s(2) == "s" {
                    if let Ok(t) = std::str::from_utf8(&bytes) {
                        let ids: Vec<String> = t.split_whitespace().filter(|k| k.starts_with('@')).filter_map(|k| { let mut it = k[1..].split(':'); it.next()?; it.next().map(|i| i.to_string()) }).collect();
                        for i in ids { self.note_id(&i); }
                    }
                }
                self.src.put(&s(1), &s(2), FileSt::Bytes(bytes.into(), variant));
                "ok".into()
            }
            "src.bad" if w.len() == 4 => { self.src.put(&s(1), &s(2), FileSt::Unreadable(w[3].to_string())); "ok".into() }
            "src.rm" if w.len() == 3 => { self.src.rm(&s(1), &s(2)); "ok".into() }
            "src.mkdir" if w.len() == 2 => { self.src.mkdir(&s(1)); "ok".into() }
            "src.rmdir" if w.len() == 2 => { self.src.rmdir(&s(1)); "ok".into() }
            "fault.read" if w.len() == 3 => {
                let Some(k) = strict_nat(w[1]) else { return "bad-op".into() };
                let mut g = self.src.lock();
                let at = g.ios + k;
                g.faults.insert(at, w[2].to_string());
                "ok".into()
            }
            "fault.clear" if w.len() == 1 => { self.src.lock().faults.clear(); loader_faults().1.clear(); "ok".into() }
            "fault.load" if w.len() == 3 => {
                if w[2] != "panic" && w[2] != "err" { return "bad-op".into(); }
                let Some(k) = strict_nat(w[1]) else { return "bad-op".into() };
                let mut f = loader_faults();
                let at = f.0 + k;
                f.1.insert(at, w[2] == "panic");
                "ok".into()
            }
            "load" if w.len() == 3 => {
                let (ty, id) = (w[1], s(2));
                self.note_id(&id);
                let via_any = self.via_any;
                let r: Result<Result<(String, usize), String>, ()> = {
                    macro_rules! go { ($c:expr) => { with_compound!(ty, T => catch(|| $c.load::<T>(&id).map(|h| (h.read().canon(), h as *const _ as usize)).map_err(|e| canon_error(&e))), else return "bad-op".into()) } }
                    if via_any { let c = self.any(); go!(c) } else { match &self.fe { Fe::Shared(c) => go!(c), Fe::Local(c) => go!(c) } }
                };
                match r { Err(()) => "panic".into(), Ok(Err(e)) => format!("err {e}"), Ok(Ok((v, p))) => format!("ok {} {v}", self.h(p)) }
            }
            "expect" if w.len() == 3 => {
                // `load_expect`: the handle, or a panic for every load error
                let (ty, id) = (w[1], s(2));
                self.note_id(&id);
                let via_any = self.via_any;
                let r: Result<(String, usize), ()> = {
                    macro_rules! go { ($c:expr) => { with_compound!(ty, T => catch(|| { let h = $c.load_expect::<T>(&id); (h.read().canon(), h as *const _ as usize) }), else return "bad-op".into()) } }
                    if via_any { let c = self.any(); go!(c) } else { match &self.fe { Fe::Shared(c) => go!(c), Fe::Local(c) => go!(c) } }
                };
                match r { Err(()) => "panic".into(), Ok((v, p)) => format!("ok {} {v}", self.h(p)) }
            }
            "owned" if w.len() == 3 => {
                let (ty, id) = (w[1], s(2));
                self.note_id(&id);
                let via_any = self.via_any;
                let r: Result<Result<String, String>, ()> = {
                    macro_rules! go { ($c:expr) => { with_compound!(ty, T => catch(|| $c.load_owned::<T>(&id).map(|v| v.canon()).map_err(|e| canon_error(&e))), else return "bad-op".into()) } }
                    if via_any { let c = self.any(); go!(c) } else { match &self.fe { Fe::Shared(c) => go!(c), Fe::Local(c) => go!(c) } }
                };
                match r { Err(()) => "panic".into(), Ok(Err(e)) => format!("err {e}"), Ok(Ok(v)) => format!("ok {v}") }
            }
            "cached" if w.len() == 3 => {
                let (ty, id) = (w[1], s(2));
                self.note_id(&id);
                if !ALL_TYPES.contains(&ty) { return "bad-op".into(); }
                let via_any = self.via_any;
                let r: Option<(String, usize)> = {
                    macro_rules! go { ($c:expr) => { with_storable!(ty, T => $c.get_cached::<T>(&id).map(|h| (h.read().canon(), h as *const _ as usize)), else None) } }
                    if via_any { let c = self.any(); go!(c) } else { match &self.fe { Fe::Shared(c) => go!(c), Fe::Local(c) => go!(c) } }
                };
                match r { None => "none".into(), Some((v, p)) => format!("some {} {v}", self.h(p)) }
            }
            "goi" if w.len() == 4 => {
                let (ty, id) = (w[1], s(2));
                self.note_id(&id);
                let n: i64 = match w[3].parse() { Ok(n) => n, Err(_) => return "bad-op".into() };
                let via_any = self.via_any;
                let r: (String, usize) = {
                    macro_rules! go { ($c:expr) => { with_insertable!(ty, T => { let h = $c.get_or_insert::<T>(&id, T::from_int(n).unwrap()); (h.read().canon(), h as *const _ as usize) }, else return "bad-op".into()) } }
                    if via_any { let c = self.any(); go!(c) } else { match &self.fe { Fe::Shared(c) => go!(c), Fe::Local(c) => go!(c) } }
                };
                format!("{} {}", self.h(r.1), r.0)
            }
            "contains" if w.len() == 3 => {
                let id = s(2);
                self.note_id(&id);
                if !ALL_TYPES.contains(&w[1]) { return "bad-op".into(); }
                self.contains(w[1], &id).to_string()
            }
            "remove" if w.len() == 3 => {
                let (ty, id) = (w[1], s(2));
                self.note_id(&id);
                self.watchers.clear();
                let gone = self.peek(ty, &id).map(|(_, p)| p);
                let r = match &mut self.fe {
                    Fe::Shared(c) => with_storable!(ty, T => c.remove::<T>(&id), else return "bad-op".into()),
                    Fe::Local(c) => with_storable!(ty, T => c.remove::<T>(&id), else return "bad-op".into()),
                };
                if let (true, Some(p)) = (r, gone) { self.handles.remove(&p); self.rekey(); }
                r.to_string()
            }
            "take" if w.len() == 3 => {
                let (ty, id) = (w[1], s(2));
                self.note_id(&id);
                self.watchers.clear();
                let gone = self.peek(ty, &id).map(|(_, p)| p);
                let r: Option<String> = match &mut self.fe {
                    Fe::Shared(c) => with_storable!(ty, T => c.take::<T>(&id).map(|v| v.canon()), else return "bad-op".into()),
                    Fe::Local(c) => with_storable!(ty, T => c.take::<T>(&id).map(|v| v.canon()), else return "bad-op".into()),
                };
                if let (Some(_), Some(p)) = (&r, gone) { self.handles.remove(&p); self.rekey(); }
                match r { Some(v) => format!("some {v}"), None => "none".into() }
            }
            "clear" => {
                self.watchers.clear();
                match &mut self.fe { Fe::Shared(c) => c.clear(), Fe::Local(c) => c.clear() }
                self.handles.clear();
                self.rekey();
                "ok".into()
            }
            "dump" => {
                let snap = self.snapshot();
                let mut parts = vec![];
                for ((ty, id), (v, _p)) in snap {
                    let rid = self.rid_of(&ty, &id).unwrap_or(0);
                    parts.push(format!("{ty}/{}={v}@{rid}", hexs(&id)));
                }
                format!("dump {}", parts.join(" "))
            }
            "notify" => {
                let mut evs = vec![];
                for e in &w[1..] {
                    let p: Vec<&str> = e.split(':').collect();
                    match (p[0], p.len()) {
                        ("f", 3) => evs.push(OwnedDirEntry::File(unhexs(p[1]).into(), unhexs(p[2]).into())),
                        ("d", 2) => evs.push(OwnedDirEntry::Directory(unhexs(p[1]).into())),
                        _ => return "bad-op".into(),
                    }
                }
                match self.src.sender() {
                    None => "no-reloader".into(),
                    Some(tx) => {
                        if evs.len() == 1 { let _ = tx.send(evs.pop().unwrap()); } else { let _ = tx.send_multiple(evs); }
                        // a source that kept the sender although hot-reloading did not start: the events go nowhere
                        if !self.has_reloader { self.sync(); "no-reloader".into() } else if self.sync() { "ok".into() } else { "sync-timeout".into() }
                    }
                }
            }
            "reload" => {
                self.sync();
                self.reload_call()
            }
            "enhance" => {
                // `enhance_hot_reloading` needs a `'static` cache: this one is leaked (harness only)
                self.sync();
                if let Fe::Shared(c) = &self.fe {
                    let c: &'static AssetCache<MemSource> = unsafe { &*(&**c as *const AssetCache<MemSource>) };
                    c.enhance_hot_reloading();
                    self.leak = true;
                    self.static_mode = true;
                }
                if self.sync() { "ok".into() } else { "sync-timeout".into() }
            }
            // C13: the ownership ledger of tracked values (created by loaders / passed to get_or_insert; dropped)
            "ledger" => { let l = ledger(); format!("c={} d={}", l.created.len(), l.dropped.len()) }
            // C13: view the entry stored as type T at type R through the untyped handle
            "view" if w.len() == 4 => {
                let (t, r, id) = (w[1], w[2], s(3));
                let c = self.any();
                let out: Option<String> = with_storable!(t, T => c.get_cached::<T>(&id).map(|h| {
                    let u = h.as_untyped();
                    with_storable!(r, R => format!("ref={} is={} guard={}", u.downcast_ref::<R>().is_some(), u.is::<R>(), u.read().downcast::<R>().is_ok()), else "bad-op".to_string())
                }), else Some("bad-op".to_string()));
                out.unwrap_or_else(|| "absent".into())
            }
            "rid" if w.len() == 3 => {
                let id = s(2);
                match self.rid_of(w[1], &id) { Some(r) => r.to_string(), None => "none".into() }
            }
            "global" if w.len() == 3 => {
                let id = s(2);
                let c = self.any();
                let r: Option<bool> = with_storable!(w[1], T => c.get_cached::<T>(&id).map(|h| h.reloaded_global()), else None);
                match r { Some(b) => b.to_string(), None => "none".into() }
            }
            "rw.new" if w.len() == 4 => {
                let id = s(3);
                let c = self.any();
                let wt: Option<ReloadWatcher<'_>> = with_storable!(w[2], T => c.get_cached::<T>(&id).map(|h| h.reload_watcher()), else None);
                match wt {
                    // the watcher borrows the entry; it is dropped before any `&mut` op on the cache (see remove/take/clear)
                    Some(wt) => { let wt: ReloadWatcher<'static> = unsafe { std::mem::transmute(wt) }; self.watchers.insert(w[1].to_string(), wt); "ok".into() }
                    None => "none".into(),
                }
            }
            "rw.poll" if w.len() == 2 => match self.watchers.get_mut(w[1]) { Some(wt) => wt.reloaded().to_string(), None => "none".into() },
            _ => "bad-op".into(),
        }
    }

    /// Handle numbers are "n-th distinct entry seen": a removed entry's address is forgotten (the allocator may
    /// reuse it for a new entry, which must get a new number); numbering continues.
    fn rekey(&mut self) {}

    /// number of live cache entries whose value is tracked by the ownership ledger
    pub fn live_tracked(&self) -> usize {
        self.snapshot().keys().filter(|(t, _)| t.starts_with('S') || t.starts_with('M') || t == "N0" || t == "AN" || t == "AS").count()
    }

    pub fn rid_of(&self, ty: &str, id: &str) -> Option<usize> {
        let c = self.any();
        with_storable!(ty, T => c.get_cached::<T>(id).map(|h| h.last_reload_id().verif_raw()), else None)
    }
}

impl Drop for WorldExec {
    fn drop(&mut self) {
        self.watchers.clear();
        if self.leak {
            // the reloader thread keeps a `'static` reference: the cache must outlive it
            let fe = std::mem::replace(&mut self.fe, Fe::Local(Box::new(LocalAssetCache::with_source(MemSource::new(false)))));
            std::mem::forget(fe);
        } else {
            // let the event channel disconnect so that the reloader thread can stop after the cache is gone
            self.src.lock().sender = None;
        }
    }
}
