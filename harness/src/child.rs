//! Child-process execution with a progress watchdog (engines `hrlive` and `idle`).
//!
//! Cases that can deadlock, abort the process (stack overflow) or leave spinning threads behind are
//! executed in a re-exec'd copy of `amh` (`amh --child <engine> <op line>`). The parent watches the
//! child through `/proc/<pid>/task/*/stat` and a progress counter the child reports on its stdout:
//!
//! * *blocked* = every thread of the child (the reporter thread aside) is in scheduler state `S`,
//!   the progress counter has not moved and no CPU tick was consumed, for 2 s without interruption;
//! * *slow* is never reported as blocked: a child that still burns CPU or makes progress only hits
//!   the (generous) hard limit, which is reported as `timeout`, a harness problem, not a finding;
//! * termination by a signal (stack overflow ⇒ SIGABRT / SIGSEGV) is reported with the signal number.
//!
//! Child → parent protocol on stdout: `P <n>` progress, `R <text>` result, `S <key>` statistic,
//! `O <text>` oracle failure observed inside the child.

use std::{
    io::{BufRead, BufReader, Read},
    process::{Command, Stdio},
    sync::{atomic::{AtomicU64, Ordering}, Arc, Mutex},
    time::{Duration, Instant},
};

pub static PROGRESS: AtomicU64 = AtomicU64::new(0);
pub fn progress() { PROGRESS.fetch_add(1, Ordering::Relaxed); }

pub const REPORTER: &str = "amh-reporter";
pub const BLOCKED_AFTER: Duration = Duration::from_millis(2000);
pub const HARD_LIMIT: Duration = Duration::from_secs(300);

#[derive(Debug, Clone)]
pub enum Exit {
    Code(i32),
    Signal(i32),
    /// (thread name, state) of every thread at the moment the watchdog gave up
    Blocked(Vec<(String, char)>),
    Timeout,
}

pub struct Outcome {
    pub exit: Exit,
    pub results: Vec<String>,
    pub stats: Vec<String>,
    pub oracle: Vec<String>,
    pub stderr: String,
    pub wall_ms: u128,
    pub pid: u32,
}

/// (tid, comm, state, utime+stime) of every task of `pid`
pub fn tasks(pid: u32) -> Vec<(u32, String, char, u64)> {
    let mut v = vec![];
    let dir = match std::fs::read_dir(format!("/proc/{pid}/task")) { Ok(d) => d, Err(_) => return v };
    for e in dir.flatten() {
        let tid: u32 = match e.file_name().to_string_lossy().parse() { Ok(t) => t, Err(_) => continue };
        if let Some((comm, st, ticks)) = task_stat(pid, tid) { v.push((tid, comm, st, ticks)); }
    }
    v
}

/// comm, state and CPU ticks of one task (`None`: the task is gone)
pub fn task_stat(pid: u32, tid: u32) -> Option<(String, char, u64)> {
    let s = std::fs::read_to_string(format!("/proc/{pid}/task/{tid}/stat")).ok()?;
    // pid (comm) state ppid ... ; comm may contain spaces and parentheses: cut at the last ')'
    let open = s.find('(')?;
    let close = s.rfind(')')?;
    let comm = s[open + 1..close].to_string();
    let rest: Vec<&str> = s[close + 1..].split_whitespace().collect();
    let state = rest.first()?.chars().next()?;
    // after the state: ppid pgrp session tty tpgid flags minflt cminflt majflt cmajflt utime stime
    let utime: u64 = rest.get(11)?.parse().ok()?;
    let stime: u64 = rest.get(12)?.parse().ok()?;
    Some((comm, state, utime + stime))
}

/// Runs `amh --child <engine> <line>` under the watchdog.
pub fn run_child(engine: &str, line: &str) -> Outcome {
    let exe = std::env::current_exe().expect("current_exe");
    let t0 = Instant::now();
    let mut child = Command::new(exe)
        .arg("--child").arg(engine).arg(line)
        .stdin(Stdio::null()).stdout(Stdio::piped()).stderr(Stdio::piped())
        .spawn().expect("spawn child");
    let pid = child.id();
    let progress = Arc::new(AtomicU64::new(0));
    let lines: Arc<Mutex<Vec<String>>> = Arc::new(Mutex::new(vec![]));
    let out = child.stdout.take().unwrap();
    let (p2, l2) = (progress.clone(), lines.clone());
    let reader = std::thread::spawn(move || {
        for l in BufReader::new(out).lines().map_while(Result::ok) {
            if let Some(n) = l.strip_prefix("P ") { if let Ok(n) = n.trim().parse::<u64>() { p2.store(n, Ordering::Relaxed); } }
            else { l2.lock().unwrap().push(l); }
        }
    });
    let mut err = child.stderr.take().unwrap();
    let err_reader = std::thread::spawn(move || { let mut s = String::new(); let _ = err.read_to_string(&mut s); s });

    let mut quiet_since: Option<Instant> = None;
    let (mut last_prog, mut last_ticks) = (u64::MAX, u64::MAX);
    let exit = loop {
        match child.try_wait() {
            Ok(Some(st)) => {
                use std::os::unix::process::ExitStatusExt;
                break match st.signal() { Some(sig) => Exit::Signal(sig), None => Exit::Code(st.code().unwrap_or(-1)) };
            }
            Ok(None) => {}
            Err(_) => break Exit::Code(-1),
        }
        if t0.elapsed() > HARD_LIMIT { let _ = child.kill(); let _ = child.wait(); break Exit::Timeout; }
        let ts = tasks(pid);
        let workers: Vec<&(u32, String, char, u64)> = ts.iter().filter(|t| t.1 != REPORTER).collect();
        let all_asleep = !workers.is_empty() && workers.iter().all(|t| t.2 == 'S');
        let ticks: u64 = workers.iter().map(|t| t.3).sum();
        let prog = progress.load(Ordering::Relaxed);
        if all_asleep && prog == last_prog && ticks == last_ticks {
            let since = *quiet_since.get_or_insert_with(Instant::now);
            if since.elapsed() >= BLOCKED_AFTER {
                let snapshot = workers.iter().map(|t| (t.1.clone(), t.2)).collect();
                let _ = child.kill();
                let _ = child.wait();
                break Exit::Blocked(snapshot);
            }
        } else {
            quiet_since = None;
        }
        last_prog = prog;
        last_ticks = ticks;
        std::thread::sleep(Duration::from_millis(40));
    };
    let _ = reader.join();
    let stderr = err_reader.join().unwrap_or_default();
    let mut o = Outcome { exit, results: vec![], stats: vec![], oracle: vec![], stderr, wall_ms: t0.elapsed().as_millis(), pid };
    for l in lines.lock().unwrap().iter() {
        if let Some(r) = l.strip_prefix("R ") { o.results.push(r.to_string()); }
        else if let Some(r) = l.strip_prefix("S ") { o.stats.push(r.to_string()); }
        else if let Some(r) = l.strip_prefix("O ") { o.oracle.push(r.to_string()); }
    }
    o
}

/// In the child: start the progress reporter.
pub fn start_reporter() {
    std::thread::Builder::new().name(REPORTER.into()).spawn(|| loop {
        println!("P {}", PROGRESS.load(Ordering::Relaxed));
        std::thread::sleep(Duration::from_millis(50));
    }).unwrap();
}

/// `amh --child <engine> <line>`: dispatch; never returns when it was a child invocation.
pub fn maybe_run_child(args: &[String]) {
    if args.len() >= 4 && args[1] == "--child" {
        start_reporter();
        match args[2].as_str() {
            "hrlive" => crate::eng_hrlive::child_main(&args[3]),
            "idle" => crate::eng_idle::child_main(&args[3]),
            other => { eprintln!("unknown child engine {other}"); std::process::exit(2) }
        }
        use std::io::Write;
        let _ = std::io::stdout().flush();
        std::process::exit(0);
    }
}
