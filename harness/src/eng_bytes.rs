//! Engine `bytes` (C16): `SharedBytes` / `SharedString` through the public API.
//!
//! * every construction path (slice, Vec with exact / excess / zero capacity, Box, both Cow arms,
//!   iterator with exact and unknown size hint, `BytesLoader`, serde `visit_*`), lengths around
//!   0 / 8 / page / 64 KiB (1 MiB in the thorough tier);
//! * forced schedules of clone / deref / move / drop: every operation is executed on the named
//!   worker thread (handles really change threads; the last drop and hence the free happen on
//!   whichever thread the schedule says);
//! * free-running stress (search only) whose outcome is compared with the model's schedule-
//!   independent final state;
//! * an accounting allocator (always installed in `amh`, inert unless this engine records):
//!   blocks allocated inside a recording window are tracked; every `dealloc` of a tracked block
//!   must carry the layout it was allocated with; freed tracked blocks are quarantined until
//!   the end of the case, so early frees and double frees are reported (with the case) instead
//!   of corrupting the heap.
//!
//! The oracle is written from the statement: contents equal the harness's own copy of the source
//! through every handle at every moment, all handles alias one address, nothing is freed while a
//! handle is alive, everything is freed exactly once by the last drop with the allocation's
//! layout, UTF-8 acceptance is decided by a hand-written decoder, comparisons and hashes are
//! those of the plain slices.

use crate::common::*;
use assets_manager::loader::{BytesLoader, Loader, StringLoader};
use assets_manager::{SharedBytes, SharedString};
use std::borrow::Cow;
use std::collections::BTreeMap;
use std::hash::{Hash, Hasher};
use std::sync::{mpsc, Arc, Barrier, Mutex};

// ------------------------------------------------------------------ accounting allocator

pub mod ledger {
    use std::alloc::{GlobalAlloc, Layout, System};
    use std::cell::Cell;
    use std::sync::atomic::{AtomicBool, AtomicUsize, Ordering};

    #[derive(Clone, Copy, Default, Debug)]
    pub struct Ent {
        pub ptr: usize,
        pub size: usize,
        pub align: usize,
        /// 1 live, 2 freed (address not handed out again yet), 3 freed and address reused
        pub state: u8,
        pub window: usize,
        pub frees: usize,
        pub free_size: usize,
        pub free_align: usize,
        pub free_seq: usize,
        pub mismatch: bool,
    }

    const CAP: usize = 16384;
    struct Tab { n: usize, ent: [Ent; CAP] }
    const E0: Ent = Ent { ptr: 0, size: 0, align: 0, state: 0, window: 0, frees: 0, free_size: 0, free_align: 0, free_seq: 0, mismatch: false };
    static mut TAB: Tab = Tab { n: 0, ent: [E0; CAP] };
    static LOCK: AtomicBool = AtomicBool::new(false);
    /// number of entries in the table; the hooks do nothing but forward while it is 0 and no
    /// thread records — so other engines never pay more than one relaxed load per call
    static WATCH: AtomicUsize = AtomicUsize::new(0);
    static RECORDERS: AtomicUsize = AtomicUsize::new(0);
    static WINDOW: AtomicUsize = AtomicUsize::new(0);
    static SEQ: AtomicUsize = AtomicUsize::new(0);
    pub static MISMATCHES: AtomicUsize = AtomicUsize::new(0);
    pub static DOUBLE_FREES: AtomicUsize = AtomicUsize::new(0);
    pub static OVERFLOWS: AtomicUsize = AtomicUsize::new(0);

    thread_local! {
        static REC: Cell<usize> = const { Cell::new(0) };   // window id while recording, else 0
        static BUSY: Cell<bool> = const { Cell::new(false) };
    }

    fn lock() { while LOCK.compare_exchange_weak(false, true, Ordering::Acquire, Ordering::Relaxed).is_err() { std::hint::spin_loop(); } }
    fn unlock() { LOCK.store(false, Ordering::Release); }
    fn busy() -> bool { BUSY.try_with(|b| b.get()).unwrap_or(true) }
    fn rec_window() -> usize { REC.try_with(|r| r.get()).unwrap_or(0) }
    #[allow(static_mut_refs)]
    fn tab() -> &'static mut Tab { unsafe { &mut TAB } }

    pub struct Accounting;

    fn on_alloc(p: *mut u8, layout: Layout) {
        if p.is_null() || busy() { return; }
        let w = rec_window();
        if w == 0 && WATCH.load(Ordering::Relaxed) == 0 { return; }
        lock();
        let t = tab();
        for e in t.ent[..t.n].iter_mut() {
            if e.ptr == p as usize && e.state == 2 { e.state = 3; }
        }
        if w != 0 {
            if t.n < CAP {
                t.ent[t.n] = Ent { ptr: p as usize, size: layout.size(), align: layout.align(), state: 1, window: w, ..E0 };
                t.n += 1;
                WATCH.store(t.n, Ordering::Relaxed);
            } else {
                OVERFLOWS.fetch_add(1, Ordering::Relaxed);
            }
        }
        unlock();
    }

    /// returns false when the block must NOT be handed to the system allocator (double free)
    fn on_dealloc(p: *mut u8, layout: Layout) -> bool {
        if busy() || WATCH.load(Ordering::Relaxed) == 0 { return true; }
        lock();
        let t = tab();
        let mut forward = true;
        // newest entry for this address decides
        for e in t.ent[..t.n].iter_mut().rev() {
            if e.ptr != p as usize || e.state == 3 { continue; }
            if e.state == 1 {
                e.state = 2;
                e.frees += 1;
                e.free_size = layout.size();
                e.free_align = layout.align();
                e.free_seq = SEQ.fetch_add(1, Ordering::Relaxed) + 1;
                if layout.size() != e.size || layout.align() != e.align {
                    e.mismatch = true;
                    MISMATCHES.fetch_add(1, Ordering::Relaxed);
                }
                // quarantine: the block stays allocated until `reset`, so that a use after free
                // (e.g. a decrement of a freed count) cannot corrupt the heap and kill the
                // harness before the case is reported, and a second free of the same address is
                // unambiguous. Not poisoned: std's debug precondition checks would abort on a
                // poisoned `len`; the ledger, not the contents, is what reports the early free.
                forward = false;
            } else if e.state == 2 {
                e.frees += 1;
                DOUBLE_FREES.fetch_add(1, Ordering::Relaxed);
                forward = false;
            }
            break;
        }
        unlock();
        forward
    }

    unsafe impl GlobalAlloc for Accounting {
        unsafe fn alloc(&self, layout: Layout) -> *mut u8 {
            let p = System.alloc(layout);
            if WATCH.load(Ordering::Relaxed) != 0 || RECORDERS.load(Ordering::Relaxed) != 0 { on_alloc(p, layout); }
            p
        }
        unsafe fn alloc_zeroed(&self, layout: Layout) -> *mut u8 {
            let p = System.alloc_zeroed(layout);
            if WATCH.load(Ordering::Relaxed) != 0 || RECORDERS.load(Ordering::Relaxed) != 0 { on_alloc(p, layout); }
            p
        }
        unsafe fn dealloc(&self, p: *mut u8, layout: Layout) {
            if WATCH.load(Ordering::Relaxed) != 0 && !on_dealloc(p, layout) { return; }
            System.dealloc(p, layout)
        }
        unsafe fn realloc(&self, p: *mut u8, layout: Layout, new_size: usize) -> *mut u8 {
            if WATCH.load(Ordering::Relaxed) == 0 && RECORDERS.load(Ordering::Relaxed) == 0 {
                return System.realloc(p, layout, new_size);
            }
            // as alloc + copy + dealloc so that tracking stays exact
            let nl = Layout::from_size_align_unchecked(new_size, layout.align());
            let q = self.alloc(nl);
            if !q.is_null() {
                std::ptr::copy_nonoverlapping(p, q, layout.size().min(new_size));
                self.dealloc(p, layout);
            }
            q
        }
    }

    /// Run `f` with this thread's allocations tracked; returns the window id.
    pub fn record<R>(f: impl FnOnce() -> R) -> (R, usize) {
        let w = WINDOW.fetch_add(1, Ordering::Relaxed) + 1;
        RECORDERS.fetch_add(1, Ordering::SeqCst);
        REC.with(|r| r.set(w));
        struct Reset;
        impl Drop for Reset { fn drop(&mut self) { REC.with(|r| r.set(0)); RECORDERS.fetch_sub(1, Ordering::SeqCst); } }
        let _g = Reset;
        (f(), w)
    }

    pub fn seq() -> usize { SEQ.load(Ordering::Relaxed) }

    fn with_tab<R>(f: impl FnOnce(&mut Tab) -> R) -> R {
        BUSY.with(|b| b.set(true));
        lock();
        let r = f(tab());
        unlock();
        BUSY.with(|b| b.set(false));
        r
    }

    /// Entries allocated in window `w` (copied out).
    pub fn window(w: usize) -> Vec<Ent> {
        let mut out = Vec::with_capacity(16);
        BUSY.with(|b| b.set(true));
        lock();
        let t = tab();
        for e in t.ent[..t.n].iter() { if e.window == w { out.push(*e); } }
        unlock();
        BUSY.with(|b| b.set(false));
        out
    }

    pub fn reset() {
        with_tab(|t| {
            for e in t.ent[..t.n].iter() {
                if e.state == 2 { unsafe { System.dealloc(e.ptr as *mut u8, Layout::from_size_align_unchecked(e.size, e.align)); } }
            }
            t.n = 0;
        });
        WATCH.store(0, Ordering::Relaxed);
        MISMATCHES.store(0, Ordering::Relaxed);
        DOUBLE_FREES.store(0, Ordering::Relaxed);
        OVERFLOWS.store(0, Ordering::Relaxed);
    }
}

#[global_allocator]
static GLOBAL: ledger::Accounting = ledger::Accounting;

// ------------------------------------------------------------------ worker threads

type Job = Box<dyn FnOnce() + Send + 'static>;

struct Workers { tx: Vec<mpsc::Sender<Job>> }

const N_WORKERS: usize = 6;

impl Workers {
    fn new() -> Self {
        let mut tx = vec![];
        for i in 0..N_WORKERS {
            let (s, r) = mpsc::channel::<Job>();
            std::thread::Builder::new().name(format!("c16-w{i}")).spawn(move || { for j in r { j(); } }).unwrap();
            tx.push(s);
        }
        Workers { tx }
    }

    /// Run `f` on worker `t` and wait for it (so borrows in `f` stay valid).
    fn on<R: Send>(&self, t: usize, f: impl FnOnce() -> R + Send) -> R {
        let (dtx, drx) = mpsc::channel::<std::thread::Result<R>>();
        let job: Box<dyn FnOnce() + Send + '_> = Box::new(move || {
            let r = std::panic::catch_unwind(std::panic::AssertUnwindSafe(f));
            let _ = dtx.send(r);
        });
        // SAFETY: we block on `drx` below until the job has run to completion.
        let job: Job = unsafe { std::mem::transmute(job) };
        self.tx[t % N_WORKERS].send(job).expect("worker alive");
        match drx.recv().expect("worker answered") {
            Ok(r) => r,
            Err(p) => std::panic::resume_unwind(p),
        }
    }
}

// ------------------------------------------------------------------ independent helpers

/// UTF-8 by the definition (decode a scalar value, reject overlong forms, surrogates and values
/// above U+10FFFF); returns the length of the longest valid prefix.
fn utf8_valid_prefix(b: &[u8]) -> usize {
    let mut i = 0;
    while i < b.len() {
        let b0 = b[i] as u32;
        let (n, min, init) = if b0 < 0x80 { (1, 0, b0) }
            else if b0 & 0xE0 == 0xC0 { (2, 0x80, b0 & 0x1F) }
            else if b0 & 0xF0 == 0xE0 { (3, 0x800, b0 & 0x0F) }
            else if b0 & 0xF8 == 0xF0 { (4, 0x10000, b0 & 0x07) }
            else { return i };
        if i + n > b.len() { return i; }
        let mut cp = init;
        for k in 1..n {
            let c = b[i + k] as u32;
            if c & 0xC0 != 0x80 { return i; }
            cp = (cp << 6) | (c & 0x3F);
        }
        if cp < min || cp > 0x10FFFF || (0xD800..=0xDFFF).contains(&cp) { return i; }
        i += n;
    }
    i
}

fn is_hex(a: &str) -> bool { a == "-" || (a.len() % 2 == 0 && !a.is_empty() && a.bytes().all(|c| c.is_ascii_digit() || (b'a'..=b'f').contains(&c))) }

#[derive(Default)]
struct TokHasher(Vec<String>);
impl Hasher for TokHasher {
    fn finish(&self) -> u64 { 0 }
    fn write(&mut self, bytes: &[u8]) { self.0.push(format!("bytes:{}", hex(bytes))); }
    fn write_u8(&mut self, i: u8) { self.0.push(format!("u8:{i}")); }
    fn write_usize(&mut self, i: usize) { self.0.push(format!("len:{i}")); }
}
fn toks<T: Hash + ?Sized>(x: &T) -> String { let mut h = TokHasher::default(); x.hash(&mut h); h.0.join(" ") }

fn ord(o: std::cmp::Ordering) -> &'static str { match o { std::cmp::Ordering::Less => "lt", std::cmp::Ordering::Equal => "eq", std::cmp::Ordering::Greater => "gt" } }

// ------------------------------------------------------------------ minimal serde front-end

mod de {
    use serde::de::{self, Visitor};
    use std::fmt;

    #[derive(Debug)]
    pub struct Error(pub String);
    impl fmt::Display for Error { fn fmt(&self, f: &mut fmt::Formatter) -> fmt::Result { f.write_str(&self.0) } }
    impl std::error::Error for Error {}
    impl de::Error for Error { fn custom<T: fmt::Display>(msg: T) -> Self { Error(msg.to_string()) } }

    /// What the format hands to the visitor, whatever `deserialize_*` method was asked for.
    pub enum Feed<'a> { Str(&'a str), String(String), Bytes(&'a [u8]), ByteBuf(Vec<u8>) }

    pub struct D<'a>(pub Feed<'a>);

    impl<'de, 'a> de::Deserializer<'de> for D<'a> {
        type Error = Error;
        fn deserialize_any<V: Visitor<'de>>(self, v: V) -> Result<V::Value, Error> {
            match self.0 {
                Feed::Str(s) => v.visit_str(s),
                Feed::String(s) => v.visit_string(s),
                Feed::Bytes(b) => v.visit_bytes(b),
                Feed::ByteBuf(b) => v.visit_byte_buf(b),
            }
        }
        serde::forward_to_deserialize_any! {
            bool i8 i16 i32 i64 i128 u8 u16 u32 u64 u128 f32 f64 char str string bytes byte_buf option unit
            unit_struct newtype_struct seq tuple tuple_struct map struct enum identifier ignored_any
        }
    }
}

// ------------------------------------------------------------------ the engine

struct Buf {
    src: Vec<u8>,
    handles: BTreeMap<usize, (SharedBytes, usize)>,
    next: usize,
    window: usize,
    /// ledger sequence number when the construction window closed
    closed: usize,
    data_ptr: usize,
}

pub struct BytesEngine { workers: Option<Workers> }
impl Default for BytesEngine { fn default() -> Self { BytesEngine { workers: None } } }

const PATHS: &[&str] = &["slice", "fslice", "vec", "fvec", "boxed", "cowb", "cowo", "iter", "ldb", "ldo"];
const STR_KINDS: &[&str] = &["from_utf8", "from_str", "from_string", "cow_b", "cow_o", "loader_b", "loader_o", "de_str", "de_string", "de_bytes", "de_bytebuf"];

fn model_path(p: &str) -> &'static str {
    match p { "slice" | "fslice" => "slice", "vec" | "fvec" => "vec", "boxed" => "boxed", "cowb" | "ldb" => "cowb", "cowo" | "ldo" => "cowo", "iter" => "iter", _ => "?" }
}

/// Build through the named public path; returns the buffer and, when the path hands over a `Vec`
/// the harness built itself, that Vec's capacity.
fn build(path: &str, reqcap: usize, src: &[u8]) -> (SharedBytes, Option<usize>) {
    let mk_vec = || { let mut v: Vec<u8> = if reqcap == 0 && src.is_empty() { Vec::new() } else { Vec::with_capacity(reqcap.max(src.len())) }; v.extend_from_slice(src); v };
    match path {
        "slice" => (SharedBytes::from(src), None),
        "fslice" => (SharedBytes::from_slice(src), None),
        "vec" => { let v = mk_vec(); let c = v.capacity(); (SharedBytes::from(v), Some(c)) }
        "fvec" => { let v = mk_vec(); let c = v.capacity(); (SharedBytes::from_vec(v), Some(c)) }
        "boxed" => { let b: Box<[u8]> = mk_vec().into_boxed_slice(); let c = b.len(); (SharedBytes::from(b), Some(c)) }
        "cowb" => (SharedBytes::from(Cow::Borrowed(src)), None),
        "cowo" => { let v = mk_vec(); let c = v.capacity(); (SharedBytes::from(Cow::Owned(v)), Some(c)) }
        "iter" => {
            // exact size hint → exact capacity; unknown size hint → amortised growth (excess capacity)
            if reqcap == 0 { (src.iter().copied().collect::<SharedBytes>(), None) }
            else { (src.iter().copied().filter(|_| true).collect::<SharedBytes>(), None) }
        }
        "ldb" => (<BytesLoader as Loader<SharedBytes>>::load(Cow::Borrowed(src), "x").expect("BytesLoader"), None),
        "ldo" => { let v = mk_vec(); let c = v.capacity(); (<BytesLoader as Loader<SharedBytes>>::load(Cow::Owned(v), "x").expect("BytesLoader"), Some(c)) }
        other => panic!("bytes engine: unknown path {other}"),
    }
}

/// (header block, data block if separate) among the blocks of a construction window that were
/// still live when the window closed.
fn split_blocks(ents: &[ledger::Ent], data_ptr: usize, closed_seq: usize) -> (Vec<ledger::Ent>, Option<ledger::Ent>, Option<ledger::Ent>) {
    // blocks that survived the construction: never freed, or freed after the window closed
    let surv: Vec<ledger::Ent> = ents.iter().copied().filter(|e| e.frees == 0 || e.free_seq > closed_seq).collect();
    let vec = surv.iter().copied().find(|e| e.ptr == data_ptr && e.size > 0);
    let hdr = surv.iter().copied().find(|e| Some(e.ptr) != vec.map(|v| v.ptr));
    (surv, hdr, vec)
}

impl BytesEngine {
    fn workers(&mut self) -> &Workers { self.workers.get_or_insert_with(Workers::new) }
}

fn gen_bytes(rng: &mut Prng, n: usize) -> Vec<u8> {
    let mode = rng.below(4);
    (0..n).map(|i| match mode { 0 => (i % 251) as u8, 1 => 0, 2 => 0xff, _ => rng.below(256) as u8 }).collect()
}

fn pick_len(rng: &mut Prng, tier: Tier) -> usize {
    match rng.below(10) {
        0 => 0,
        1 => 1,
        2 => *rng.pick(&[7usize, 8, 9, 15, 16, 17, 31, 32, 33]),
        3 => *rng.pick(&[4095usize, 4096, 4097]),
        4 => if tier == Tier::Thorough { *rng.pick(&[65535usize, 65536, 65537]) } else { 8192 },
        _ => rng.range(2, 64),
    }
}

/// Interesting UTF-8 fragments: valid of each length, overlong, surrogates, > U+10FFFF, stray
/// continuation, truncated sequences, invalid lead bytes.
const FRAGS: &[&[u8]] = &[
    b"a", b"\x00", b"\x7f", b"\xc2\x80", b"\xdf\xbf", b"\xe0\xa0\x80", b"\xed\x9f\xbf", b"\xee\x80\x80", b"\xef\xbf\xbf",
    b"\xf0\x90\x80\x80", b"\xf4\x8f\xbf\xbf", b"\xe2\x82\xac", b"\xf0\x9f\x98\x80",
    b"\xc0\x80", b"\xc1\xbf", b"\xe0\x9f\xbf", b"\xf0\x8f\xbf\xbf", b"\xed\xa0\x80", b"\xed\xbf\xbf", b"\xf4\x90\x80\x80",
    b"\xf5\x80\x80\x80", b"\xf8\x88\x80\x80\x80", b"\x80", b"\xbf", b"\xc2", b"\xe2\x82", b"\xf0\x9f\x98", b"\xf0\x9f", b"\xfe", b"\xff",
    b"\xc2\x41", b"\xe2\x41\xac", b"\xe2\x82\x41", b"\xf0\x41\x98\x80",
];

fn gen_text(rng: &mut Prng) -> Vec<u8> {
    let mut v = vec![];
    let valid_only = rng.chance(1, 2);
    for _ in 0..rng.below(6) {
        let f = if valid_only { FRAGS[rng.below(13)] } else { *rng.pick(FRAGS) };
        v.extend_from_slice(f);
    }
    if !valid_only && rng.chance(1, 4) { let k = rng.below(v.len() + 1); v.truncate(k); }
    if rng.chance(1, 8) { v = (0..rng.below(5)).map(|_| rng.below(256) as u8).collect(); }
    v
}

impl Engine for BytesEngine {
    fn name(&self) -> &'static str { "bytes" }

    fn gen_case(&mut self, rng: &mut Prng, tier: Tier, idx: usize) -> Vec<String> {
        let mut l = vec![];
        match idx {
            0 => {
                // every path × boundary lengths × capacity classes, single thread
                let mut k = 0;
                for p in PATHS { for &n in &[0usize, 1, 7, 8, 9, 33] { for &extra in &[0usize, 1, 24] {
                    let src: Vec<u8> = (0..n).map(|i| (i * 7 + 1) as u8).collect();
                    let b = format!("b{k}"); k += 1;
                    l.push(format!("by.new {b} {p} {} {}", if extra == 0 { 0 } else { n + extra }, hex(&src)));
                    l.push(format!("by.deref {b} 0 0"));
                    l.push(format!("by.hash {b} 0"));
                    l.push(format!("by.drop {b} 0"));
                } } }
                // iterators whose exact-looking size hint is wrong (adapters that filter / expand but forward the inner hint)
                for &n in &[0usize, 1, 9, 33, 200] { for d in [-3i64, -1, 1, 3] {
                    let src: Vec<u8> = (0..n).map(|i| (i * 5 + 2) as u8).collect();
                    l.push(format!("by.iterlie {} {d}", if src.is_empty() { "-".to_string() } else { hex(&src) }));
                } }
                l.push("by.live".into());
            }
            1 => {
                // every order of dropping three handles that live on three threads
                let perms = [[0usize, 1, 2], [0, 2, 1], [1, 0, 2], [1, 2, 0], [2, 0, 1], [2, 1, 0]];
                let mut k = 0;
                for p in ["slice", "vec", "boxed", "iter"] { for pm in perms { for cap in [0usize, 12] {
                    let b = format!("b{k}"); k += 1;
                    l.push(format!("by.new {b} {p} {cap} 0a0b0c"));
                    l.push(format!("by.clone {b} 0 1"));
                    l.push(format!("by.clone {b} 1 2"));
                    l.push(format!("by.move {b} 0 3"));
                    for h in pm { l.push(format!("by.deref {b} {h} {}", (h + 1) % 4)); l.push(format!("by.drop {b} {h}")); l.push("by.live".into()); }
                } } }
            }
            2 => {
                // UTF-8: all single bytes, all (lead, continuation-boundary) pairs, the fragment table
                for b in 0..=255u8 { l.push(format!("by.str from_utf8 {}", hex(&[b]))); }
                for lead in [0xc0u8, 0xc1, 0xc2, 0xdf, 0xe0, 0xe1, 0xec, 0xed, 0xee, 0xef, 0xf0, 0xf1, 0xf3, 0xf4, 0xf5] {
                    for c1 in [0x7fu8, 0x80, 0x8f, 0x90, 0x9f, 0xa0, 0xbf, 0xc0] {
                        l.push(format!("by.str from_utf8 {}", hex(&[lead, c1])));
                        for c2 in [0x7fu8, 0x80, 0xbf, 0xc0] {
                            l.push(format!("by.str de_bytes {}", hex(&[lead, c1, c2])));
                            l.push(format!("by.str loader_b {}", hex(&[lead, c1, c2, 0x80])));
                        }
                    }
                }
                for f in FRAGS { for k in STR_KINDS { l.push(format!("by.str {k} {}", hex(f))); } }
                for f in FRAGS { for g in &FRAGS[..6] { if utf8_valid_prefix(f) == f.len() { l.push(format!("by.scmp {} {}", hex(f), hex(g))); } } }
                l.push("by.scmp - -".into());
                l.push("by.scmp - 61".into());
                for k in ["de_str", "de_string", "de_bytes", "de_bytebuf"] { for f in &FRAGS[..16] { l.push(format!("by.debytes {k} {}", hex(f))); } l.push(format!("by.debytes {k} -")); }
            }
            _ if idx % 6 == 3 => {
                // free-running stress (search for failing inputs; outcome must be the model's)
                let n = if rng.chance(1, 3) { 0 } else { pick_len(rng, tier).min(4096) };
                let src = gen_bytes(rng, n);
                let p = *rng.pick(PATHS);
                let cap = if rng.chance(1, 2) { 0 } else { n + rng.below(40) };
                let threads = rng.range(2, if tier == Tier::Thorough { 8 } else { 5 });
                let iters = if tier == Tier::Thorough { 100000 } else { 20000 };
                l.push(format!("by.stress {p} {cap} {} {threads} {iters} {}", hex(&src), rng.next() % 1000000));
            }
            _ if idx % 6 == 4 => {
                // strings
                for _ in 0..rng.range(5, 30) {
                    let t = gen_text(rng);
                    let k = *rng.pick(STR_KINDS);
                    match rng.below(6) {
                        0 => { let u = gen_text(rng); l.push(format!("by.scmp {} {}", hex(&t), hex(&u))); }
                        1 => l.push(format!("by.debytes {} {}", rng.pick(&["de_str", "de_string", "de_bytes", "de_bytebuf"]), hex(&t))),
                        _ => l.push(format!("by.str {k} {}", hex(&t))),
                    }
                }
            }
            _ => {
                // random forced schedule over a few buffers; ~8% of the ops name a dead / unknown handle
                let nb = rng.range(1, 3);
                let mut live: Vec<Vec<usize>> = vec![];
                let mut next: Vec<usize> = vec![];
                for b in 0..nb {
                    let big = tier == Tier::Thorough && idx % 97 == 5 && b == 0;
                    let n = if big { 1 << 20 } else { pick_len(rng, tier) };
                    let src = gen_bytes(rng, n);
                    let p = *rng.pick(PATHS);
                    let cap = match rng.below(3) { 0 => 0, 1 => n, _ => n + rng.range(1, 64) };
                    l.push(format!("by.new b{b} {p} {cap} {}", hex(&src)));
                    live.push(vec![0]); next.push(1);
                }
                for _ in 0..rng.range(4, 40) {
                    let b = rng.below(nb);
                    let wrong = rng.chance(2, 25);
                    let h = if wrong || live[b].is_empty() { rng.below(next[b] + 2) } else { *rng.pick(&live[b]) };
                    let alive = live[b].contains(&h);
                    let t = rng.below(N_WORKERS);
                    match rng.below(9) {
                        0 | 1 | 2 => { l.push(format!("by.clone b{b} {h} {t}")); if alive { live[b].push(next[b]); next[b] += 1; } }
                        3 | 4 => l.push(format!("by.deref b{b} {h} {t}")),
                        5 => l.push(format!("by.move b{b} {h} {t}")),
                        6 => { l.push(format!("by.drop b{b} {h}")); live[b].retain(|x| *x != h); }
                        7 => { let b2 = rng.below(nb); let h2 = if live[b2].is_empty() { 0 } else { *rng.pick(&live[b2]) }; l.push(format!("by.cmp b{b} {h} b{b2} {h2}")); }
                        _ => { l.push(format!("by.hash b{b} {h}")); l.push("by.live".into()); }
                    }
                }
                // mostly run every buffer to its end; sometimes leave handles to the case teardown
                if rng.chance(4, 5) { for b in 0..nb { let mut hs = live[b].clone(); rng.shuffle(&mut hs); for h in hs { l.push(format!("by.drop b{b} {h}")); } } l.push("by.live".into()); }
            }
        }
        l
    }

    fn exec_case(&mut self, lines: &[String], rec: &mut CaseRec) {
        self.workers();
        let workers = self.workers.as_ref().unwrap();
        ledger::reset();
        let mut bufs: BTreeMap<String, Buf> = BTreeMap::new();
        let num = |s: &str| -> Option<usize> { s.parse().ok() };

        for line in lines {
            let w: Vec<&str> = line.split_whitespace().collect();
            if w.is_empty() { continue; }
            // hand-written / shrunk lines may be malformed: the byte-string arguments must be hex
            let hex_args: &[usize] = match w[0] { "by.iterlie" if w.get(1) != Some(&"-") => &[1], "by.new" => &[4], "by.stress" => &[3], "by.str" | "by.debytes" => &[2], "by.scmp" => &[1, 2], _ => &[] };
            if hex_args.iter().any(|&i| w.get(i).map(|a| !is_hex(a)).unwrap_or(false)) { rec.op(line.clone(), "bad-op"); rec.stat("op/malformed"); continue; }
            match (w[0], w.len()) {
                ("by.new", 5) => {
                    let (b, path) = (w[1], w[2]);
                    let (Some(reqcap), true) = (num(w[3]), PATHS.contains(&path)) else { rec.op(line.clone(), "bad-op"); continue };
                    let src = unhex(w[4]);
                    let ((sb, cap), win) = workers.on(0, || ledger::record(|| build(path, reqcap, &src)));
                    let closed = ledger::seq();
                    let data_ptr = sb.as_ptr() as usize;
                    let ents = ledger::window(win);
                    let (surv, hdr, vec) = split_blocks(&ents, data_ptr, closed);
                    let cap = cap.unwrap_or_else(|| vec.map(|v| v.size).unwrap_or(0));
                    let content = sb.to_vec();
                    let hdr_s = hdr.map(|h| format!("{}/{}", h.size, h.align)).unwrap_or("?".into());
                    rec.op(format!("by.new {b} {} {cap} {}", model_path(path), w[4]),
                           format!("ok {} hdr={hdr_s} vec={}", hex(&content), vec.map(|v| v.size.to_string()).unwrap_or("-".into())));
                    rec.stat(format!("new/{path}"));
                    rec.stat(format!("new/len={}", match src.len() { 0 => "0", 1..=8 => "1-8", 9..=64 => "9-64", 65..=4097 => "65-4097", _ => ">4097" }));
                    rec.stat(format!("new/cap={}", if cap == 0 { "0" } else if cap == src.len() { "=len" } else { ">len" }));
                    rec.stat(if vec.is_some() { "new/branch=vec" } else if cap == 0 && model_path(path) != "slice" && model_path(path) != "cowb" { "new/branch=vec-without-allocation" } else { "new/branch=inline" });
                    // oracle
                    if content != src { rec.oracle_fail(format!("content-differs {path} len={} cap={cap}: deref yields {} bytes, first difference at {:?}", src.len(), content.len(), content.iter().zip(&src).position(|(a, b)| a != b))); }
                    if hdr.is_none() || surv.len() > 2 || (surv.len() == 2 && vec.is_none()) { rec.oracle_fail(format!("unexpected-blocks {path} len={} cap={cap}: {} blocks survive construction", src.len(), surv.len())); }
                    if let Some(old) = bufs.insert(b.to_string(), Buf { src, handles: BTreeMap::from([(0, (sb, 0))]), next: 1, window: win, closed, data_ptr }) {
                        // name reused by a hand-written case: retire the old buffer
                        workers.on(0, move || drop(old));
                    }
                    rec.nontrivial = true;
                }
                ("by.iterlie", 3) => {
                    // `collect::<SharedBytes>()` from an iterator that lies about its length, against `Vec`'s collect on the same iterator
                    let src = if w[1] == "-" { vec![] } else { unhex(w[1]) };
                    let d: i64 = w[2].parse().unwrap_or(0);
                    struct Lie<I> { it: I, hint: usize }
                    impl<I: Iterator<Item = u8>> Iterator for Lie<I> { type Item = u8; fn next(&mut self) -> Option<u8> { self.it.next() } fn size_hint(&self) -> (usize, Option<usize>) { (self.hint, Some(self.hint)) } }
                    let hint = (src.len() as i64 + d).max(0) as usize;
                    let via_vec: Vec<u8> = Lie { it: src.clone().into_iter(), hint }.collect();
                    let sb: SharedBytes = workers.on(0, { let src = src.clone(); move || Lie { it: src.into_iter(), hint }.collect::<SharedBytes>() });
                    let same = sb.len() == src.len() && &*sb == &src[..] && via_vec == src;
                    rec.nontrivial = true;
                    rec.stat(format!("iterlie/{}", if d < 0 { "hint-too-small" } else { "hint-too-large" }));
                    if !same { rec.oracle_fail(format!("content-differs collect::<SharedBytes>() from an iterator of {} bytes whose size_hint says exactly {hint}: got {} bytes{}", src.len(), sb.len(), if sb.len() == src.len() { " with different content" } else { "" })); }
                    workers.on(0, move || drop(sb));
                    rec.op(format!("by.iterlie {} {d}", src.len()), if same { "same" } else { "differs" });
                }
                ("by.clone", 4) | ("by.deref", 4) | ("by.move", 4) => {
                    let (Some(h), Some(t)) = (num(w[2]), num(w[3])) else { rec.op(line.clone(), "bad-op"); continue };
                    let Some(buf) = bufs.get_mut(w[1]) else { rec.op(line.clone(), "bad-op"); continue };
                    let Some((sb, owner)) = buf.handles.get_mut(&h) else { rec.op(line.clone(), "no-handle"); rec.stat("op/no-handle"); continue };
                    match w[0] {
                        "by.clone" => {
                            let sbr: &SharedBytes = sb;
                            let c = workers.on(t, || if t % 2 == 0 { sbr.clone() } else { SharedBytes::from(sbr) });
                            if c.as_ptr() as usize != buf.data_ptr { rec.oracle_fail("clone-not-aliased a clone points at different memory".to_string()); }
                            let id = buf.next; buf.next += 1;
                            buf.handles.insert(id, (c, t));
                            rec.op(line.clone(), format!("ok {id}"));
                            rec.stat(if t % 2 == 0 { "op/clone" } else { "op/clone-via-from-ref" });
                        }
                        "by.deref" => {
                            let sbr: &SharedBytes = sb;
                            let (content, ptr) = workers.on(t, || (sbr.to_vec(), sbr.as_ptr() as usize));
                            rec.op(line.clone(), hex(&content));
                            rec.stat(if *owner == t { "op/deref-by-owner" } else { "op/deref-cross-thread" });
                            if content != buf.src { rec.oracle_fail(format!("content-differs deref of handle {h} on thread {t} differs from the source (len {})", buf.src.len())); }
                            if ptr != buf.data_ptr { rec.oracle_fail("clone-not-aliased handles of one buffer point at different memory".to_string()); }
                            let a: &[u8] = sbr.as_ref(); let bb: &[u8] = std::borrow::Borrow::borrow(sbr);
                            if a != &buf.src[..] || bb != &buf.src[..] { rec.oracle_fail("content-differs as_ref / borrow differ from the source".to_string()); }
                        }
                        _ => { *owner = t; rec.op(line.clone(), "ok"); rec.stat("op/move"); }
                    }
                }
                ("by.drop", 3) => {
                    let Some(h) = num(w[2]) else { rec.op(line.clone(), "bad-op"); continue };
                    let Some(buf) = bufs.get_mut(w[1]) else { rec.op(line.clone(), "bad-op"); continue };
                    let Some((sb, owner)) = buf.handles.remove(&h) else { rec.op(line.clone(), "no-handle"); rec.stat("op/no-handle"); continue };
                    let before = ledger::seq();
                    workers.on(owner, move || drop(sb));
                    let ents = ledger::window(buf.window);
                    let (surv, hdr, vec) = split_blocks(&ents, buf.data_ptr, buf.closed);
                    let freed_now = |e: &ledger::Ent| e.frees > 0 && e.free_seq > before;
                    let hdr_f = hdr.filter(|e| freed_now(e));
                    let vec_f = vec.filter(|e| freed_now(e));
                    let last = buf.handles.is_empty();
                    let res = if hdr_f.is_none() && vec_f.is_none() { "kept".to_string() } else {
                        format!("freed hdr={} vec={}", hdr_f.map(|e| format!("{}/{}", e.free_size, e.free_align)).unwrap_or("-".into()), vec_f.map(|e| e.free_size.to_string()).unwrap_or("-".into()))
                    };
                    rec.op(line.clone(), res);
                    rec.stat(if last { format!("op/drop-last-on-thread-{}", if owner == 0 { "of-construction" } else { "other" }) } else { "op/drop-not-last".to_string() });
                    // oracle: nothing goes while a handle lives; everything goes, once, with the last
                    let any_freed = surv.iter().any(|e| e.frees > 0);
                    if !last && any_freed { rec.oracle_fail(format!("freed-while-shared a block of the buffer was freed although {} handle(s) are alive", buf.handles.len())); }
                    if last {
                        for e in &surv {
                            if e.frees == 0 { rec.oracle_fail(format!("leak block of {} bytes (align {}) still allocated after the last handle was dropped", e.size, e.align)); }
                            if e.frees > 1 { rec.oracle_fail(format!("double-free block of {} bytes freed {} times", e.size, e.frees)); }
                            if e.mismatch { rec.oracle_fail(format!("layout-mismatch block allocated as {}/{} deallocated as {}/{}", e.size, e.align, e.free_size, e.free_align)); }
                        }
                    }
                }
                ("by.cmp", 5) => {
                    let get = |b: &str, h: &str| -> Option<(&SharedBytes, &Vec<u8>)> { let bf = bufs.get(b)?; let (s, _) = bf.handles.get(&num(h)?)?; Some((s, &bf.src)) };
                    let (Some((x, xs)), Some((y, ys))) = (get(w[1], w[2]), get(w[3], w[4])) else { rec.op(line.clone(), "no-handle"); continue };
                    let eq = x == y; let c = x.cmp(y);
                    rec.op(line.clone(), format!("eq={eq} cmp={}", ord(c)));
                    rec.stat(format!("op/cmp-{}", ord(c)));
                    let ok = eq == (xs == ys) && c == xs.cmp(ys) && x.partial_cmp(y) == Some(xs.cmp(ys))
                        && (*x == ys[..]) == (xs == ys) && (*x == &ys[..]) == (xs == ys) && (*x == *ys) == (xs == ys)
                        && x.partial_cmp(&ys[..]) == Some(xs.cmp(ys));
                    if !ok { rec.oracle_fail(format!("cmp-not-slice-like comparison of {} and {} differs from the slices'", hex(xs), hex(ys))); }
                }
                ("by.hash", 3) => {
                    let Some((x, xs)) = bufs.get(w[1]).and_then(|bf| Some((&bf.handles.get(&num(w[2])?)?.0, &bf.src))) else { rec.op(line.clone(), "no-handle"); continue };
                    let t = toks(x);
                    rec.op(line.clone(), t.clone());
                    rec.stat("op/hash");
                    if t != toks(&xs[..]) { rec.oracle_fail(format!("hash-not-slice-like SharedBytes feeds the hasher [{t}], the slice feeds [{}]", toks(&xs[..]))); }
                    // what Borrow<[u8]> promises: a set keyed by SharedBytes is found by the slice
                    let mut set = std::collections::HashSet::new(); set.insert(x.clone());
                    if !set.contains(&xs[..]) { rec.oracle_fail("hash-not-slice-like HashSet<SharedBytes> lookup by slice fails".to_string()); }
                }
                ("by.live", 1) => {
                    let mut n = 0;
                    for bf in bufs.values() { let (surv, _, _) = split_blocks(&ledger::window(bf.window), bf.data_ptr, bf.closed); n += surv.iter().filter(|e| e.frees == 0).count(); }
                    rec.op(line.clone(), n.to_string());
                }
                ("by.stress", 7) => {
                    let (path, Some(reqcap), Some(threads), Some(iters), Some(seed)) = (w[1], num(w[2]), num(w[4]), num(w[5]), num(w[6])) else { rec.op(line.clone(), "bad-op"); continue };
                    if !PATHS.contains(&path) || threads == 0 || threads > 64 { rec.op(line.clone(), "bad-op"); continue }
                    let src = Arc::new(unhex(w[3]));
                    let ((sb, cap), win) = ledger::record(|| build(path, reqcap, &src));
                    let closed = ledger::seq();
                    let data_ptr = sb.as_ptr() as usize;
                    let (_, _, vec0) = split_blocks(&ledger::window(win), data_ptr, closed);
                    let cap = cap.unwrap_or_else(|| vec0.map(|v| v.size).unwrap_or(0));
                    let pool: Arc<Mutex<Vec<SharedBytes>>> = Arc::new(Mutex::new(vec![]));
                    let bad = Arc::new(Mutex::new(Vec::<String>::new()));
                    let bar = Arc::new(Barrier::new(threads));
                    let hs: Vec<_> = (0..threads).map(|t| {
                        let (mine, src, pool, bad, bar) = (sb.clone(), src.clone(), pool.clone(), bad.clone(), bar.clone());
                        let mut rng = Prng::new(seed as u64 * 131 + t as u64);
                        std::thread::spawn(move || {
                            let mut local = vec![mine];
                            bar.wait();
                            for _ in 0..iters {
                                match rng.below(8) {
                                    0 | 1 => if let Some(x) = local.last() { if local.len() < 64 { let c = x.clone(); local.push(c); } },
                                    2 | 3 => { if local.len() > 1 || rng.chance(1, 16) { local.pop(); } }
                                    4 => if let Some(x) = local.last() { if x[..] != src[..] { bad.lock().unwrap().push(format!("content-differs thread {t} read different bytes")); } },
                                    5 => if let Some(x) = local.pop() { pool.lock().unwrap().push(x); },
                                    6 => { let got = pool.lock().unwrap().pop(); if let Some(x) = got { if x.len() != src.len() { bad.lock().unwrap().push("content-differs length changed".into()); } local.push(x); } }
                                    _ => { let got = pool.lock().unwrap().pop(); drop(got); }
                                }
                            }
                        })
                    }).collect();
                    drop(sb); // the constructing thread lets go while the others run
                    for h in hs { h.join().unwrap(); }
                    let rest = std::mem::take(&mut *pool.lock().unwrap());
                    let (mid, _, _) = split_blocks(&ledger::window(win), data_ptr, closed);
                    let early = !rest.is_empty() && mid.iter().any(|e| e.frees > 0);
                    drop(rest);
                    let (surv, hdr, vec) = split_blocks(&ledger::window(win), data_ptr, closed);
                    rec.op(format!("by.final {} {cap} {}", model_path(path), w[3]),
                           format!("freed hdr={} vec={}", hdr.filter(|e| e.frees > 0).map(|e| format!("{}/{}", e.free_size, e.free_align)).unwrap_or("-".into()),
                                   vec.filter(|e| e.frees > 0).map(|e| e.free_size.to_string()).unwrap_or("-".into())));
                    rec.stat(format!("stress/threads={threads}"));
                    rec.stat(format!("stress/{path}"));
                    for m in bad.lock().unwrap().iter().take(3) { rec.oracle_fail(m.clone()); }
                    if early { rec.oracle_fail("freed-while-shared a block was freed while handles were still parked in the exchange pool".to_string()); }
                    for e in &surv {
                        if e.frees == 0 { rec.oracle_fail(format!("leak after all threads dropped their handles a block of {} bytes is still allocated", e.size)); }
                        if e.frees > 1 { rec.oracle_fail(format!("double-free block of {} bytes freed {} times under concurrency", e.size, e.frees)); }
                        if e.mismatch { rec.oracle_fail(format!("layout-mismatch block allocated as {}/{} deallocated as {}/{}", e.size, e.align, e.free_size, e.free_align)); }
                    }
                    rec.nontrivial = true;
                }
                ("by.str", 3) => {
                    let kind = w[1];
                    if !STR_KINDS.contains(&kind) { rec.op(line.clone(), "bad-op"); continue }
                    let b = unhex(w[2]);
                    let as_str = std::str::from_utf8(&b).ok();
                    let typed = matches!(kind, "from_str" | "from_string" | "cow_b" | "cow_o" | "de_str" | "de_string");
                    if typed && as_str.is_none() { rec.op(line.clone(), "bad-op"); rec.stat("str/untypable-input"); continue }
                    // Ok(bytes, as_str bytes, to_string bytes, display bytes) | Err(valid_up_to)
                    let (out, win) = ledger::record(|| -> Result<(Vec<u8>, Vec<u8>, Vec<u8>, Vec<u8>), Option<usize>> {
                        let r: Result<SharedString, Option<usize>> = match kind {
                            "from_utf8" => SharedString::from_utf8(SharedBytes::from_slice(&b)).map_err(|e| Some(e.valid_up_to())),
                            "from_str" => Ok(SharedString::from(as_str.unwrap())),
                            "from_string" => Ok(SharedString::from(as_str.unwrap().to_string())),
                            "cow_b" => Ok(SharedString::from(Cow::Borrowed(as_str.unwrap()))),
                            "cow_o" => Ok(SharedString::from(Cow::<str>::Owned(as_str.unwrap().to_string()))),
                            "loader_b" => <StringLoader as Loader<SharedString>>::load(Cow::Borrowed(&b), "x").map_err(|_| None),
                            "loader_o" => <StringLoader as Loader<SharedString>>::load(Cow::Owned(b.clone()), "x").map_err(|_| None),
                            "de_str" => serde::Deserialize::deserialize(de::D(de::Feed::Str(as_str.unwrap()))).map_err(|_: de::Error| None),
                            "de_string" => serde::Deserialize::deserialize(de::D(de::Feed::String(as_str.unwrap().to_string()))).map_err(|_: de::Error| None),
                            "de_bytes" => serde::Deserialize::deserialize(de::D(de::Feed::Bytes(&b))).map_err(|_: de::Error| None),
                            _ => serde::Deserialize::deserialize(de::D(de::Feed::ByteBuf(b.clone()))).map_err(|_: de::Error| None),
                        };
                        r.map(|s| {
                            let c = s.clone();
                            let a: &[u8] = s.as_ref();
                            let disp = format!("{s}").into_bytes();
                            let res = (a.to_vec(), s.as_str().as_bytes().to_vec(), s.to_string().into_bytes(), disp);
                            let back = c.into_bytes();
                            assert!(back[..] == res.0[..], "into_bytes differs");
                            res
                        })
                    });
                    let vp = utf8_valid_prefix(&b);
                    let valid = vp == b.len();
                    rec.stat(format!("str/{kind}"));
                    rec.stat(if valid { "str/valid" } else { "str/invalid" });
                    match &out {
                        Ok((bytes, s1, s2, s3)) => {
                            rec.op(line.clone(), format!("ok {}", hex(bytes)));
                            if !valid { rec.oracle_fail(format!("invalid-utf8-accepted {kind} accepted {} (valid only up to byte {vp})", w[2])); }
                            if bytes != &b || s1 != &b || s2 != &b || s3 != &b { rec.oracle_fail(format!("string-content-differs {kind} of {} yields {}", w[2], hex(bytes))); }
                        }
                        Err(v) => {
                            rec.op(line.clone(), match (kind, v) { ("from_utf8", Some(v)) => format!("err {v}"), _ => "err".to_string() });
                            if valid { rec.oracle_fail(format!("valid-utf8-rejected {kind} rejected {}", w[2])); }
                            if let Some(v) = v { if *v != vp { rec.oracle_fail(format!("wrong-valid-up-to reported {v}, longest valid prefix of {} is {vp}", w[2])); } }
                        }
                    }
                    drop(out);
                    for e in ledger::window(win) {
                        if e.frees == 0 { rec.oracle_fail(format!("leak {kind} on {}: block of {} bytes never freed", w[2], e.size)); }
                        if e.mismatch { rec.oracle_fail(format!("layout-mismatch {kind}: allocated {}/{} freed as {}/{}", e.size, e.align, e.free_size, e.free_align)); }
                    }
                    rec.nontrivial = true;
                }
                ("by.scmp", 3) => {
                    let (a, b) = (unhex(w[1]), unhex(w[2]));
                    let (Ok(sa), Ok(sb)) = (std::str::from_utf8(&a), std::str::from_utf8(&b)) else { rec.op(line.clone(), "bad-op"); continue };
                    // everything that builds / clones a buffer runs inside a recording window, so
                    // that a wrong free goes to the ledger's quarantine and not to the heap
                    let ((eq, c, t, ok, found), win) = ledger::record(|| {
                        let (x, y) = (SharedString::from(sa), SharedString::from(sb.to_string()));
                        let (eq, c, t) = (x == y, x.cmp(&y), toks(&x));
                        let ok = eq == (sa == sb) && c == sa.cmp(sb) && x.partial_cmp(&y) == Some(sa.cmp(sb)) && x.partial_cmp(sb) == Some(sa.cmp(sb))
                            && (x == *sb) == (sa == sb) && (x == sb) == (sa == sb) && (x == sb.to_string()) == (sa == sb) && c == a.cmp(&b);
                        let mut set = std::collections::HashSet::new(); set.insert(x.clone());
                        (eq, c, t, ok, set.contains(sa))
                    });
                    rec.op(line.clone(), format!("eq={eq} cmp={} hash={t}", ord(c)));
                    rec.stat(format!("str/cmp-{}", ord(c)));
                    if !ok { rec.oracle_fail(format!("cmp-not-slice-like SharedString comparison of {} and {} differs from str's", w[1], w[2])); }
                    if t != toks(sa) { rec.oracle_fail(format!("hash-not-slice-like SharedString feeds the hasher [{t}], str feeds [{}]", toks(sa))); }
                    if !found { rec.oracle_fail("hash-not-slice-like HashSet<SharedString> lookup by &str fails".to_string()); }
                    drop(t);
                    for e in ledger::window(win) {
                        if e.frees == 0 && e.align == 8 { rec.oracle_fail(format!("leak comparison of two strings: block of {} bytes never freed", e.size)); }
                        if e.mismatch { rec.oracle_fail(format!("layout-mismatch allocated {}/{} freed as {}/{}", e.size, e.align, e.free_size, e.free_align)); }
                    }
                    rec.nontrivial = true;
                }
                ("by.debytes", 3) => {
                    let b = unhex(w[2]);
                    let as_str = std::str::from_utf8(&b).ok();
                    let (r, win) = ledger::record(|| -> Option<Result<Vec<u8>, de::Error>> {
                        let r: Option<Result<SharedBytes, de::Error>> = match (w[1], as_str) {
                            ("de_str", Some(s)) => Some(serde::Deserialize::deserialize(de::D(de::Feed::Str(s)))),
                            ("de_string", Some(s)) => Some(serde::Deserialize::deserialize(de::D(de::Feed::String(s.to_string())))),
                            ("de_bytes", _) => Some(serde::Deserialize::deserialize(de::D(de::Feed::Bytes(&b)))),
                            ("de_bytebuf", _) => Some(serde::Deserialize::deserialize(de::D(de::Feed::ByteBuf(b.clone())))),
                            _ => None,
                        };
                        r.map(|x| x.map(|s| { let c = s.clone(); drop(s); c.to_vec() }))
                    });
                    match &r {
                        None => rec.op(line.clone(), "bad-op"),
                        Some(Ok(s)) => { rec.op(line.clone(), format!("ok {}", hex(s))); if s[..] != b[..] { rec.oracle_fail(format!("content-differs serde {} of {} yields {}", w[1], w[2], hex(s))); } }
                        Some(Err(e)) => { rec.op(line.clone(), "err"); rec.oracle_fail(format!("bytes-deserialize-rejected {} rejected {}: {}", w[1], w[2], e.0)); }
                    }
                    drop(r);
                    for e in ledger::window(win) {
                        if e.frees == 0 { rec.oracle_fail(format!("leak serde {} of {}: block of {} bytes never freed", w[1], w[2], e.size)); }
                        if e.mismatch { rec.oracle_fail(format!("layout-mismatch allocated {}/{} freed as {}/{}", e.size, e.align, e.free_size, e.free_align)); }
                    }
                    rec.stat(format!("debytes/{}", w[1]));
                    rec.nontrivial = true;
                }
                _ => { rec.op(line.clone(), "bad-op"); rec.stat("op/malformed"); }
            }
        }
        // teardown: whatever the case left alive is dropped by its owner; then nothing may remain
        let mut left = 0;
        for (_, bf) in bufs.iter_mut() {
            let hs = std::mem::take(&mut bf.handles);
            left += hs.len();
            for (_, (sb, owner)) in hs { workers.on(owner, move || drop(sb)); }
            let (surv, _, _) = split_blocks(&ledger::window(bf.window), bf.data_ptr, bf.closed);
            for e in &surv {
                if e.frees != 1 { rec.oracle_fail(format!("{} at teardown a block of {} bytes was freed {} times", if e.frees == 0 { "leak" } else { "double-free" }, e.size, e.frees)); }
                if e.mismatch { rec.oracle_fail(format!("layout-mismatch block allocated as {}/{} deallocated as {}/{}", e.size, e.align, e.free_size, e.free_align)); }
            }
        }
        if left > 0 { rec.stat("case/handles-left-to-teardown"); }
        use std::sync::atomic::Ordering::Relaxed;
        if ledger::DOUBLE_FREES.load(Relaxed) > 0 { rec.oracle_fail(format!("double-free {} deallocation(s) of an already freed tracked block", ledger::DOUBLE_FREES.load(Relaxed))); }
        if ledger::MISMATCHES.load(Relaxed) > 0 { rec.oracle_fail(format!("layout-mismatch {} deallocation(s) with a layout other than the allocation's", ledger::MISMATCHES.load(Relaxed))); }
        if ledger::OVERFLOWS.load(Relaxed) > 0 { rec.stat("ledger/table-full"); }
        ledger::reset();
    }
}
