//! Shared by the engines `src` (C04) and `dir` (C11): the generated tree, its materialisation as
//! a temp directory / zip / tar / `RawEmbedded`, the archive member list, and the independent
//! oracle ("what the tree says"), written from the property statement.

use crate::common::*;
use assets_manager::source::{DirEntry, Embedded, FileSystem, RawEmbedded, Source, Tar, Zip};
use std::{io, io::Write, path::PathBuf, sync::atomic::{AtomicUsize, Ordering}};

#[derive(Clone, Debug)]
pub struct TFile { pub dir: Vec<String>, pub stem: String, pub ext: String, pub bytes: Vec<u8> }

#[derive(Clone, Debug, Default)]
pub struct Tree { pub files: Vec<TFile>, pub dirs: Vec<Vec<String>> }

#[derive(Clone, Debug)]
pub struct Member { pub is_file: bool, pub path: String, pub bytes: Vec<u8> }

pub fn join_id(comps: &[String]) -> String { comps.join(".") }

impl TFile {
    pub fn id(&self) -> String { let mut c = self.dir.clone(); c.push(self.stem.clone()); join_id(&c) }
    pub fn name(&self) -> String { if self.ext.is_empty() { self.stem.clone() } else { format!("{}.{}", self.stem, self.ext) } }
    pub fn path(&self) -> String { let mut c = self.dir.clone(); c.push(self.name()); c.join("/") }
}

pub fn render_file(id: &str, ext: &str) -> String { format!("f:{}:{}", hexs(id), hexs(ext)) }
pub fn render_dir(id: &str) -> String { format!("d:{}", hexs(id)) }

impl Tree {
    pub fn is_empty(&self) -> bool { self.files.is_empty() && self.dirs.is_empty() }
    pub fn is_dir(&self, id: &str) -> bool { id.is_empty() || self.dirs.iter().any(|q| join_id(q) == id) }
    pub fn read(&self, id: &str, ext: &str) -> Option<&[u8]> {
        self.files.iter().find(|f| f.id() == id && f.ext == ext).map(|f| &f.bytes[..])
    }
    /// Direct children of directory `id`, rendered and sorted.
    pub fn children(&self, id: &str) -> Vec<String> {
        let mut v = vec![];
        for f in &self.files { if join_id(&f.dir) == id { v.push(render_file(&f.id(), &f.ext)); } }
        for q in &self.dirs { if join_id(&q[..q.len() - 1]) == id { v.push(render_dir(&join_id(q))); } }
        v.sort();
        v
    }
    /// The statement's "directory tree with valid names": names non-empty without '.', '/', NUL;
    /// every directory of an entry is listed; no two files with one (id, ext), no two directories
    /// with one id; an extension-less file and a directory do not share a name.
    pub fn valid(&self) -> bool {
        let name_ok = |n: &String| !n.is_empty() && !n.contains(['.', '/', '\0']);
        let ext_ok = |n: &String| !n.contains(['.', '/', '\0']);
        let listed = |d: &[String]| d.is_empty() || self.dirs.iter().any(|q| q == d);
        self.files.iter().all(|f| f.dir.iter().all(name_ok) && name_ok(&f.stem) && ext_ok(&f.ext) && listed(&f.dir))
            && self.dirs.iter().all(|q| !q.is_empty() && q.iter().all(name_ok) && listed(&q[..q.len() - 1]))
            && { let mut k: Vec<(String, &String)> = self.files.iter().map(|f| (f.id(), &f.ext)).collect(); k.sort(); k.windows(2).all(|w| w[0] != w[1]) }
            && { let mut k: Vec<&Vec<String>> = self.dirs.iter().collect(); k.sort(); k.windows(2).all(|w| w[0] != w[1]) }
            && self.files.iter().all(|f| !f.ext.is_empty() || !self.dirs.iter().any(|q| join_id(q) == f.id()))
    }
    pub fn is_extless_file(&self, id: &str) -> bool { self.files.iter().any(|f| f.ext.is_empty() && f.id() == id) }
    pub fn lines(&self) -> Vec<String> {
        let mut l = vec![];
        for q in &self.dirs { l.push(format!("s.dir {}", q.iter().map(|c| hexs(c)).collect::<Vec<_>>().join(" "))); }
        for f in &self.files {
            let mut c: Vec<String> = f.dir.iter().map(|c| hexs(c)).collect();
            c.push(hexs(&f.stem));
            l.push(format!("s.file {} {} {}", hexs(&f.ext), hex(&f.bytes), c.join(" ")));
        }
        l
    }
    /// Ids of the tree's directories that are *below or equal to* `d` (as ids), `d` included.
    pub fn dirs_below(&self, d: &str) -> Vec<String> {
        let mut v = vec![d.to_string()];
        for q in &self.dirs {
            let id = join_id(q);
            if d.is_empty() || id.starts_with(&format!("{d}.")) { v.push(id); }
        }
        v
    }
}

pub fn well_formed_id(id: &str) -> bool { id.is_empty() || id.split('.').all(|c| !c.is_empty() && !c.contains('/')) }

// ------------------------------------------------------------------ generator

const STEMS: &[&str] = &["a", "b", "c", "d", "e", "A", "x y", "é", "日本", "_", "-x", "a b c", "ß"];
const EXTS: &[&str] = &["", "x", "a", "b", "c", "txt", "é", "x y", "A"];

fn long_name(rng: &mut Prng) -> String { let c = *rng.pick(&['l', 'm', 'n']); std::iter::repeat(c).take(200).collect() }

fn gen_dir(rng: &mut Prng, t: &mut Tree, path: &[String], depth: usize, max_depth: usize, fan: usize) {
    let nfiles = rng.below(fan + 1);
    let ndirs = if depth < max_depth { rng.below(fan.min(3) + 1) } else { 0 };
    let mut dir_names: Vec<String> = vec![];
    for _ in 0..ndirs {
        let n = if rng.chance(1, 25) { long_name(rng) } else { rng.pick(STEMS).to_string() };
        if !dir_names.contains(&n) { dir_names.push(n); }
    }
    let mut used: Vec<(String, String)> = vec![];
    for _ in 0..nfiles {
        // favour: same stem with several extensions, a file sharing its id with a directory
        let stem = if !used.is_empty() && rng.chance(1, 3) { used[rng.below(used.len())].0.clone() }
            else if !dir_names.is_empty() && rng.chance(1, 4) { rng.pick(&dir_names).clone() }
            else if rng.chance(1, 30) { long_name(rng) } else { rng.pick(STEMS).to_string() };
        let ext = rng.pick(EXTS).to_string();
        if used.contains(&(stem.clone(), ext.clone())) { continue; }
        if ext.is_empty() && dir_names.contains(&stem) { continue; } // cannot exist on a file system
        used.push((stem.clone(), ext.clone()));
        let len = if rng.chance(1, 10) { 0 } else if rng.chance(1, 12) { rng.range(1000, 70000) } else { rng.range(1, 40) };
        let bytes: Vec<u8> = (0..len).map(|_| rng.next() as u8).collect();
        t.files.push(TFile { dir: path.to_vec(), stem, ext, bytes });
    }
    for n in dir_names {
        let mut p = path.to_vec();
        p.push(n);
        t.dirs.push(p.clone());
        gen_dir(rng, t, &p, depth + 1, max_depth, fan);
    }
}

pub fn gen_tree(rng: &mut Prng, tier: Tier) -> Tree {
    let mut t = Tree::default();
    let max_depth = rng.range(0, 4);
    let fan = if tier == Tier::Thorough { *rng.pick(&[2usize, 3, 5, 8, 12]) } else { *rng.pick(&[1usize, 2, 3, 5]) };
    gen_dir(rng, &mut t, &[], 0, max_depth, fan);
    t
}

/// The small trees of the bounded-exhaustive slice: every closed subset of
/// { a.x, a (no extension), d/, d/b.x, d/e/ } — 20 trees, the empty one included.
pub fn small_tree(k: usize) -> Tree {
    let mut t = Tree::default();
    let top = k % 4;
    let d = (k / 4) % 5;
    let s = |x: &str| x.to_string();
    if top & 1 != 0 { t.files.push(TFile { dir: vec![], stem: s("a"), ext: s("x"), bytes: b"ax".to_vec() }); }
    if top & 2 != 0 { t.files.push(TFile { dir: vec![], stem: s("a"), ext: s(""), bytes: b"a-noext".to_vec() }); }
    if d > 0 {
        t.dirs.push(vec![s("d")]);
        if (d - 1) & 1 != 0 { t.files.push(TFile { dir: vec![s("d")], stem: s("b"), ext: s("x"), bytes: vec![] }); }
        if (d - 1) & 2 != 0 { t.dirs.push(vec![s("d"), s("e")]); }
    }
    t
}
pub const N_SMALL: usize = 20;

#[derive(Clone, Copy, PartialEq, Debug)]
pub enum DirMembers { All, None, Some }

/// The member list of an archive of `t`.
pub fn members_of(t: &Tree, rng: &mut Prng, dm: DirMembers, order: usize, dot_slash: usize) -> Vec<Member> {
    let mut ms: Vec<(usize, Member)> = vec![]; // (depth-ish sort key, member)
    for f in &t.files { ms.push((0, Member { is_file: true, path: f.path(), bytes: f.bytes.clone() })); }
    for q in &t.dirs {
        let keep = match dm { DirMembers::All => true, DirMembers::None => false, DirMembers::Some => rng.chance(1, 2) };
        if keep { ms.push((1, Member { is_file: false, path: format!("{}/", q.join("/")), bytes: vec![] })); }
    }
    // an archive has to contain the tree: a directory that no kept member lies in or below
    // (an empty leaf, or one holding only such directories) keeps its own member; deepest first,
    // so that a chain of empty directories gets one member, at its end
    let mut by_depth: Vec<&Vec<String>> = t.dirs.iter().collect();
    by_depth.sort_by_key(|q| std::cmp::Reverse(q.len()));
    for q in by_depth {
        let on_path = |m: &Member| { let c = norm_member_path(&m.path); let d = if m.is_file { &c[..c.len().saturating_sub(1)] } else { &c[..] }; d.starts_with(q) };
        if !ms.iter().any(|(_, m)| on_path(m)) { ms.push((1, Member { is_file: false, path: format!("{}/", q.join("/")), bytes: vec![] })); }
    }
    match order % 5 {
        0 => ms.sort_by(|a, b| a.1.path.cmp(&b.1.path)),                       // sorted: directories before their content
        1 => { ms.sort_by(|a, b| a.1.path.cmp(&b.1.path)); ms.reverse() }      // reversed: directories after their content
        2 => ms.sort_by(|a, b| (a.0, &a.1.path).cmp(&(b.0, &b.1.path))),       // all files, then all directories
        _ => rng.shuffle(&mut ms),
    }
    let mut out: Vec<Member> = ms.into_iter().map(|x| x.1).collect();
    for m in out.iter_mut() {
        let p = match dot_slash % 3 { 0 => false, 1 => true, _ => rng.chance(1, 2) };
        if p { m.path = format!("./{}", m.path); }
    }
    out
}

pub fn member_line(m: &Member) -> String { format!("s.m {} {} {}", if m.is_file { "f" } else { "d" }, hexs(&m.path), hex(&m.bytes)) }

fn norm_member_path(p: &str) -> Vec<String> {
    let p = p.strip_prefix("./").unwrap_or(p);
    p.split('/').filter(|c| !c.is_empty()).map(|c| c.to_string()).collect()
}

/// `members` is an archive of `t` (statement: every file exactly once with its bytes, every
/// directory at most once, nothing else; optional `./` prefix) — and it contains the whole tree:
/// a directory without a member of its own is on the path of some member.
pub fn archives(t: &Tree, members: &[Member]) -> bool {
    let on_path = |q: &Vec<String>, m: &Member| { let c = norm_member_path(&m.path); let d = if m.is_file { &c[..c.len().saturating_sub(1)] } else { &c[..] }; d.starts_with(q) };
    if !t.dirs.iter().all(|q| members.iter().any(|m| on_path(q, m))) { return false; }
    let mut files: Vec<(Vec<String>, &[u8])> = members.iter().filter(|m| m.is_file).map(|m| (norm_member_path(&m.path), &m.bytes[..])).collect();
    let mut want: Vec<(Vec<String>, &[u8])> = t.files.iter().map(|f| (norm_member_path(&f.path()), &f.bytes[..])).collect();
    files.sort(); want.sort();
    if files != want { return false; }
    let mut dirs: Vec<Vec<String>> = members.iter().filter(|m| !m.is_file).map(|m| norm_member_path(&m.path)).collect();
    dirs.sort();
    if dirs.windows(2).any(|w| w[0] == w[1]) { return false; }
    if members.iter().any(|m| m.path.starts_with('/') || m.path.contains("/./") || m.path.contains("..")) { return false; }
    dirs.iter().all(|d| t.dirs.contains(d))
}

/// Directories of the tree without an own member.
pub fn implicit_dirs(t: &Tree, members: &[Member]) -> Vec<String> {
    let have: Vec<Vec<String>> = members.iter().filter(|m| !m.is_file).map(|m| norm_member_path(&m.path)).collect();
    t.dirs.iter().filter(|q| !have.contains(q)).map(|q| join_id(q)).collect()
}

// ------------------------------------------------------------------ building the real sources

static COUNTER: AtomicUsize = AtomicUsize::new(0);

pub struct TempRoot(pub PathBuf);
impl TempRoot {
    pub fn new() -> TempRoot {
        let n = COUNTER.fetch_add(1, Ordering::Relaxed);
        let p = std::env::temp_dir().join(format!("amh-src-{}-{}", std::process::id(), n));
        let _ = std::fs::remove_dir_all(&p);
        std::fs::create_dir_all(&p).expect("create temp root");
        TempRoot(p)
    }
}
impl Drop for TempRoot { fn drop(&mut self) { let _ = std::fs::remove_dir_all(&self.0); } }

pub fn build_zip(members: &[Member], deflate: bool) -> Result<Vec<u8>, String> {
    let mut zw = zip::ZipWriter::new(io::Cursor::new(Vec::new()));
    let method = if deflate { zip::CompressionMethod::Deflated } else { zip::CompressionMethod::Stored };
    let o = zip::write::FileOptions::default().compression_method(method).large_file(false);
    for m in members {
        if m.is_file {
            zw.start_file(m.path.clone(), o).map_err(|e| format!("{e}"))?;
            zw.write_all(&m.bytes).map_err(|e| format!("{e}"))?;
        } else {
            zw.add_directory(m.path.clone(), o).map_err(|e| format!("{e}"))?;
        }
    }
    Ok(zw.finish().map_err(|e| format!("{e}"))?.into_inner())
}

pub fn build_tar(members: &[Member]) -> Result<Vec<u8>, String> {
    let mut tb = tar::Builder::new(Vec::new());
    for m in members {
        let mut h = tar::Header::new_gnu();
        h.set_mode(if m.is_file { 0o644 } else { 0o755 });
        h.set_size(m.bytes.len() as u64);
        h.set_entry_type(if m.is_file { tar::EntryType::Regular } else { tar::EntryType::Directory });
        h.set_mtime(0);
        let suspicious = m.path.starts_with('/') || m.path.split('/').any(|c| c == "..");
        if suspicious {
            // the builder refuses such paths: write the header name raw (short names only)
            let b = m.path.as_bytes();
            if b.len() > 99 { return Err("suspicious path too long for a raw header".into()); }
            let old = h.as_old_mut();
            old.name[..b.len()].copy_from_slice(b);
            h.set_cksum();
            tb.append(&h, &m.bytes[..]).map_err(|e| format!("{e}"))?;
        } else {
            tb.append_data(&mut h, &m.path, &m.bytes[..]).map_err(|e| format!("{e}"))?;
        }
    }
    tb.into_inner().map_err(|e| format!("{e}"))
}

/// Writes the tree under `root`. About a quarter of the files and a fifth of the directories (chosen by a hash of
/// their path, so a case replays identically) are symbolic links to content kept in the sibling directory `<root>/../store`:
/// `FileSystem` resolves ids through links (`read`, `exists`), so a linked file is a file and a linked directory is a
/// directory of the tree it shows, and its listings have to say so as well (seeded change C11-g: `read_dir` classified
/// entries without following links).
pub fn materialise(t: &Tree, root: &std::path::Path) -> io::Result<()> {
    fn h(s: &str) -> u32 { s.bytes().fold(2166136261u32, |a, b| (a ^ b as u32).wrapping_mul(16777619)) }
    std::fs::create_dir_all(root)?;
    let store = root.parent().map(|p| p.join("store"));
    let mut n = 0usize;
    let mut dirs: Vec<&Vec<String>> = t.dirs.iter().collect();
    dirs.sort_by_key(|q| q.len());
    for q in dirs {
        let p = root.join(q.join("/"));
        if p.exists() { continue; }
        if let Some(par) = p.parent() { std::fs::create_dir_all(par)?; }
        match &store {
            #[cfg(unix)]
            Some(st) if h(&q.join("/")) % 5 == 0 => {
                n += 1;
                let target = st.join(format!("d{n}"));
                std::fs::create_dir_all(&target)?;
                std::os::unix::fs::symlink(&target, &p)?;
            }
            _ => std::fs::create_dir_all(&p)?,
        }
    }
    for f in &t.files {
        let p = root.join(f.path());
        match &store {
            #[cfg(unix)]
            Some(st) if h(&f.path()) % 4 == 0 => {
                n += 1;
                std::fs::create_dir_all(st)?;
                // the stored file keeps no extension and another name: only the link's name may count
                let target = st.join(format!("f{n}"));
                std::fs::write(&target, &f.bytes)?;
                std::os::unix::fs::symlink(&target, &p)?;
            }
            _ => std::fs::write(&p, &f.bytes)?,
        }
    }
    Ok(())
}

/// `RawEmbedded` over the tree, built at run time (leaked: the tables must outlive the source).
pub fn build_embedded(t: &Tree) -> Embedded<'static> {
    fn leak(s: String) -> &'static str { Box::leak(s.into_boxed_str()) }
    let files: Vec<((&'static str, &'static str), &'static [u8])> = t.files.iter()
        .map(|f| ((leak(f.id()), leak(f.ext.clone())), &*Box::leak(f.bytes.clone().into_boxed_slice()))).collect();
    let mut dir_ids: Vec<String> = vec![String::new()];
    dir_ids.extend(t.dirs.iter().map(|q| join_id(q)));
    let mut dirs: Vec<(&'static str, &'static [DirEntry<'static>])> = vec![];
    for d in dir_ids {
        let mut es: Vec<DirEntry<'static>> = vec![];
        for f in &t.files { if join_id(&f.dir) == d { es.push(DirEntry::File(leak(f.id()), leak(f.ext.clone()))); } }
        for q in &t.dirs { if join_id(&q[..q.len() - 1]) == d { es.push(DirEntry::Directory(leak(join_id(q)))); } }
        dirs.push((leak(d), &*Box::leak(es.into_boxed_slice())));
    }
    // `RawEmbedded` is a public struct with public fields and no ordering requirement: hand it over in an order that is
    // neither sorted nor reverse-sorted (descending, then rotated by a third)
    let mut files = files;
    files.sort_by(|a, b| b.0.cmp(&a.0));
    let n = files.len(); if n > 2 { files.rotate_left(n / 3 + 1); }
    dirs.sort_by(|a, b| b.0.cmp(a.0));
    let m = dirs.len(); if m > 2 { dirs.rotate_left(m / 3 + 1); }
    let raw = RawEmbedded { files: Box::leak(files.into_boxed_slice()), dirs: Box::leak(dirs.into_boxed_slice()) };
    Embedded::from(raw)
}

/// The opened source: never hot-reloaded, optional unreadable directories, owns its temp files.
pub struct Wrap {
    pub inner: Box<dyn Source + Send + Sync>,
    pub deny: Vec<String>,
    _tmp: Option<TempRoot>,
}

impl Source for Wrap {
    fn read(&self, id: &str, ext: &str) -> io::Result<assets_manager::source::FileContent> { self.inner.read(id, ext) }
    fn read_dir(&self, id: &str, f: &mut dyn FnMut(DirEntry)) -> io::Result<()> {
        if self.deny.iter().any(|d| d == id) { return Err(io::Error::new(io::ErrorKind::PermissionDenied, "denied by the harness")); }
        self.inner.read_dir(id, f)
    }
    fn exists(&self, entry: DirEntry) -> bool { self.inner.exists(entry) }
}

pub fn err_kind(e: &io::Error) -> String {
    match e.kind() {
        io::ErrorKind::NotFound => "err nf".into(),
        k => match format!("{k:?}").as_str() { "IsADirectory" => "err isdir".into(), "NotADirectory" => "err notdir".into(), _ => "err other".into() },
    }
}

/// Everything before the probes: tree lines, member lines, deny list, the opened source.
#[derive(Default)]
pub struct Setup {
    pub tree: Tree,
    pub members: Vec<Member>,
    pub deny: Vec<String>,
    pub kind: String,
}

impl Setup {
    /// Handles `s.dir`, `s.file`, `s.m`, `s.deny`; returns false for other lines.
    pub fn handle(&mut self, w: &[&str], line: &str, rec: &mut CaseRec) -> bool {
        match w[0] {
            "s.dir" => { self.tree.dirs.push(w[1..].iter().map(|c| unhexs(c)).collect()); rec.op(line, "ok"); true }
            "s.file" => {
                let mut comps: Vec<String> = w[3..].iter().map(|c| unhexs(c)).collect();
                let stem = comps.pop().expect("s.file needs a stem");
                self.tree.files.push(TFile { dir: comps, stem, ext: unhexs(w[1]), bytes: unhex(w[2]) });
                rec.op(line, "ok"); true
            }
            "s.m" => { self.members.push(Member { is_file: w[1] == "f", path: unhexs(w[2]), bytes: unhex(w[3]) }); rec.op(line, "ok"); true }
            "s.deny" => { self.deny = w[1..].iter().map(|c| unhexs(c)).collect(); rec.op(line, "ok"); true }
            _ => false,
        }
    }

    /// `s.open <fs|emb|zip|tar> [stored|deflate] [mem|file]`
    pub fn open(&mut self, w: &[&str]) -> Result<Wrap, String> {
        self.kind = w[1].to_string();
        let deflate = w.get(2) == Some(&"deflate");
        let on_disk = w.get(3) == Some(&"file");
        let (inner, tmp): (Box<dyn Source + Send + Sync>, Option<TempRoot>) = match w[1] {
            "fs" => {
                let tmp = TempRoot::new();
                // the root's own name has a dot: only ids are dotted paths, the root directory is not one
                let root = tmp.0.join("root.v2");
                materialise(&self.tree, &root).map_err(|e| format!("materialise: {e}"))?;
                (Box::new(FileSystem::new(&root).map_err(|e| format!("{e}"))?), Some(tmp))
            }
            "emb" => (Box::new(build_embedded(&self.tree)), None),
            "zip" => {
                let bytes = build_zip(&self.members, deflate)?;
                if on_disk {
                    let tmp = TempRoot::new();
                    let p = tmp.0.join("a.zip");
                    std::fs::write(&p, &bytes).map_err(|e| format!("{e}"))?;
                    (Box::new(Zip::open(&p).map_err(|e| format!("{e}"))?), Some(tmp))
                } else { (Box::new(Zip::from_bytes(bytes).map_err(|e| format!("{e}"))?), None) }
            }
            "tar" => {
                let bytes = build_tar(&self.members)?;
                if on_disk {
                    let tmp = TempRoot::new();
                    let p = tmp.0.join("a.tar");
                    std::fs::write(&p, &bytes).map_err(|e| format!("{e}"))?;
                    (Box::new(Tar::open(&p).map_err(|e| format!("{e}"))?), Some(tmp))
                } else { (Box::new(Tar::from_bytes(bytes).map_err(|e| format!("{e}"))?), None) }
            }
            other => return Err(format!("unknown source kind {other}")),
        };
        Ok(Wrap { inner, deny: self.deny.clone(), _tmp: tmp })
    }

    pub fn is_archive(&self) -> bool { self.kind == "zip" || self.kind == "tar" }
    /// Is the opened source a faithful container of the tree (then the oracle applies)?
    pub fn of_tree(&self) -> bool { self.tree.valid() && (!self.is_archive() || archives(&self.tree, &self.members)) }
}

/// Gen lines for tree + members + open for a source kind chosen by the caller.
pub fn setup_lines(t: &Tree, rng: &mut Prng, kind: &str, dm: DirMembers, order: usize, dot_slash: usize, malformed: bool) -> Vec<String> {
    let mut l = t.lines();
    if kind == "zip" || kind == "tar" {
        let mut ms = members_of(t, rng, dm, order, dot_slash);
        if malformed {
            let extra = [("f", "../up.x"), ("f", "d0/../side.x"), ("f", ".hidden"), ("f", "trail."), ("f", "two.dots.x"), ("d", "dot.dir/"), ("f", "dot.dir/in.x"),
                         ("f", "/abs.x"), ("d", "dupdir/"), ("d", "dupdir/"), ("f", "dup.x"), ("f", "dup.x"), ("f", "q/./r.x"), ("d", "./")];
            let n = rng.range(1, 4);
            for _ in 0..n {
                let (k, p) = *rng.pick(&extra);
                let at = rng.below(ms.len() + 1);
                ms.insert(at, Member { is_file: k == "f", path: p.to_string(), bytes: if k == "f" { vec![rng.next() as u8] } else { vec![] } });
            }
        }
        for m in &ms { l.push(member_line(m)); }
        let comp = if rng.chance(1, 2) { "deflate" } else { "stored" };
        let place = if rng.chance(1, 4) { "file" } else { "mem" };
        l.push(format!("s.open {kind} {comp} {place}"));
    } else {
        l.push(format!("s.open {kind}"));
    }
    l
}
