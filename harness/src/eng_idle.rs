//! Engine `idle` (C15): the reloader is quiet when idle and goes away with its cache.
//!
//! Gen / replay lines:
//!
//! * `idle.run <kind> <when> <k>` — in a child process: create `k` caches with hot-reloading over
//!   `kind` ∈ `mem-keep` (in-memory source that keeps its `EventSender`), `mem-nosender` (the sender is
//!   dropped right after creation), `mem-neversender` (a source that never stores the sender it is
//!   handed), `mem-latedrop` (the sender is dropped after the cache has been used for a while), `fs` (`FileSystem` on a temp dir, real watcher); use them; measure
//!   every reloader thread while the caches are alive and idle; then — `when` ∈ `idle`,
//!   `after-reload` (a `hot_reload()` immediately before), `queued-events` (a burst of events
//!   immediately before), `after-loads` (a burst of loads immediately before) — drop all caches and
//!   measure the threads again.
//!   A measurement = the scheduler state field of `/proc/self/task/<tid>/stat` sampled 30 times over
//!   300 ms plus utime+stime ticks over the window: `exited` (task gone) | `asleep` (all `S`, ≤ 1 tick)
//!   | `spinning` (≥ 80 % `R`); anything else is re-measured over a longer window.
//!   Result: `before=<v> after=<v> left=<threads still present>`.
//! * `idle.prim <msgs> <events> <msgConn> <evConn>` — primitive conformance of crossbeam's
//!   `Select::ready` (what the loop model assumes): blocks iff both channels are empty and connected.
//!
//! Oracle (from the statement): no reloader thread spins while idle; after the drop every reloader
//! thread has exited or sleeps; nothing accumulates.

use crate::child::{self, task_stat, Exit};
use crate::common::*;
use crate::types::*;
use assets_manager::{source::OwnedDirEntry, AssetCache};
use std::time::{Duration, Instant};

#[derive(Default)]
pub struct IdleEngine;

const KINDS: &[&str] = &["mem-keep", "mem-nosender", "fs", "mem-neversender", "mem-latedrop"];
const WHENS: &[&str] = &["idle", "after-reload", "queued-events", "after-loads", "burst-then-reload"];
const BURST: usize = 24;

fn parse_run(w: &[&str]) -> Option<(String, String, usize)> {
    if w.len() != 4 || !KINDS.contains(&w[1]) || !WHENS.contains(&w[2]) { return None; }
    let k: usize = w[3].parse().ok()?;
    if k == 0 || k > 16 { return None; }
    Some((w[1].to_string(), w[2].to_string(), k))
}

static STALL: std::sync::atomic::AtomicBool = std::sync::atomic::AtomicBool::new(false);
fn stall_hook(tag: &'static str) {
    if tag == "hr-thread-after-ready" { let t0 = Instant::now(); while STALL.load(std::sync::atomic::Ordering::SeqCst) && t0.elapsed() < Duration::from_millis(300) { std::thread::yield_now(); } }
}

impl Engine for IdleEngine {
    fn name(&self) -> &'static str { "idle" }

    fn gen_case(&mut self, rng: &mut Prng, tier: Tier, idx: usize) -> Vec<String> {
        if idx < 12 {
            // bounded-exhaustive slice: every source kind × every moment of the drop, one cache
            return vec![format!("idle.run {} {} 1", KINDS[idx % 3], WHENS[idx / 3])];
        }
        // a LIVE cache whose source released its sender (never stored / dropped later)
        if idx == 13 { return vec!["idle.run mem-neversender idle 1".into()]; }
        if idx == 14 { return vec!["idle.run mem-latedrop after-reload 2".into()]; }
        if idx == 15 { return vec!["idle.run mem-keep burst-then-reload 1".into()]; }
        if idx == 16 || (idx > 16 && idx % 12 == 5) { return vec![format!("idle.rootgone {}", rng.range(1, 4))]; }
        if idx == 12 {
            // every combination of the primitive's inputs over {0,1} messages
            let mut l = vec![];
            for m in 0..2 { for e in 0..2 { for mc in [true, false] { for ec in [true, false] { l.push(format!("idle.prim {m} {e} {mc} {ec}")); } } } }
            return l;
        }
        match rng.below(10) {
            0..=6 => {
                let k = rng.range(1, if tier == Tier::Thorough { 8 } else { 4 });
                vec![format!("idle.run {} {} {k}", rng.pick(KINDS), rng.pick(WHENS))]
            }
            7..=8 => vec![format!("idle.prim {} {} {} {}", rng.below(4), rng.below(4), rng.chance(1, 2), rng.chance(1, 2))],
            _ => vec![rng.pick(&["idle.run tape idle 1", "idle.run fs never 1", "idle.run fs idle 0", "idle.prim 1 1 yes no", "idle.prim 1", "idle.run mem-keep idle 99"]).to_string()],
        }
    }

    fn exec_case(&mut self, lines: &[String], rec: &mut CaseRec) {
        for line in lines {
            let w: Vec<&str> = line.split_whitespace().collect();
            if w.is_empty() { continue; }
            match w[0] {
                "idle.run" => {
                    let (kind, when, k) = match parse_run(&w) { Some(x) => x, None => { rec.op(format!("{line} 0 0"), "bad-op"); rec.stat("malformed"); continue; } };
                    rec.nontrivial = true;
                    rec.stat(format!("run/kind={kind}"));
                    rec.stat(format!("run/when={when}"));
                    rec.stat(format!("run/caches={k}"));
                    // nominal queue contents at the moment of the drop (the model's verdict must not depend on them)
                    let (m, e) = match when.as_str() { "queued-events" => (0, BURST), "after-loads" => (BURST, 0), "after-reload" => (1, 0), _ => (0, 0) };
                    let model_line = format!("{line} {m} {e}");
                    let out = child::run_child("idle", line);
                    // a child that was killed could not remove its temp dirs
                    let _ = std::fs::remove_dir_all(std::env::temp_dir().join(format!("amh-idle-{}", out.pid)));
                    for s in &out.stats { rec.stat(s.clone()); }
                    for o in &out.oracle { rec.oracle_fail(o.clone()); }
                    match &out.exit {
                        Exit::Code(0) => {
                            let res = out.results.iter().find(|r| r.starts_with("before=")).cloned().unwrap_or_else(|| "no-result".into());
                            let field = |name: &str| res.split_whitespace().find_map(|f| f.strip_prefix(name).map(|s| s.to_string())).unwrap_or_default();
                            let (before, after, left) = (field("before="), field("after="), field("left="));
                            rec.stat(format!("run/before={before}"));
                            rec.stat(format!("run/after={after}"));
                            if before.contains("spinning") {
                                rec.oracle_fail(format!("reloader-busy-while-idle `{line}`: a reloader thread burns CPU while its cache is alive and nothing changes ({res}; {})", out.results.join("; ")));
                            }
                            if after.contains("spinning") {
                                rec.oracle_fail(format!("reloader-spins-after-drop `{line}`: {left} of {k} reloader threads still run after their caches were dropped and spin ({})", out.results.join("; ")));
                            } else if after != "exited" && after != "asleep" {
                                rec.oracle_fail(format!("reloader-state-unclear `{line}`: {res}"));
                            }
                            rec.op(model_line, res);
                        }
                        Exit::Code(c) => { rec.oracle_fail(format!("child-failed exit code {c}: {}", out.stderr.lines().last().unwrap_or(""))); rec.op(model_line, format!("child-exit-{c}")); }
                        Exit::Signal(s) => { rec.oracle_fail(format!("child-crashed `{line}`: killed by signal {s}")); rec.op(model_line, "aborted"); }
                        Exit::Blocked(snap) => { rec.oracle_fail(format!("child-blocked `{line}`: the create/use/drop sequence itself never finished; threads {snap:?}")); rec.op(model_line, "blocked"); }
                        Exit::Timeout => { rec.oracle_fail(format!("child-timeout `{line}`")); rec.op(model_line, "timeout"); }
                    }
                }
                "idle.rootgone" => {
                    // a FileSystem source whose directory disappeared before the cache was built: hot-reloading cannot start, and
                    // nothing (no reloader thread, no watcher thread, no inotify instance) may be left behind when the cache is dropped
                    let k = match w.get(1).and_then(|x| x.parse::<usize>().ok()) { Some(k) if w.len() == 2 && (1..=16).contains(&k) => k, _ => { rec.op(line.clone(), "bad-op"); rec.stat("malformed"); continue; } };
                    rec.nontrivial = true;
                    rec.stat("rootgone");
                    let out = child::run_child("idle", line);
                    let _ = std::fs::remove_dir_all(std::env::temp_dir().join(format!("amh-idle-{}", out.pid)));
                    for o in &out.oracle { rec.oracle_fail(o.clone()); }
                    let res = match &out.exit {
                        Exit::Code(0) => out.results.iter().find(|r| r.starts_with("released") || r.starts_with("left-behind")).cloned().unwrap_or_else(|| "no-result".into()),
                        Exit::Code(c) => { rec.oracle_fail(format!("child-failed exit code {c}: {}", out.stderr.lines().last().unwrap_or(""))); format!("child-exit-{c}") }
                        Exit::Signal(s) => { rec.oracle_fail(format!("child-crashed `{line}`: killed by signal {s}")); "aborted".into() }
                        Exit::Blocked(snap) => { rec.oracle_fail(format!("child-blocked `{line}`: threads {snap:?}")); "blocked".into() }
                        Exit::Timeout => { rec.oracle_fail(format!("child-timeout `{line}`")); "timeout".into() }
                    };
                    rec.op(format!("idle.rootgone {k}"), res);
                }
                "idle.prim" => {
                    let parsed = (|| -> Option<(usize, usize, bool, bool)> {
                        if w.len() != 5 { return None; }
                        Some((w[1].parse().ok()?, w[2].parse().ok()?, w[3].parse().ok()?, w[4].parse().ok()?))
                    })();
                    let (m, e, mc, ec) = match parsed { Some(x) => x, None => { rec.op(line.clone(), "bad-op"); rec.stat("malformed"); continue; } };
                    rec.nontrivial = true;
                    let (tx1, rx1) = crossbeam_channel::unbounded::<u8>();
                    let (tx2, rx2) = crossbeam_channel::unbounded::<u8>();
                    for _ in 0..m { tx1.send(0).unwrap(); }
                    for _ in 0..e { tx2.send(0).unwrap(); }
                    let _keep1 = if mc { Some(tx1) } else { drop(tx1); None };
                    let _keep2 = if ec { Some(tx2) } else { drop(tx2); None };
                    let mut sel = crossbeam_channel::Select::new();
                    sel.recv(&rx1);
                    sel.recv(&rx2);
                    let r = sel.ready_timeout(Duration::from_millis(40));
                    rec.stat(format!("prim/{}", if r.is_ok() { "ready" } else { "blocked" }));
                    // the assumed semantics, checked on the primitive itself
                    let expect_ready = m > 0 || e > 0 || !mc || !ec;
                    if r.is_ok() != expect_ready { rec.oracle_fail(format!("select-ready-semantics `{line}`: ready_timeout gave {r:?}")); }
                    if let Ok(i) = r {
                        let ok = if i == 0 { m > 0 || !mc } else { e > 0 || !ec };
                        if !ok { rec.oracle_fail(format!("select-ready-semantics `{line}`: operation {i} reported ready but its channel is empty and connected")); }
                    }
                    if m == 0 && !mc && rx1.try_recv() != Err(crossbeam_channel::TryRecvError::Disconnected) { rec.oracle_fail(format!("select-ready-semantics `{line}`: try_recv on an empty disconnected channel is not Disconnected")); }
                    if m == 0 && mc && rx1.try_recv() != Err(crossbeam_channel::TryRecvError::Empty) { rec.oracle_fail(format!("select-ready-semantics `{line}`: try_recv on an empty connected channel is not Empty")); }
                    rec.op(line.clone(), if r.is_ok() { "ready" } else { "blocked" });
                }
                _ => { rec.op(line.clone(), "bad-op"); rec.stat("malformed"); }
            }
        }
    }
}

// ------------------------------------------------------------------------------------------------ child side

fn reloader_tids() -> Vec<u32> {
    let pid = std::process::id();
    let mut v: Vec<u32> = child::tasks(pid).into_iter().filter(|t| t.1.starts_with("assets_hot_rel")).map(|t| t.0).collect();
    v.sort();
    v
}

#[derive(Clone, Copy, PartialEq, Debug)]
enum V { Exited, Asleep, Spinning, Mixed }
impl V { fn name(self) -> &'static str { match self { V::Exited => "exited", V::Asleep => "asleep", V::Spinning => "spinning", V::Mixed => "mixed" } } }

/// One measurement window of `samples` samples, `interval` apart, of all the given threads at once.
fn window(tids: &[u32], samples: usize, interval: Duration) -> Vec<(V, String)> {
    let pid = std::process::id();
    // per thread: first ticks (None = already gone), counts of R / S / other, last ticks, gone during the window
    let mut acc: Vec<(Option<u64>, usize, usize, usize, u64, bool)> = tids.iter().map(|t| {
        match task_stat(pid, *t) { Some(x) => (Some(x.2), 0, 0, 0, x.2, false), None => (None, 0, 0, 0, 0, true) }
    }).collect();
    for _ in 0..samples {
        for (k, t) in tids.iter().enumerate() {
            if acc[k].5 { continue; }
            match task_stat(pid, *t) {
                None => acc[k].5 = true,
                Some((_, st, ticks)) => { acc[k].4 = ticks; match st { 'R' => acc[k].1 += 1, 'S' => acc[k].2 += 1, _ => acc[k].3 += 1 } }
            }
        }
        child::progress();   // the measuring thread sleeps between samples: tell the watchdog we are alive
        std::thread::sleep(interval);
    }
    acc.into_iter().map(|(first, r, s, other, last, gone)| {
        if gone { return (V::Exited, "gone".to_string()); }
        let ticks = last - first.unwrap_or(last);
        let detail = format!("R={r} S={s} other={other} ticks={ticks}");
        let v = if s == samples && ticks <= 1 { V::Asleep } else if r * 5 >= samples * 4 { V::Spinning } else { V::Mixed };
        (v, detail)
    }).collect()
}

/// 30 samples over 300 ms; mixed readings are re-measured over 3x and 9x longer windows.
fn measure_all(tids: &[u32]) -> Vec<(V, String)> {
    let mut interval = Duration::from_millis(10);
    let mut res = window(tids, 30, interval);
    for _ in 0..2 {
        let again: Vec<usize> = (0..tids.len()).filter(|k| res[*k].0 == V::Mixed).collect();
        if again.is_empty() { break; }
        interval *= 3;
        let sub: Vec<u32> = again.iter().map(|k| tids[*k]).collect();
        for (k, r) in again.iter().zip(window(&sub, 30, interval)) { res[*k] = r; }
    }
    res
}

fn summarise(vs: &[V]) -> String {
    if vs.is_empty() { return "none".into(); }
    if vs.iter().all(|v| *v == vs[0]) { vs[0].name().into() } else { format!("mixed({})", vs.iter().map(|v| v.name()).collect::<Vec<_>>().join(",")) }
}

/// An in-memory source that supports hot-reloading but never keeps the `EventSender` it is given.
#[derive(Clone)]
struct NeverStores(MemSource);
impl assets_manager::source::Source for NeverStores {
    fn read(&self, id: &str, ext: &str) -> std::io::Result<assets_manager::source::FileContent<'_>> { self.0.read(id, ext) }
    fn read_dir(&self, id: &str, f: &mut dyn FnMut(assets_manager::source::DirEntry)) -> std::io::Result<()> { self.0.read_dir(id, f) }
    fn exists(&self, entry: assets_manager::source::DirEntry) -> bool { self.0.exists(entry) }
    fn make_source(&self) -> Option<Box<dyn assets_manager::source::Source + Send>> { Some(Box::new(self.clone())) }
    fn configure_hot_reloading(&self, events: assets_manager::hot_reloading::EventSender) -> Result<(), assets_manager::BoxedError> { drop(events); Ok(()) }
}

enum AnyCacheBox { Mem(AssetCache<MemSource>, MemSource), Never(AssetCache<NeverStores>, MemSource), Fs(AssetCache<assets_manager::source::FileSystem>, std::path::PathBuf) }

fn child_rootgone(k: usize) {
    crate::exec_world::quiet_panics();
    let count = |p: &str| child::tasks(std::process::id()).into_iter().filter(|t| t.1.starts_with(p)).count();
    let inotify = || std::fs::read_dir("/proc/self/fd").map(|d| d.flatten().filter(|e| std::fs::read_link(e.path()).map(|l| l.to_string_lossy().contains("inotify")).unwrap_or(false)).count()).unwrap_or(0);
    let (w0, r0, i0) = (count("notify-rs"), count("assets_hot_rel"), inotify());
    let base = std::env::temp_dir().join(format!("amh-idle-{}", std::process::id()));
    for c in 0..k {
        let dir = base.join(format!("gone{c}"));
        std::fs::create_dir_all(&dir).unwrap();
        std::fs::write(dir.join("a.txt"), b"x").unwrap();
        let fs = assets_manager::source::FileSystem::new(&dir).expect("FileSystem::new");
        std::fs::remove_dir_all(&dir).unwrap();
        let cache = AssetCache::with_source(fs);
        let _ = cache.load::<String>("a");
        cache.hot_reload();
        child::progress();
        drop(cache);
    }
    // the directories come back and change: nothing of the dropped caches may still be listening
    for c in 0..k { let dir = base.join(format!("gone{c}")); let _ = std::fs::create_dir_all(&dir); let _ = std::fs::write(dir.join("a.txt"), b"y"); }
    let t0 = Instant::now();
    while (count("notify-rs") > w0 || count("assets_hot_rel") > r0 || inotify() > i0) && t0.elapsed() < Duration::from_secs(3) { child::progress(); std::thread::sleep(Duration::from_millis(20)); }
    let (w1, r1, i1) = (count("notify-rs"), count("assets_hot_rel"), inotify());
    let _ = std::fs::remove_dir_all(&base);
    if w1 > w0 || r1 > r0 || i1 > i0 {
        println!("O watcher-thread-left-behind {k} cache(s) over a directory that was gone when hot-reloading was set up: {} watcher thread(s), {} reloader thread(s), {} inotify instance(s) left after the caches were dropped", w1 - w0.min(w1), r1 - r0.min(r1), i1 - i0.min(i1));
        println!("R left-behind");
    } else { println!("R released"); }
}

pub fn child_main(line: &str) {
    let w: Vec<&str> = line.split_whitespace().collect();
    if w.first() == Some(&"idle.rootgone") { match w.get(1).and_then(|x| x.parse::<usize>().ok()) { Some(k) => return child_rootgone(k), None => std::process::exit(3) } }
    let (kind, when, k) = match parse_run(&w) { Some(x) => x, None => std::process::exit(3) };
    crate::exec_world::quiet_panics();
    let watchers_before = child::tasks(std::process::id()).into_iter().filter(|t| t.1.starts_with("notify-rs")).count();
    let mut caches: Vec<AnyCacheBox> = vec![];
    let mut tids: Vec<u32> = vec![];
    let base = std::env::temp_dir().join(format!("amh-idle-{}", std::process::id()));
    for c in 0..k {
        let known = reloader_tids();
        let cache = if kind == "fs" {
            let dir = base.join(format!("c{c}"));
            std::fs::create_dir_all(dir.join("d")).unwrap();
            for i in 0..4 { std::fs::write(dir.join(format!("a{i}.txt")), format!("v{i}")).unwrap(); }
            AnyCacheBox::Fs(AssetCache::new(&dir).expect("AssetCache::new"), dir)
        } else {
            let src = MemSource::new(true);
            for i in 0..BURST { src.put(&format!("a{i}"), "s", FileSt::Bytes(format!("{i}").into_bytes().into(), 0)); }
            if kind == "mem-neversender" { AnyCacheBox::Never(AssetCache::with_source(NeverStores(src.clone())), src) } else {
                let cache = AssetCache::with_source(src.clone());
                if kind == "mem-nosender" { drop(src.lock().sender.take()); }
                AnyCacheBox::Mem(cache, src)
            }
        };
        // the thread this cache started (it is spawned synchronously by the constructor)
        let t0 = Instant::now();
        loop {
            let new: Vec<u32> = reloader_tids().into_iter().filter(|t| !known.contains(t)).collect();
            if let Some(t) = new.first() { tids.push(*t); break; }
            if t0.elapsed() > Duration::from_millis(500) { break; }   // already gone again (mem-nosender) or not started
            std::thread::sleep(Duration::from_millis(2));
        }
        caches.push(cache);
        child::progress();
    }
    println!("S run/threads-started={}", tids.len().min(9));
    // use the caches
    for c in &caches {
        match c {
            AnyCacheBox::Mem(cache, src) => {
                for i in 0..4 { let _ = cache.load::<S<0>>(&format!("a{i}")); }
                // `burst-then-reload`: a long burst of events is still being taken by the reloader when hot_reload() is called;
                // afterwards the cache is idle and its thread has to sleep again
                if when == "burst-then-reload" {
                    if let Some(tx) = src.sender() {
                        // a real backlog: the reloader is held right after it noticed the first event (yield hook) while 40000
                        // events queue up; it is released, and the request is sent once it has worked through a part of them
                        assets_manager::verif::set_yield_hook(Some(stall_hook));
                        for _attempt in 0..4 {
                            STALL.store(true, std::sync::atomic::Ordering::SeqCst);
                            for i in 0..40000 { let _ = tx.send(OwnedDirEntry::File(format!("a{}", i % 4).into(), "s".into())); }
                            STALL.store(false, std::sync::atomic::Ordering::SeqCst);
                            let t0 = Instant::now();
                            while tx.verif_pending() > 36000 && t0.elapsed() < Duration::from_millis(500) { std::hint::spin_loop(); }
                            if tx.verif_pending() > 2000 { println!("S run/request-met-a-backlog"); break; }
                        }
                    }
                }
                cache.hot_reload();
                assets_manager::verif::set_yield_hook(None);
            }
            AnyCacheBox::Never(cache, _) => { for i in 0..4 { let _ = cache.load::<S<0>>(&format!("a{i}")); } cache.hot_reload(); }
            AnyCacheBox::Fs(cache, _) => { for i in 0..4 { let _ = cache.load::<String>(&format!("a{i}")); } cache.hot_reload(); }
        }
        child::progress();
    }
    if kind == "mem-latedrop" {
        // the source releases its sender only now, after the caches have been in use
        std::thread::sleep(Duration::from_millis(30));
        for c in &caches { if let AnyCacheBox::Mem(_, src) = c { drop(src.lock().sender.take()); } }
    }
    std::thread::sleep(Duration::from_millis(60));
    // quiet while idle?
    let before: Vec<(V, String)> = measure_all(&tids);
    for (t, (v, d)) in tids.iter().zip(&before) { println!("R before tid{}={} {d}", t % 1000, v.name()); }
    child::progress();
    // the moment of the drop
    for c in &caches {
        match (when.as_str(), c) {
            ("after-reload", AnyCacheBox::Mem(cache, _)) => cache.hot_reload(),
            ("after-reload", AnyCacheBox::Fs(cache, _)) => cache.hot_reload(),
            ("after-reload", AnyCacheBox::Never(cache, _)) => cache.hot_reload(),
            ("after-loads", AnyCacheBox::Never(cache, _)) => { for i in 0..BURST { let _ = cache.load::<S<0>>(&format!("a{i}")); } }
            ("queued-events", AnyCacheBox::Mem(_, src)) => { if let Some(tx) = src.sender() { for i in 0..BURST { let _ = tx.send(OwnedDirEntry::File(format!("a{}", i % 4).into(), "s".into())); } } }
            ("queued-events", AnyCacheBox::Fs(_, dir)) => { for i in 0..BURST { let _ = std::fs::write(dir.join(format!("a{}.txt", i % 4)), format!("w{i}")); } }
            ("after-loads", AnyCacheBox::Mem(cache, _)) => { for i in 0..BURST { let _ = cache.load::<S<0>>(&format!("a{i}")); } }
            ("after-loads", AnyCacheBox::Fs(cache, _)) => { for i in 0..4 { let _ = cache.load::<assets_manager::SharedString>(&format!("a{i}")); } }
            _ => {}
        }
    }
    let mut keep_sources = vec![];
    let mut fs_dirs: Vec<std::path::PathBuf> = vec![];
    for c in caches { match c { AnyCacheBox::Mem(cache, src) => { drop(cache); keep_sources.push(src); } AnyCacheBox::Never(cache, src) => { drop(cache); keep_sources.push(src); } AnyCacheBox::Fs(cache, dir) => { drop(cache); fs_dirs.push(dir); } } }
    child::progress();
    // give the threads a short time to go away, then look at those that are still there
    let t0 = Instant::now();
    while t0.elapsed() < Duration::from_millis(400) && tids.iter().any(|t| task_stat(std::process::id(), *t).is_some()) { child::progress(); std::thread::sleep(Duration::from_millis(10)); }
    let after: Vec<(V, String)> = measure_all(&tids);
    for (t, (v, d)) in tids.iter().zip(&after) { println!("R after tid{}={} {d}", t % 1000, v.name()); }
    let left = tids.iter().filter(|t| task_stat(std::process::id(), **t).is_some()).count();
    let b: Vec<V> = if tids.is_empty() { vec![V::Exited] } else { before.iter().map(|x| x.0).collect() };
    let a: Vec<V> = if tids.is_empty() { vec![V::Exited] } else { after.iter().map(|x| x.0).collect() };
    // the file-system watcher of a dropped cache goes away at the next change it sees, whatever that change is about
    // (here: entries that are no asset ids at all)
    if !fs_dirs.is_empty() {
        let watchers = || child::tasks(std::process::id()).into_iter().filter(|t| t.1.starts_with("notify-rs")).count();
        let t0 = Instant::now();
        let mut round = 0;
        while watchers() > watchers_before && t0.elapsed() < Duration::from_secs(4) {
            for d in &fs_dirs { let _ = std::fs::write(d.join(format!("notes.v{round}.txt")), b"x"); let _ = std::fs::write(d.join(format!(".swap{round}.txt.swp")), b"y"); }
            round += 1;
            child::progress();
            std::thread::sleep(Duration::from_millis(40));
        }
        let w = watchers();
        println!("S run/watcher-released-after-rounds={}", round.min(9));
        if w > watchers_before { println!("O watcher-thread-left-behind {} file-system watcher thread(s) of dropped caches still alive after {round} rounds of changes to non-asset entries under their roots", w - watchers_before); }
    }
    println!("R before={} after={} left={left}", summarise(&b), summarise(&a));
    drop(keep_sources);
    let _ = std::fs::remove_dir_all(&base);
}
