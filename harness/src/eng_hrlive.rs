//! Engine `hrlive` (C08): `hot_reload` always returns — real threads, every case in a child process
//! under the progress watchdog of `child.rs` (search for failing inputs; the proof is in Lean).
//!
//! Gen / replay lines (one op per line):
//!
//! * `hr.update <n> <edges> / <changed> / <panicking>` — `n` script assets `a0..a{n-1}` of type `S0`;
//!   an edge `i>j` = asset `i` looks `j` up with `get_cached` (any pair, self and mutual look-ups
//!   included), `i*j` = asset `i` loads `j` (only `i < j`: loads form a DAG, otherwise read as a
//!   look-up); after loading everything the files of `changed` are edited and notified, the
//!   scripts of `panicking` get a `#` (loader panic), then ONE `hot_reload()`.
//!   Result: `reloaded <sorted ids>` | `aborted` (child killed by a signal) | `blocked`.
//! * `hr.bulk <n>` — one asset whose edited script loads `n` never-cached assets (`+S1:x0 … +S1:x{n-1}`);
//!   edit + notify + ONE `hot_reload()`. Every such load makes the *reloader thread* send `AddAsset`
//!   on the cache→reloader channel it is the only consumer of: the call returns only if that send
//!   never blocks. Result: `returned <number of x assets cached>` | `blocked`.
//! * `hr.conc <threads> <calls> <loaders> <events>` — `threads` threads call `hot_reload()` `calls`
//!   times each while `loaders` threads load / `get_or_insert` and `events` threads edit + notify.
//!   The model is asked whether some schedule explains the outcome (`returned` / `blocked`).
//!
//! Oracle (from the statement, not from the model): every call returned, the child exited with
//! status 0, and the set of reloaded assets is the reverse-dependency closure of the changed files.

use crate::child::{self, progress, Exit};
use crate::common::*;
use crate::types::*;
use assets_manager::{source::OwnedDirEntry, AssetCache};
use std::collections::BTreeSet;

#[derive(Default)]
pub struct HrLiveEngine;

#[derive(Debug, Clone)]
struct UpdateOp { n: usize, edges: Vec<(usize, usize, bool)>, changed: Vec<usize>, pan: Vec<usize> }

fn parse_update(w: &[&str]) -> Option<UpdateOp> {
    let n: usize = w.get(1)?.parse().ok()?;
    if n == 0 || n > 64 { return None; }
    let groups: Vec<&[&str]> = w[2..].split(|x| *x == "/").collect();
    if groups.len() != 3 { return None; }
    let mut edges = vec![];
    for e in groups[0] {
        let (sep, load) = if e.contains('*') { ('*', true) } else { ('>', false) };
        let mut it = e.split(sep);
        let (a, b): (usize, usize) = (it.next()?.parse().ok()?, it.next()?.parse().ok()?);
        if it.next().is_some() || a >= n || b >= n { return None; }
        edges.push((a, b, load && a < b));
    }
    let nums = |g: &[&str]| -> Option<Vec<usize>> { g.iter().map(|x| x.parse::<usize>().ok().filter(|v| *v < n)).collect() };
    Some(UpdateOp { n, edges, changed: nums(groups[1])?, pan: nums(groups[2])? })
}

fn parse_bulk(w: &[&str]) -> Option<usize> {
    if w.len() != 2 { return None; }
    let n: usize = w[1].parse().ok()?;
    if n == 0 || n > 5000 { None } else { Some(n) }
}

fn parse_conc(w: &[&str]) -> Option<(usize, usize, usize, usize)> {
    if w.len() != 5 { return None; }
    let v: Vec<usize> = w[1..].iter().map(|x| x.parse().ok()).collect::<Option<_>>()?;
    if v[0] == 0 || v[0] > 64 || v[2] > 8 || v[3] > 8 { return None; }
    Some((v[0], v[1], v[2], v[3]))
}

/// reverse-dependency closure of the changed files (the statement's "what has to be reloaded")
fn closure(op: &UpdateOp) -> BTreeSet<usize> {
    let mut set: BTreeSet<usize> = op.changed.iter().copied().collect();
    loop {
        let before = set.len();
        for &(i, j, _) in &op.edges { if set.contains(&j) { set.insert(i); } }
        if set.len() == before { return set; }
    }
}

fn has_cycle(op: &UpdateOp) -> bool {
    // i reaches i along "mentions" edges
    (0..op.n).any(|s| {
        let mut seen = BTreeSet::new();
        let mut todo: Vec<usize> = op.edges.iter().filter(|e| e.0 == s).map(|e| e.1).collect();
        while let Some(x) = todo.pop() {
            if x == s { return true; }
            if seen.insert(x) { todo.extend(op.edges.iter().filter(|e| e.0 == x).map(|e| e.1)); }
        }
        false
    })
}

fn set_str(s: &BTreeSet<usize>) -> String { if s.is_empty() { "-".into() } else { s.iter().map(|x| x.to_string()).collect::<Vec<_>>().join(",") } }

fn reloader_present(snapshot: &[(String, char)]) -> bool { snapshot.iter().any(|t| t.0.starts_with("assets_hot_rel")) }

impl Engine for HrLiveEngine {
    fn name(&self) -> &'static str { "hrlive" }

    fn gen_case(&mut self, rng: &mut Prng, tier: Tier, idx: usize) -> Vec<String> {
        let thorough = tier == Tier::Thorough;
        if idx < 16 {
            // bounded-exhaustive slice: every look-up graph on two assets (self and mutual look-ups), file of a0 changed
            let all = ["0>0", "0>1", "1>0", "1>1"];
            let es: Vec<&str> = (0..4).filter(|b| idx >> b & 1 == 1).map(|b| all[b]).collect();
            return vec![format!("hr.update 2 {} / 0 /", es.join(" "))];
        }
        if idx == 16 { return vec!["hr.conc 4 400 0 0".into()]; }
        if idx == 21 { return vec!["hr.conc 8 2000 0 0".into()]; }   // many callers, many rounds: answers taken out of token order
        if idx == 17 { return vec!["hr.update 3 0*1 1*2 / 2 / 1".into()]; }
        if idx == 18 { return vec!["hr.bulk 300".into()]; }
        if idx == 19 || (idx > 19 && idx % 15 == 4) { return vec![format!("hr.static {}", rng.range(1, 4))]; }
        if idx == 20 || (idx > 20 && idx % 15 == 9) { return vec![format!("hr.fsodd {}", rng.range(1, 3))]; }
        if rng.chance(1, 12) {
            let n = *rng.pick(if thorough { &[1usize, 100, 129, 300, 1000, 3000][..] } else { &[40usize, 300][..] });
            return vec![format!("hr.bulk {n}")];
        }
        match rng.below(20) {
            0..=7 => {
                let n = rng.range(1, if thorough { 10 } else { 6 });
                let mut edges = vec![];
                let cyclic_ok = rng.chance(1, 2);
                for i in 0..n { for j in 0..n {
                    if i < j && rng.chance(1, 4) { edges.push(format!("{i}*{j}")); }
                    else if (cyclic_ok || i < j) && rng.chance(1, 5) { edges.push(format!("{i}>{j}")); }
                } }
                let mut changed: Vec<String> = (0..n).filter(|_| rng.chance(1, 3)).map(|x| x.to_string()).collect();
                if changed.is_empty() { changed.push(rng.below(n).to_string()); }
                let pan: Vec<String> = if rng.chance(1, 6) { vec![rng.below(n).to_string()] } else { vec![] };
                vec![format!("hr.update {n} {} / {} / {}", edges.join(" "), changed.join(" "), pan.join(" "))]
            }
            8..=17 => {
                let t = *rng.pick(&[1usize, 2, 2, 3, 4, 4, 6, 8]);
                let t = if thorough && rng.chance(1, 4) { 16 } else { t };
                let calls = *rng.pick(if thorough { &[5usize, 50, 400, 3000, 20000][..] } else { &[5usize, 50, 400, 3000][..] });
                // every answer wakes every waiting caller: keep the total number of calls of a case bounded
                let calls = if t * calls > 50_000 { 50_000 / t } else { calls };
                let loaders = rng.below(3);
                let events = rng.below(2);
                vec![format!("hr.conc {t} {calls} {loaders} {events}")]
            }
            _ => {
                // malformed stream: both sides must refuse
                let bad = ["hr.update 0 / /", "hr.update 2 0>5 / 0 /", "hr.update 2 0>1 / 7 /", "hr.update 2 0>1 / 0", "hr.conc 0 10 0 0",
                           "hr.update x / /", "hr.conc 2 ten 0 0", "hr.update 2 0-1 / 0 /", "hr.nothing 1", "hr.bulk 0", "hr.bulk many", "hr.bulk 99999"];
                vec![rng.pick(&bad).to_string()]
            }
        }
    }

    fn exec_case(&mut self, lines: &[String], rec: &mut CaseRec) {
        for line in lines {
            let w: Vec<&str> = line.split_whitespace().collect();
            if w.is_empty() { continue; }
            match w[0] {
                "hr.update" => {
                    let model_line = line.replace('*', ">");
                    let op = match parse_update(&w) { Some(op) => op, None => { rec.op(model_line, "bad-op"); rec.stat("malformed"); continue; } };
                    rec.nontrivial = true;
                    let cyc = has_cycle(&op);
                    rec.stat(format!("update/n={}", op.n.min(9)));
                    rec.stat(if op.edges.iter().any(|e| e.0 == e.1) { "update/self-lookup" } else if cyc { "update/cyclic" } else { "update/acyclic" });
                    if !op.pan.is_empty() { rec.stat("update/with-panicking-loader"); }
                    let out = child::run_child("hrlive", line);
                    for s in &out.stats { rec.stat(s.clone()); }
                    for o in &out.oracle { rec.oracle_fail(o.clone()); }
                    let expect = closure(&op);
                    match &out.exit {
                        Exit::Code(0) => {
                            let res = out.results.iter().find(|r| r.starts_with("reloaded ")).cloned().unwrap_or_else(|| "no-result".into());
                            rec.stat("update/outcome=returned");
                            if res != format!("reloaded {}", set_str(&expect)) {
                                rec.oracle_fail(format!("reload-set-wrong `{line}`: {res}, the reverse-dependency closure of the changed files is {}", set_str(&expect)));
                            }
                            if let Some(o) = out.results.iter().find(|r| r.starts_with("order ")) {
                                // a dependency is reloaded before the asset that loads it (acyclic graphs)
                                let order: Vec<usize> = o[6..].split(',').filter_map(|x| x.parse().ok()).collect();
                                let pos = |x: usize| order.iter().position(|y| *y == x);
                                if !cyc { for &(i, j, _) in &op.edges { if let (Some(pi), Some(pj)) = (pos(i), pos(j)) { if pi < pj {
                                    rec.oracle_fail(format!("reload-order-wrong `{line}`: a{i} reloaded before its dependency a{j} (order {order:?})")); } } } }
                            }
                            rec.op(model_line, res);
                        }
                        Exit::Code(c) => { rec.oracle_fail(format!("child-failed exit code {c}: {}", out.stderr.lines().last().unwrap_or(""))); rec.op(model_line, format!("child-exit-{c}")); }
                        Exit::Signal(sig) => {
                            rec.stat("update/outcome=aborted");
                            let overflow = out.stderr.contains("overflowed its stack");
                            rec.oracle_fail(format!("{} `{line}`: the process was killed by signal {sig}{} during hot_reload()",
                                if overflow || *sig == 6 || *sig == 11 { "cyclic-lookup-abort" } else { "child-crashed" },
                                if overflow { " (thread 'assets_hot_reload' has overflowed its stack)" } else { "" }));
                            rec.op(model_line, "aborted");
                        }
                        Exit::Blocked(snap) => {
                            rec.stat("update/outcome=blocked");
                            let cls = if reloader_present(snap) { "lost-wakeup-deadlock" } else { "reload-panic-never-answered" };
                            rec.oracle_fail(format!("{cls} `{line}`: hot_reload() never returned: all threads asleep, no progress for 2 s; reloader thread {}; threads {snap:?}",
                                if reloader_present(snap) { "alive" } else { "gone (it died during the reload)" }));
                            rec.op(model_line, "blocked");
                        }
                        Exit::Timeout => { rec.oracle_fail(format!("child-timeout `{line}` still busy after {} s", child::HARD_LIMIT.as_secs())); rec.op(model_line, "timeout"); }
                    }
                }
                "hr.bulk" => {
                    let n = match parse_bulk(&w) { Some(n) => n, None => { rec.op(line.clone(), "bad-op"); rec.stat("malformed"); continue; } };
                    rec.nontrivial = true;
                    rec.stat(format!("bulk/n={}", if n <= 128 { "<=128" } else if n <= 1000 { "129..1000" } else { ">1000" }));
                    let out = child::run_child("hrlive", line);
                    for o in &out.oracle { rec.oracle_fail(o.clone()); }
                    match &out.exit {
                        Exit::Code(0) => {
                            let res = out.results.iter().find(|r| r.starts_with("returned ")).cloned().unwrap_or_else(|| "no-result".into());
                            rec.stat("bulk/outcome=returned");
                            if res != format!("returned {n}") { rec.oracle_fail(format!("bulk-reload-incomplete `{line}`: {res}, expected all {n} newly loaded assets cached after the reload")); }
                            rec.op(line.clone(), res);
                        }
                        Exit::Code(c) => { rec.oracle_fail(format!("child-failed exit code {c}: {}", out.stderr.lines().last().unwrap_or(""))); rec.op(line.clone(), format!("child-exit-{c}")); }
                        Exit::Signal(sig) => { rec.oracle_fail(format!("child-crashed `{line}`: killed by signal {sig}")); rec.op(line.clone(), "aborted"); }
                        Exit::Blocked(snap) => {
                            rec.stat("bulk/outcome=blocked");
                            // observation: pending messages on the cache->reloader channel while its only consumer sleeps
                            let pending = out.results.iter().rev().find_map(|r| r.strip_prefix("pending ").and_then(|x| x.parse::<usize>().ok()));
                            let cls = if !reloader_present(snap) { "reload-panic-never-answered" }
                                      else if pending.unwrap_or(0) > 0 { "reloader-blocked-on-own-channel" }
                                      else { "single-caller-never-answered" };
                            let what = match cls {
                                "reloader-blocked-on-own-channel" => format!("the reloader thread is alive and asleep while {} message(s) wait on the channel only it consumes: it blocked sending AddAsset to itself", pending.unwrap_or(0)),
                                "reload-panic-never-answered" => "the reloader thread is gone (it died during the reload)".to_string(),
                                _ => "the reloader thread is alive and asleep, its channel is empty: the single caller was never answered".to_string(),
                            };
                            rec.oracle_fail(format!("{cls} `{line}`: hot_reload() never returned: all threads asleep, no progress for 2 s; {what}; threads {snap:?}"));
                            rec.op(line.clone(), "blocked");
                        }
                        Exit::Timeout => { rec.oracle_fail(format!("child-timeout `{line}`")); rec.op(line.clone(), "timeout"); }
                    }
                }
                "hr.fsodd" => {
                    // the default FileSystem source, a recursively loaded directory, and entries with unusual (hidden) names that
                    // appear later: the reload of the directory listing must return (no unbounded recursion, no abort)
                    let k = match w.get(1).and_then(|x| x.parse::<usize>().ok()) { Some(k) if w.len() == 2 && (1..=8).contains(&k) => k, _ => { rec.op(line.clone(), "bad-op"); rec.stat("malformed"); continue; } };
                    rec.nontrivial = true;
                    rec.stat("fsodd/hidden-entries-appear");
                    let out = child::run_child("hrlive", line);
                    let _ = std::fs::remove_dir_all(std::env::temp_dir().join(format!("amh-hrlive-{}", out.pid)));
                    for o in &out.oracle { rec.oracle_fail(o.clone()); }
                    let res = match &out.exit {
                        Exit::Code(0) => out.results.iter().find(|r| r.starts_with("returned ")).cloned().unwrap_or_else(|| "no-result".into()),
                        Exit::Code(c) => { rec.oracle_fail(format!("child-failed exit code {c}: {}", out.stderr.lines().last().unwrap_or(""))); format!("child-exit-{c}") }
                        Exit::Signal(sig) => { rec.oracle_fail(format!("child-crashed `{line}`: killed by signal {sig} while a directory tree with hidden entries was (re)loaded")); "aborted".into() }
                        Exit::Blocked(snap) => { rec.oracle_fail(format!("single-caller-never-answered `{line}`: hot_reload() never returned; threads {snap:?}")); "blocked".into() }
                        Exit::Timeout => { rec.oracle_fail(format!("child-timeout `{line}`")); "timeout".into() }
                    };
                    if res != format!("returned {k}") && !res.starts_with("child") && res != "aborted" && res != "blocked" && res != "timeout" { rec.oracle_fail(format!("single-caller-never-answered `{line}`: {res}")); }
                    rec.op(line.clone(), res);
                }
                "hr.static" => {
                    // a `'static` cache after enhance_hot_reloading(): hot_reload() is documented as a no-op there, it must still return
                    let k = match w.get(1).and_then(|x| x.parse::<usize>().ok()) { Some(k) if w.len() == 2 && (1..=64).contains(&k) => k, _ => { rec.op(line.clone(), "bad-op"); rec.stat("malformed"); continue; } };
                    rec.nontrivial = true;
                    rec.stat("static/hot_reload-after-enhance");
                    let out = child::run_child("hrlive", line);
                    for o in &out.oracle { rec.oracle_fail(o.clone()); }
                    match &out.exit {
                        Exit::Code(0) => {
                            let res = out.results.iter().find(|r| r.starts_with("returned ")).cloned().unwrap_or_else(|| "no-result".into());
                            if res != format!("returned {k}") { rec.oracle_fail(format!("single-caller-never-answered `{line}`: {res}")); }
                            rec.op(line.clone(), res);
                        }
                        Exit::Code(c) => { rec.oracle_fail(format!("child-failed exit code {c}: {}", out.stderr.lines().last().unwrap_or(""))); rec.op(line.clone(), format!("child-exit-{c}")); }
                        Exit::Signal(sig) => { rec.oracle_fail(format!("child-crashed `{line}`: killed by signal {sig}")); rec.op(line.clone(), "aborted"); }
                        Exit::Blocked(snap) => {
                            let cls = if reloader_present(snap) { "single-caller-never-answered" } else { "reload-panic-never-answered" };
                            rec.oracle_fail(format!("{cls} `{line}`: hot_reload() on a cache in static mode never returned: all threads asleep, no progress for 2 s; threads {snap:?}"));
                            rec.op(line.clone(), "blocked");
                        }
                        Exit::Timeout => { rec.oracle_fail(format!("child-timeout `{line}`")); rec.op(line.clone(), "timeout"); }
                    }
                }
                "hr.conc" => {
                    let (t, calls, loaders, events) = match parse_conc(&w) { Some(x) => x, None => { rec.op(format!("{line} returned"), "bad-op"); rec.stat("malformed"); continue; } };
                    rec.nontrivial = true;
                    rec.stat(format!("conc/threads={t}"));
                    rec.stat(format!("conc/calls={calls}"));
                    if loaders > 0 { rec.stat("conc/with-loaders"); }
                    if events > 0 { rec.stat("conc/with-events"); }
                    let out = child::run_child("hrlive", line);
                    for o in &out.oracle { rec.oracle_fail(o.clone()); }
                    match &out.exit {
                        Exit::Code(0) => { rec.stat("conc/outcome=returned"); rec.op(format!("{line} returned"), "admissible"); }
                        Exit::Code(c) => { rec.oracle_fail(format!("child-failed exit code {c}: {}", out.stderr.lines().last().unwrap_or(""))); rec.op(format!("{line} returned"), format!("child-exit-{c}")); }
                        Exit::Signal(sig) => {
                            rec.oracle_fail(format!("child-crashed `{line}`: killed by signal {sig}"));
                            rec.op(format!("{line} aborted"), "admissible");
                        }
                        Exit::Blocked(snap) => {
                            rec.stat("conc/outcome=blocked");
                            let done = out.results.iter().rev().find(|r| r.starts_with("progress ")).cloned().unwrap_or_default();
                            let cls = if reloader_present(snap) { "lost-wakeup-deadlock" } else { "reload-panic-never-answered" };
                            let asleep = snap.iter().filter(|t| t.0.starts_with("hr-caller")).count();
                            rec.oracle_fail(format!("{cls} `{line}`: {asleep} of {t} hot_reload callers never returned: all threads asleep, no progress for 2 s {done}; threads {snap:?}"));
                            rec.op(format!("{line} blocked"), "admissible");
                        }
                        Exit::Timeout => { rec.oracle_fail(format!("child-timeout `{line}` still busy after {} s", child::HARD_LIMIT.as_secs())); rec.op(format!("{line} returned"), "timeout"); }
                    }
                }
                _ => { rec.op(line.clone(), "bad-op"); rec.stat("malformed"); }
            }
        }
    }
}

// ------------------------------------------------------------------------------------------------ child side

fn script(op: &UpdateOp, i: usize, lit: usize, panics: bool) -> String {
    let mut s = lit.to_string();
    for &(a, b, load) in &op.edges { if a == i { s.push_str(&format!(" {}S0:a{b}", if load { '+' } else { '?' })); } }
    if panics { s.push_str(" #"); }
    s
}

fn child_update(op: &UpdateOp) {
    crate::exec_world::quiet_panics();
    let src = MemSource::new(true);
    for i in 0..op.n { src.put(&format!("a{i}"), "s", FileSt::Bytes(script(op, i, i + 1, false).into_bytes().into(), 0)); }
    let cache = AssetCache::with_source(src.clone());
    for i in 0..op.n {
        if let Err(e) = cache.load::<S<0>>(&format!("a{i}")) { println!("O child-load-failed a{i}: {}", canon_error(&e)); }
        progress();
    }
    for i in 0..op.n {
        if op.changed.contains(&i) || op.pan.contains(&i) {
            src.put(&format!("a{i}"), "s", FileSt::Bytes(script(op, i, i + 101, op.pan.contains(&i)).into_bytes().into(), 0));
        }
    }
    let tx = src.sender().expect("hot source has a sender");
    for &i in &op.changed { let _ = tx.send(OwnedDirEntry::File(format!("a{i}").into(), "s".into())); }
    let t0 = std::time::Instant::now();
    while tx.verif_pending() > 0 && t0.elapsed().as_secs() < 10 { std::thread::yield_now(); }
    progress();
    let mark = src.lock().read_log.len();
    cache.hot_reload();
    progress();
    let log: Vec<String> = src.lock().read_log[mark..].to_vec();
    let mut order: Vec<usize> = vec![];
    for l in &log {
        if let Some(x) = l.strip_prefix("f:a").and_then(|r| r.strip_suffix(".s")).and_then(|r| r.parse::<usize>().ok()) { if !order.contains(&x) { order.push(x); } }
    }
    let set: BTreeSet<usize> = order.iter().copied().collect();
    println!("R reloaded {}", set_str(&set));
    println!("R order {}", order.iter().map(|x| x.to_string()).collect::<Vec<_>>().join(","));
    // a second call must return as well (immediately, if the thread is gone)
    cache.hot_reload();
    progress();
}

fn child_conc(t: usize, calls: usize, loaders: usize, events: usize) {
    crate::exec_world::quiet_panics();
    let src = MemSource::new(true);
    for i in 0..4 { src.put(&format!("a{i}"), "s", FileSt::Bytes(format!("{i}").into_bytes().into(), 0)); }
    for k in 0..loaders * 8 { src.put(&format!("b{k}"), "s", FileSt::Bytes(format!("{k} ?S0:a{}", k % 4).into_bytes().into(), 0)); }
    let cache = AssetCache::with_source(src.clone());
    for i in 0..4 { let _ = cache.load::<S<0>>(&format!("a{i}")); }
    let tx = src.sender().expect("hot source has a sender");
    let returned = std::sync::atomic::AtomicUsize::new(0);
    std::thread::scope(|s| {
        for k in 0..t {
            let (cache, returned) = (&cache, &returned);
            std::thread::Builder::new().name(format!("hr-caller-{k}")).spawn_scoped(s, move || {
                for _ in 0..calls { cache.hot_reload(); returned.fetch_add(1, std::sync::atomic::Ordering::Relaxed); progress(); }
            }).unwrap();
        }
        for l in 0..loaders {
            let cache = &cache;
            std::thread::Builder::new().name(format!("hr-loader-{l}")).spawn_scoped(s, move || {
                for c in 0..calls {
                    let _ = cache.load::<S<0>>(&format!("b{}", l * 8 + c % 8));
                    let _ = cache.get_or_insert::<i64>(&format!("g{l}-{}", c % 16), c as i64);
                    progress();
                }
            }).unwrap();
        }
        for e in 0..events {
            let (src, tx) = (&src, &tx);
            std::thread::Builder::new().name(format!("hr-events-{e}")).spawn_scoped(s, move || {
                for c in 0..calls {
                    let i = c % 4;
                    src.put(&format!("a{i}"), "s", FileSt::Bytes(format!("{}", c + 10).into_bytes().into(), 0));
                    let _ = tx.send(OwnedDirEntry::File(format!("a{i}").into(), "s".into()));
                    progress();
                }
            }).unwrap();
        }
        // the main thread reports how far the callers got (read by the parent if the child blocks)
        let returned = &returned;
        std::thread::Builder::new().name(child::REPORTER.into()).spawn_scoped(s, move || {
            let total = t * calls;
            loop {
                let r = returned.load(std::sync::atomic::Ordering::Relaxed);
                println!("R progress {r}/{total} calls returned");
                if r >= total { break; }
                std::thread::sleep(std::time::Duration::from_millis(200));
            }
        }).unwrap();
    });
    println!("R returned");
}

fn child_bulk(n: usize) {
    crate::exec_world::quiet_panics();
    let src = MemSource::new(true);
    src.put("a0", "s", FileSt::Bytes(b"1".to_vec().into(), 0));
    for i in 0..n { src.put(&format!("x{i}"), "s", FileSt::Bytes(format!("{}", i % 7).into_bytes().into(), 0)); }
    let cache = AssetCache::with_source(src.clone());
    if let Err(e) = cache.load::<S<0>>("a0") { println!("O child-load-failed a0: {}", canon_error(&e)); }
    progress();
    let mut script = String::from("2");
    for i in 0..n { script.push_str(&format!(" +S1:x{i}")); }
    src.put("a0", "s", FileSt::Bytes(script.into_bytes().into(), 0));
    let tx = src.sender().expect("hot source has a sender");
    let _ = tx.send(OwnedDirEntry::File("a0".into(), "s".into()));
    let t0 = std::time::Instant::now();
    while tx.verif_pending() > 0 && t0.elapsed().as_secs() < 10 { std::thread::yield_now(); }
    progress();
    let done = std::sync::atomic::AtomicBool::new(false);
    std::thread::scope(|s| {
        let (cache, done) = (&cache, &done);
        // side observer (excluded from the watchdog by its name): messages waiting on the cache->reloader channel
        std::thread::Builder::new().name(child::REPORTER.into()).spawn_scoped(s, move || {
            while !done.load(std::sync::atomic::Ordering::Relaxed) {
                if let Some(p) = cache.verif_msgs_pending() { println!("R pending {p}"); }
                std::thread::sleep(std::time::Duration::from_millis(100));
            }
        }).unwrap();
        cache.hot_reload();
        progress();
        done.store(true, std::sync::atomic::Ordering::Relaxed);
    });
    let cached = (0..n).filter(|i| cache.contains::<S<1>>(&format!("x{i}"))).count();
    let v = cache.get_cached::<S<0>>("a0").map(|h| h.read().0);
    let expect: i64 = 2 + (0..n).map(|i| (i % 7) as i64).sum::<i64>();
    if v != Some(expect) { println!("O bulk-value-wrong a0 = {v:?} after the reload, expected {expect}"); }
    println!("R returned {cached}");
}

fn child_fsodd(k: usize) {
    crate::exec_world::quiet_panics();
    let base = std::env::temp_dir().join(format!("amh-hrlive-{}", std::process::id()));
    let root = base.join("root");
    std::fs::create_dir_all(root.join("lvl").join("sub")).unwrap();
    std::fs::write(root.join("lvl").join("a.txt"), b"a").unwrap();
    std::fs::write(root.join("lvl").join("sub").join("b.txt"), b"b").unwrap();
    let cache = AssetCache::new(&root).expect("AssetCache::new");
    if let Err(e) = cache.load_rec_dir::<String>("lvl") { println!("O child-load-failed lvl: {}", canon_error(&e)); }
    progress();
    let mut n = 0;
    for round in 0..k {
        // hidden directory with content, hidden file, editor swap file: none of them is an asset, all of them are events
        let hid = root.join("lvl").join(format!(".thumbnails{round}"));
        let _ = std::fs::create_dir_all(hid.join("deeper"));
        let _ = std::fs::write(hid.join("t.txt"), b"t");
        let _ = std::fs::write(root.join("lvl").join(format!(".hidden{round}.txt")), b"h");
        let _ = std::fs::write(root.join("lvl").join(format!("c{round}.txt")), b"c");
        let _ = std::fs::write(root.join("lvl").join("sub").join(".b.txt.swp"), b"s");
        std::thread::sleep(std::time::Duration::from_millis(150));
        cache.hot_reload();
        n += 1;
        progress();
        // and a first load of the same tree (the listing is rebuilt from scratch)
        let fresh = AssetCache::new(&root).expect("AssetCache::new");
        let _ = fresh.load_rec_dir::<String>("");
        progress();
    }
    let ids = cache.load_rec_dir::<String>("lvl").map(|h| h.read().ids().count()).unwrap_or(0);
    if ids < 2 + k { println!("O bulk-reload-incomplete the recursive listing of lvl has {ids} ids after {k} rounds of new files, expected at least {}", 2 + k); }
    drop(cache);
    let _ = std::fs::remove_dir_all(&base);
    println!("R returned {n}");
}

fn child_static(k: usize) {
    crate::exec_world::quiet_panics();
    let src = MemSource::new(true);
    src.put("a0", "s", FileSt::Bytes(b"1".to_vec().into(), 0));
    let cache: &'static AssetCache<MemSource> = Box::leak(Box::new(AssetCache::with_source(src.clone())));
    if let Err(e) = cache.load::<S<0>>("a0") { println!("O child-load-failed a0: {}", canon_error(&e)); }
    cache.enhance_hot_reloading();
    progress();
    let mut n = 0;
    for i in 0..k {
        if i == 1 {
            // an edit applied by the static reloader on its own, then another call
            src.put("a0", "s", FileSt::Bytes(b"2".to_vec().into(), 0));
            if let Some(tx) = src.sender() { let _ = tx.send(OwnedDirEntry::File("a0".into(), "s".into())); }
        }
        cache.hot_reload();
        n += 1;
        progress();
    }
    println!("R returned {n}");
}

pub fn child_main(line: &str) {
    let w: Vec<&str> = line.split_whitespace().collect();
    match w.first().copied() {
        Some("hr.update") => match parse_update(&w) { Some(op) => child_update(&op), None => std::process::exit(3) },
        Some("hr.bulk") => match parse_bulk(&w) { Some(n) => child_bulk(n), None => std::process::exit(3) },
        Some("hr.fsodd") => match w.get(1).and_then(|x| x.parse::<usize>().ok()) { Some(k) => child_fsodd(k), None => std::process::exit(3) },
        Some("hr.static") => match w.get(1).and_then(|x| x.parse::<usize>().ok()) { Some(k) => child_static(k), None => std::process::exit(3) },
        Some("hr.conc") => match parse_conc(&w) { Some((t, c, l, e)) => child_conc(t, c, l, e), None => std::process::exit(3) },
        _ => std::process::exit(3),
    }
}
