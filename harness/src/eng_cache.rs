//! Engine `cache` (C02, sequential part of C01): random / bounded-exhaustive operation sequences
//! over the whole public map API on every front-end, with script compounds (nested loads, failing
//! loads, load_owned, directories). Oracle: the statement of C02 evaluated on snapshots of the
//! cache taken after every operation (which keys are present, their value, their handle).

use crate::common::*;
use crate::exec_world::*;
use std::collections::BTreeMap;

#[derive(Default)]
pub struct CacheEngine;

pub const IDS: &[&str] = &["a", "b", "c", "d.x", "d.y", "d.e.z", "e"];
const ODD_IDS: &[&str] = &["", "é", "a b", "zz.long.name.with.many.components.and.a.rather.long.tail.0123456789", "A"];
const LOAD_TYPES: &[&str] = &["S0", "S1", "N0", "M20", "M31", "M00", "M11", "D2", "R2", "D3"];
const INS_TYPES: &[&str] = &["I", "S0", "N0", "M20", "S1"];

/// types a script may hand to `get_or_insert` (`@T:id:n`)
const SCRIPT_INS_TYPES: &[&str] = &["S0", "S1", "N0", "S2", "M20", "I", "AS"];

/// `goi`: a share of the tokens are `@T:id:n` (`get_or_insert` from inside the loader, on any id — one third on the
/// script's own id: a loader filling a slot of its own id, for `T` = its own type the very slot being loaded).
/// `get_or_insert` never runs a loader, so it cannot create a load cycle. With `goi = false` the random stream is
/// the one the engines had before the token existed.
pub fn gen_script(rng: &mut Prng, rank: usize, allow_fail: bool, goi: bool) -> String {
    let n = rng.range(0, 4);
    let mut toks = vec![rng.below(50).to_string()];
    for _ in 0..n {
        if goi && rng.chance(1, 10) {
            let id = if rank < IDS.len() && rng.chance(1, 3) { IDS[rank] } else { *rng.pick(IDS) };
            toks.push(format!("@{}:{id}:{}", *rng.pick(SCRIPT_INS_TYPES), rng.below(1000)));
            continue;
        }
        let higher: Vec<&str> = IDS.iter().skip(rank + 1).copied().collect();
        let any_id = *rng.pick(IDS);
        let t = *rng.pick(&["S0", "S1", "N0", "M20", "M31", "S2"]);
        let r = rng.below(20);
        if higher.is_empty() || r < 3 { toks.push(rng.below(9).to_string()); continue; }
        let tgt = *rng.pick(&higher);
        toks.push(match r {
            3..=8 => format!("+{t}:{tgt}"),
            9..=10 => format!("={t}:{tgt}"),
            11..=12 => format!("?{t}:{any_id}"),
            13 => format!("!{t}:{tgt}"),
            14 => format!("~{t}:{tgt}"),
            15 => format!("&{t}:{tgt}"),
            16 => format!("r:{any_id}:a"),
            17 => format!("^{t}:{tgt}"),
            18 if allow_fail => "%".to_string(),
            19 if allow_fail => "#".to_string(),
            _ => format!("+D2:{}", if tgt.contains('.') { "d" } else { "" }),
        });
    }
    toks.join(" ")
}

/// Returns the ids whose scripts form a re-entrant pair (only with `goi`): a parent `p` that fills ITS OWN slot with
/// `get_or_insert` and then loads a child `c` that loads the parent back (`p.s = "k @T:p:n +T:c"`, `c.s = "k +T:p"`).
/// The back-load is a hit on the provisional entry, so the recursion stops — as long as `p.s` starts with that
/// `get_or_insert`: callers must not replace the scripts of the returned ids by scripts that load.
pub fn gen_source(rng: &mut Prng, l: &mut Vec<String>, allow_fail: bool, goi: bool) -> Vec<&'static str> {
    let pinned = gen_source_inner(rng, l, allow_fail, goi);
    if !goi || !rng.chance(1, 5) { return pinned; }
    let pi = rng.below(IDS.len() - 1);
    let ci = rng.range(pi + 1, IDS.len() - 1);
    let (p, c) = (IDS[pi], IDS[ci]);
    let t = *rng.pick(&["S0", "S1", "N0", "S2", "S0"]);
    let mut ps = format!("{} @{t}:{p}:{} {}{t}:{c}", rng.below(50), rng.range(100, 999), if rng.chance(1, 4) { "=" } else { "+" });
    if rng.chance(1, 3) { ps.push_str(&format!(" ?{t}:{p}")); }
    let mut cs = format!("{} +{t}:{p}", rng.below(50));
    if rng.chance(1, 3) { cs.push_str(&format!(" @{t}:{c}:{}", rng.range(100, 999))); }
    l.push(format!("src.put {} {} {} 0", hexs(p), hexs("s"), hexs(&ps)));
    l.push(format!("src.put {} {} {} 0", hexs(c), hexs("s"), hexs(&cs)));
    vec![p, c]
}

fn gen_source_inner(rng: &mut Prng, l: &mut Vec<String>, allow_fail: bool, goi: bool) -> Vec<&'static str> {
    for (rank, id) in IDS.iter().enumerate() {
        if rng.chance(5, 6) { l.push(format!("src.put {} {} {} {}", hexs(id), hexs("s"), hexs(&gen_script(rng, rank, allow_fail, goi)), rng.below(3))); }
        for ext in ["a", "b"] {
            match rng.below(8) {
                0..=3 => l.push(format!("src.put {} {} {} {}", hexs(id), hexs(ext), hexs(&format!("ok:{}", rng.below(100))), rng.below(3))),
                4 => l.push(format!("src.put {} {} {} 0", hexs(id), hexs(ext), hexs("garbage"))),
                5 if allow_fail => l.push(format!("src.bad {} {} PermissionDenied", hexs(id), hexs(ext))),
                _ => {}
            }
        }
    }
    vec![]
}

impl Engine for CacheEngine {
    fn name(&self) -> &'static str { "cache" }

    fn gen_case(&mut self, rng: &mut Prng, tier: Tier, idx: usize) -> Vec<String> {
        let mut l = vec![];
        let fe = *rng.pick(&["shared", "any", "local", "localany", "shared"]);
        let mode = *rng.pick(&["hot", "nohot-ctor", "nohot-src", "hot"]);
        l.push(format!("cfg {fe} {mode}"));
        if idx % 7 == 0 {
            // bounded-exhaustive slice: all sequences of length 3 over 2 ids x 2 types x ops, sliced by seed
            l.push(format!("src.put {} {} {} 0", hexs("a"), hexs("s"), hexs("1 +S1:b")));
            l.push(format!("src.put {} {} {} 0", hexs("b"), hexs("s"), hexs("2")));
            let ops: Vec<String> = ["a", "b"].iter().flat_map(|id| ["S0", "S1"].iter().flat_map(move |t| {
                let h = hexs(id);
                vec![format!("load {t} {h}"), format!("owned {t} {h}"), format!("cached {t} {h}"), format!("goi {t} {h} 7"), format!("contains {t} {h}"), format!("remove {t} {h}"), format!("take {t} {h}")]
            })).chain(["clear".to_string()]).collect();
            let n = ops.len();
            let start = rng.below(n * n * n);
            for k in 0..(if tier == Tier::Thorough { 400 } else { 60 }) {
                let code = (start + k) % (n * n * n);
                l.push("clear".into());
                for d in [code / (n * n), code / n % n, code % n] { l.push(ops[d].clone()); }
                l.push("dump".into());
            }
            return l;
        }
        if idx % 7 == 3 {
            // long ids that share long prefixes (asset trees look like that): every operation on one key has to reach the
            // same shard whatever the id's length (seeded change C02-g hashed a 24-byte prefix in `get_shard` only, so
            // `remove` / `take` looked into another shard than `insert`)
            let pre = *rng.pick(&["assets.textures.characters.hero", "a.very.long.directory.name.of.more.than.twenty-four.bytes", "0123456789012345678901234"]);
            let k = rng.range(6, 16);
            let ids: Vec<String> = (0..k).map(|i| format!("{pre}.{}{i}", "x".repeat(rng.below(3)))).collect();
            for id in &ids { l.push(format!("goi {} {} {}", *rng.pick(&["I", "N0"]), hexs(id), rng.below(1000))); }
            for id in &ids { let h = hexs(id); let t = *rng.pick(&["I", "N0"]);
                l.push(format!("contains {t} {h}")); l.push(format!("cached {t} {h}"));
                l.push(format!("{} {t} {h}", *rng.pick(&["remove", "take", "take", "remove", "contains"])));
                l.push(format!("contains {t} {h}")); }
            l.push("dump".into());
            for id in &ids { if rng.chance(1, 2) { l.push(format!("goi I {} 5", hexs(id))); l.push(format!("take I {}", hexs(id))); } }
            l.push("dump".into());
            return l;
        }
        let malformed = idx % 5 == 4;
        let pinned = gen_source(rng, &mut l, true, true);
        let n = rng.range(5, if tier == Tier::Thorough { 60 } else { 30 });
        for _ in 0..n {
            let id = if malformed && rng.chance(1, 2) { *rng.pick(ODD_IDS) } else if rng.chance(1, 12) { "nonexistent" } else { *rng.pick(IDS) };
            let h = hexs(id);
            let lt = *rng.pick(LOAD_TYPES);
            let it = *rng.pick(INS_TYPES);
            let anyt = if rng.chance(1, 2) { lt } else { it };
            l.push(match rng.below(22) {
                0..=5 => format!("load {lt} {h}"),
                6 => format!("expect {lt} {h}"),
                7 => format!("owned {lt} {h}"),
                8..=9 => format!("cached {anyt} {h}"),
                10..=12 => format!("goi {it} {h} {}", rng.below(1000)),
                13..=14 => format!("contains {anyt} {h}"),
                15..=16 => format!("remove {anyt} {h}"),
                17 => format!("take {anyt} {h}"),
                18 => if rng.chance(1, 3) { "clear".into() } else { format!("load {} {}", if rng.chance(1, 2) { "D2" } else { "R3" }, hexs(if rng.chance(1, 2) { "" } else { "d" })) },
                19 => format!("src.put {h} {} {} {}", hexs("a"), hexs(&format!("ok:{}", rng.below(100))), rng.below(3)),
                // (the scripts of a re-entrant pair stay: the parent's own-slot get_or_insert is what stops the recursion)
                20 if pinned.contains(&id) => format!("load {} {h}", *rng.pick(&["S0", "S1", "N0", "S2"])),
                20 => format!("src.put {h} {} {} 0", hexs("s"), hexs(&gen_script(rng, IDS.iter().position(|x| *x == id).unwrap_or(IDS.len()), true, true))),
                _ => "dump".into(),
            });
        }
        l.push("dump".into());
        l
    }

    fn exec_case(&mut self, lines: &[String], rec: &mut CaseRec) {
        let mut it = lines.iter();
        let first = it.next().map(|s| s.split_whitespace().collect::<Vec<_>>()).unwrap_or_default();
        if first.len() != 3 || first[0] != "cfg" { rec.op(lines.first().cloned().unwrap_or_default(), "bad-op"); return; }
        let mut wx = WorldExec::new(first[1], first[2]);
        rec.op(lines[0].clone(), "ok");
        rec.stat(format!("frontend={}", first[1]));
        rec.stat(format!("mode={}", first[2]));
        let mut snap = wx.snapshot();
        let mut tracker = SeenTracker::begin();
        for line in it {
            let w: Vec<&str> = line.split_whitespace().collect();
            let out = wx.op(line);
            rec.op(line.clone(), out.clone());
            let opname = w.first().copied().unwrap_or("");
            let cls = out.split_whitespace().next().unwrap_or("");
            rec.stat(format!("op={opname}/{}", if cls.starts_with('h') { "handle" } else { cls }));
            if out != "bad-op" && !opname.starts_with("src.") && opname != "dump" { rec.nontrivial = true; }
            let after = wx.snapshot();
            // ---- oracle of C01 (sequential part): one stable handle per key, also for the handles loaders were given
            let goi_filled = SeenTracker::goi_targets();
            // keys a loader filled itself (get_or_insert) or that a nested load cached (a child loading its parent back while the
            // parent is being loaded — possible without unbounded recursion once the parent has filled its own slot)
            let nested = SeenTracker::loader_obtained();
            for f in tracker.after_op(&wx, line, &after) { rec.oracle_fail(f); }
            if !goi_filled.is_empty() { rec.stat("loader-get-or-insert"); }
            // ---- oracle: the statement of C02 on the snapshots
            let key = if w.len() >= 3 { Some((w[1].to_string(), unhexs(w[2]))) } else { None };
            let added: Vec<_> = after.keys().filter(|k| !snap.contains_key(*k)).cloned().collect();
            let removed: Vec<_> = snap.keys().filter(|k| !after.contains_key(*k)).cloned().collect();
            let changed: Vec<_> = after.iter().filter(|(k, v)| snap.get(*k).map_or(false, |o| o != *v)).map(|(k, _)| k.clone()).collect();
            if !changed.is_empty() { rec.oracle_fail(format!("entry-changed `{line}` changed existing entries {changed:?}")); }
            match opname {
                "load" | "owned" | "goi" => {
                    if !removed.is_empty() { rec.oracle_fail(format!("entry-vanished `{line}` removed {removed:?}")); }
                    let own = key.clone().unwrap();
                    let ok = out.starts_with("ok ") || opname == "goi";
                    if opname == "load" && ok && !after.contains_key(&own) { rec.oracle_fail(format!("load-not-cached `{line}` succeeded but the key is absent")); }
                    // (a key a loader filled itself with get_or_insert, or cached by a nested load, is not an addition of this operation)
                    if opname == "load" && !ok && added.contains(&own) && !nested.contains(&own) { rec.oracle_fail(format!("failed-load-cached `{line}` failed but cached its own key")); }
                    if opname == "owned" && added.contains(&own) && !nested.contains(&own) { rec.oracle_fail(format!("load-owned-cached `{line}` cached its own key")); }
                    if opname == "goi" {
                        if !snap.contains_key(&own) && !(added.len() == 1 && added[0] == own) && out != "bad-op" { rec.oracle_fail(format!("goi-wrong-add `{line}` added {added:?}")); }
                        if snap.contains_key(&own) && !added.is_empty() { rec.oracle_fail(format!("goi-wrong-add `{line}` on a present key added {added:?}")); }
                        if let Some((v, _)) = snap.get(&own) { if !out.ends_with(v.as_str()) { rec.oracle_fail(format!("goi-overwrote `{line}` returned {out}, stored was {v}")); } }
                    }
                    // hit: same handle and value as before
                    if opname == "load" && ok { if let (Some(b), Some(a)) = (snap.get(&own), after.get(&own)) { if a != b { rec.oracle_fail(format!("hit-changed `{line}`")); } } }
                }
                "cached" | "contains" | "dump" | "src.put" | "src.bad" | "src.rm" | "src.mkdir" | "src.rmdir" | "cfg" => {
                    if !added.is_empty() || !removed.is_empty() { rec.oracle_fail(format!("readonly-op-mutated `{line}` added {added:?} removed {removed:?}")); }
                    if let (Some(k), true) = (&key, opname == "contains") { if out != snap.contains_key(k).to_string() && out != "bad-op" { rec.oracle_fail(format!("contains-wrong `{line}` said {out}")); } }
                    if let (Some(k), true) = (&key, opname == "cached") { if (out == "none") == snap.contains_key(k) && out != "bad-op" { rec.oracle_fail(format!("get-cached-wrong `{line}` said {out}")); } }
                }
                "remove" | "take" => {
                    let own = key.clone().unwrap();
                    if !added.is_empty() { rec.oracle_fail(format!("remove-added `{line}` added {added:?}")); }
                    let expect: Vec<_> = if snap.contains_key(&own) { vec![own.clone()] } else { vec![] };
                    if removed != expect && out != "bad-op" { rec.oracle_fail(format!("remove-wrong-set `{line}` removed {removed:?}, expected {expect:?}")); }
                    if opname == "take" { if let Some((v, _)) = snap.get(&own) { if out != format!("some {v}") { rec.oracle_fail(format!("take-wrong-value `{line}` gave {out}, stored {v}")); } } else if out != "none" && out != "bad-op" { rec.oracle_fail(format!("take-wrong-value `{line}` gave {out} for an absent key")); } }
                    if opname == "remove" && out != snap.contains_key(&own).to_string() && out != "bad-op" { rec.oracle_fail(format!("remove-wrong-result `{line}` said {out}")); }
                }
                "clear" => { if !after.is_empty() { rec.oracle_fail(format!("clear-left-entries {:?}", after.keys().collect::<Vec<_>>())); } }
                _ => {}
            }
            snap = after;
        }
        let _ = BTreeMap::<u8, u8>::new();
    }
}
