//! The harness's type universe and in-memory source (mirrored by lean/AmVerif/Model/Types.lean).

use crate::common::*;
use assets_manager::{
    hot_reloading::EventSender,
    loader::Loader,
    source::{DirEntry, FileContent, Source},
    AnyCache, Asset, BoxedError, Compound, Directory, RecursiveDirectory, SharedString,
};
use std::{
    borrow::Cow,
    collections::{BTreeMap, BTreeSet},
    fmt, io,
    sync::{Arc, Mutex},
};

// ------------------------------------------------------------------ errors

#[derive(Debug)]
pub struct Tag(pub String);
impl fmt::Display for Tag { fn fmt(&self, f: &mut fmt::Formatter) -> fmt::Result { f.write_str(&self.0) } }
impl std::error::Error for Tag {}

#[derive(Debug)]
pub struct ConvErr(pub String);
impl fmt::Display for ConvErr { fn fmt(&self, f: &mut fmt::Formatter) -> fmt::Result { write!(f, "bad content for .{}", self.0) } }
impl std::error::Error for ConvErr {}

#[derive(Debug)]
pub struct CustomErr(pub &'static str);
impl fmt::Display for CustomErr { fn fmt(&self, f: &mut fmt::Formatter) -> fmt::Result { f.write_str(self.0) } }
impl std::error::Error for CustomErr {}

pub fn kind_name(k: io::ErrorKind) -> String { format!("{k:?}") }
pub fn kind_of_name(s: &str) -> io::ErrorKind {
    match s {
        "NotFound" => io::ErrorKind::NotFound,
        "PermissionDenied" => io::ErrorKind::PermissionDenied,
        "InvalidData" => io::ErrorKind::InvalidData,
        "Interrupted" => io::ErrorKind::Interrupted,
        "UnexpectedEof" => io::ErrorKind::UnexpectedEof,
        _ => io::ErrorKind::Other,
    }
}

/// Canonical text of an error reason (same function as `canonErr` in the Lean model).
pub fn canon_reason(e: &(dyn std::error::Error + 'static)) -> String {
    if let Some(io) = e.downcast_ref::<io::Error>() {
        let tag = io.get_ref().map(|r| r.to_string()).unwrap_or_default();
        return format!("io:{}:{}", kind_name(io.kind()), hexs(&tag));
    }
    if let Some(c) = e.downcast_ref::<ConvErr>() { return format!("conv:{}", hexs(&c.0)); }
    if let Some(c) = e.downcast_ref::<CustomErr>() { return format!("custom:{}", c.0); }
    if let Some(inner) = e.downcast_ref::<assets_manager::Error>() { return canon_error(inner); }
    if e.to_string() == "the asset has neither extension nor default value" { return "nodefault".into(); }
    if e.downcast_ref::<std::str::Utf8Error>().is_some() { return "custom:parse".into(); }
    format!("unknown:{}", hexs(&e.to_string()))
}
pub fn canon_error(e: &assets_manager::Error) -> String { format!("in:{}/{}", hexs(e.id()), canon_reason(e.reason())) }

// ------------------------------------------------------------------ in-memory source

#[derive(Clone, Debug)]
pub enum FileSt { Bytes(Arc<[u8]>, u8), Unreadable(String) }

#[derive(Default)]
pub struct MemInner {
    pub files: BTreeMap<(String, String), FileSt>,
    pub dirs: BTreeSet<String>,
    /// source-read index ↦ io kind
    pub faults: BTreeMap<usize, String>,
    pub ios: usize,
    pub sender: Option<EventSender>,
    pub hot: bool,
    /// `configure_hot_reloading` keeps the sender (as a source that registers with its notifier first would) and then fails
    pub cfg_fail: bool,
    pub read_log: Vec<String>,
}

#[derive(Clone)]
pub struct MemSource(pub Arc<Mutex<MemInner>>);

pub fn parent_id(id: &str) -> Option<&str> {
    if id.is_empty() { None } else { Some(match id.rfind('.') { Some(n) => &id[..n], None => "" }) }
}

impl MemSource {
    pub fn new(hot: bool) -> Self { MemSource(Arc::new(Mutex::new(MemInner { hot, ..Default::default() }))) }
    pub fn lock(&self) -> std::sync::MutexGuard<'_, MemInner> { self.0.lock().unwrap_or_else(|e| e.into_inner()) }
    fn mkdirs(inner: &mut MemInner, id: &str) {
        let mut cur = id;
        while !cur.is_empty() { inner.dirs.insert(cur.to_string()); cur = parent_id(cur).unwrap_or(""); }
    }
    pub fn put(&self, id: &str, ext: &str, st: FileSt) {
        let mut g = self.lock();
        if let Some(p) = parent_id(id) { let p = p.to_string(); Self::mkdirs(&mut g, &p); }
        g.files.insert((id.to_string(), ext.to_string()), st);
    }
    pub fn rm(&self, id: &str, ext: &str) { self.lock().files.remove(&(id.to_string(), ext.to_string())); }
    pub fn mkdir(&self, id: &str) { let mut g = self.lock(); Self::mkdirs(&mut g, id); }
    pub fn rmdir(&self, id: &str) {
        let mut g = self.lock();
        let pre = format!("{id}.");
        g.dirs.retain(|d| d != id && !d.starts_with(&pre));
        g.files.retain(|(f, _), _| f != id && !f.starts_with(&pre) || id.is_empty());
    }
    pub fn sender(&self) -> Option<EventSender> { self.lock().sender.clone() }
    fn fault(g: &mut MemInner, tag: String) -> Option<io::Error> {
        let k = g.ios;
        g.ios += 1;
        g.faults.get(&k).map(|kind| io::Error::new(kind_of_name(kind), Tag(tag)))
    }
}

impl Source for MemSource {
    fn read(&self, id: &str, ext: &str) -> io::Result<FileContent> {
        let mut g = self.lock();
        let tag = format!("{id}.{ext}");
        g.read_log.push(format!("f:{tag}"));
        if let Some(e) = Self::fault(&mut g, tag.clone()) { return Err(e); }
        match g.files.get(&(id.to_string(), ext.to_string())) {
            None => Err(io::Error::new(io::ErrorKind::NotFound, Tag(tag))),
            Some(FileSt::Unreadable(kind)) => Err(io::Error::new(kind_of_name(kind), Tag(tag))),
            Some(FileSt::Bytes(b, variant)) => Ok(match variant % 3 {
                0 => FileContent::Buffer(b.to_vec()),
                1 => FileContent::from_owned(b.clone()),
                // a slice that outlives `&self`: leaked (test harness, small contents only)
                _ => FileContent::Slice(Box::leak(b.to_vec().into_boxed_slice())),
            }),
        }
    }

    fn read_dir(&self, id: &str, f: &mut dyn FnMut(DirEntry)) -> io::Result<()> {
        let (files, dirs) = {
            let mut g = self.lock();
            g.read_log.push(format!("d:{id}"));
            if let Some(e) = Self::fault(&mut g, id.to_string()) { return Err(e); }
            if !id.is_empty() && !g.dirs.contains(id) { return Err(io::Error::new(io::ErrorKind::NotFound, Tag(id.to_string()))); }
            let files: Vec<(String, String)> = g.files.keys().filter(|(fid, _)| parent_id(fid) == Some(id)).cloned().collect();
            let dirs: Vec<String> = g.dirs.iter().filter(|d| parent_id(d) == Some(id)).cloned().collect();
            (files, dirs)
        };
        for (fid, ext) in &files { f(DirEntry::File(fid, ext)); }
        for d in &dirs { f(DirEntry::Directory(d)); }
        Ok(())
    }

    fn exists(&self, entry: DirEntry) -> bool {
        let g = self.lock();
        match entry {
            DirEntry::File(id, ext) => g.files.contains_key(&(id.to_string(), ext.to_string())),
            DirEntry::Directory(id) => id.is_empty() || g.dirs.contains(id),
        }
    }

    fn make_source(&self) -> Option<Box<dyn Source + Send>> {
        if self.lock().hot { Some(Box::new(self.clone())) } else { None }
    }

    fn configure_hot_reloading(&self, events: EventSender) -> Result<(), BoxedError> {
        let mut g = self.lock();
        g.sender = Some(events);
        if g.cfg_fail { return Err("the watcher could not be started".into()); }
        Ok(())
    }
}

// ------------------------------------------------------------------ ownership ledger (C13)

/// Identity of one value produced by a loader or passed to `get_or_insert`: creation and drop are
/// recorded in a process-wide ledger, so "dropped exactly once" is observable.
#[derive(Debug)]
pub struct Uid(pub u64);

#[derive(Default)]
pub struct Ledger { pub next: u64, pub created: Vec<u64>, pub dropped: Vec<u64> }
pub static LEDGER: Mutex<Ledger> = Mutex::new(Ledger { next: 0, created: Vec::new(), dropped: Vec::new() });
pub fn ledger() -> std::sync::MutexGuard<'static, Ledger> { LEDGER.lock().unwrap_or_else(|e| e.into_inner()) }

impl Uid {
    pub fn new() -> Uid { let mut l = ledger(); let u = l.next; l.next += 1; l.created.push(u); Uid(u) }
}
impl Drop for Uid {
    fn drop(&mut self) { ledger().dropped.push(self.0); }
}

// ------------------------------------------------------------------ assets M<E, D>

pub const EXT_TABLE: [&[&str]; 6] = [&[], &[""], &["a"], &["a", "b"], &["a", "b", "c"], &["x", "a"]];

#[derive(Debug)]
pub struct M<const E: usize, const D: bool> { pub val: i64, pub ext: String, pub bytes: Vec<u8>, pub uid: Uid }

pub struct MLoader;
impl<const E: usize, const D: bool> Loader<M<E, D>> for MLoader {
    fn load(content: Cow<[u8]>, ext: &str) -> Result<M<E, D>, BoxedError> {
        let bad = || -> BoxedError { Box::new(ConvErr(ext.to_string())) };
        let s = std::str::from_utf8(&content).map_err(|_| bad())?;
        let n = s.strip_prefix("ok:").ok_or_else(bad)?;
        let val = parse_int(n).ok_or_else(bad)?;
        Ok(M { val, ext: ext.to_string(), bytes: content.to_vec(), uid: Uid::new() })
    }
}

/// `-?[0-9]+`, arbitrary size is out of scope: the generators stay far below i64.
pub fn parse_int(s: &str) -> Option<i64> {
    let (neg, digits) = match s.strip_prefix('-') { Some(r) => (true, r), None => (false, s) };
    if digits.is_empty() || !digits.bytes().all(|b| b.is_ascii_digit()) || digits.len() > 15 { return None; }
    let n: i64 = digits.parse().ok()?;
    Some(if neg { -n } else { n })
}

impl<const E: usize, const D: bool> Asset for M<E, D> {
    const EXTENSIONS: &'static [&'static str] = EXT_TABLE[E];
    type Loader = MLoader;
    fn default_value(_id: &SharedString, error: BoxedError) -> Result<Self, BoxedError> {
        if D { Ok(M { val: -1, ext: canon_reason(&*error), bytes: vec![], uid: Uid::new() }) } else { Err(error) }
    }
}

// ------------------------------------------------------------------ script compounds

#[derive(Debug)]
pub struct S<const K: usize>(pub i64, pub Uid);
#[derive(Debug)]
pub struct N0(pub i64, pub Uid);

/// loader invocation counter / fault plan for script loaders (global: reloads run on the reloader thread)
pub static LOADER_FAULTS: Mutex<(usize, BTreeMap<usize, bool>)> = Mutex::new((0, BTreeMap::new()));
pub fn loader_faults() -> std::sync::MutexGuard<'static, (usize, BTreeMap<usize, bool>)> { LOADER_FAULTS.lock().unwrap_or_else(|e| e.into_inner()) }

/// Log of script-loader invocations `(type, id, nesting depth on the invoking thread)`, in checkpoint order; filled
/// only while `LOG_LOADERS` is set (engine `fault` maps a checkpoint / read index to the asset being loaded).
pub static LOG_LOADERS: std::sync::atomic::AtomicBool = std::sync::atomic::AtomicBool::new(false);
pub static LOADER_LOG: Mutex<Vec<(String, String, usize)>> = Mutex::new(Vec::new());
pub fn loader_log() -> std::sync::MutexGuard<'static, Vec<(String, String, usize)>> { LOADER_LOG.lock().unwrap_or_else(|e| e.into_inner()) }
thread_local! { static SCRIPT_DEPTH: std::cell::Cell<usize> = const { std::cell::Cell::new(0) }; }
struct DepthGuard;
impl Drop for DepthGuard { fn drop(&mut self) { SCRIPT_DEPTH.with(|d| d.set(d.get().saturating_sub(1))); } }

/// What a loader saw of a cache entry through a handle it was given (`load`, `get_cached`, `get_or_insert` from inside
/// `Compound::load`): key, how it got the handle, address of the handle, canonical value, ledger identity of the value.
/// Filled only while `LOG_SEEN` is set (engines `cache` / `own`: C01 "the very same handle" and C13 "never dropped
/// while a handle can still reach it" also hold of the handles given to loaders — re-entrant fills of a slot).
#[derive(Debug, Clone)]
pub struct Seen { pub ty: String, pub id: String, pub how: &'static str, pub addr: usize, pub val: String, pub uid: Option<u64> }
pub static LOG_SEEN: std::sync::atomic::AtomicBool = std::sync::atomic::AtomicBool::new(false);
pub static SEEN_LOG: Mutex<Vec<Seen>> = Mutex::new(Vec::new());
pub fn seen_log() -> std::sync::MutexGuard<'static, Vec<Seen>> { SEEN_LOG.lock().unwrap_or_else(|e| e.into_inner()) }
pub fn note_seen<T: Canon>(ty: &str, id: &str, how: &'static str, h: &assets_manager::Handle<T>) {
    if !LOG_SEEN.load(std::sync::atomic::Ordering::Relaxed) { return; }
    let g = h.read();
    let s = Seen { ty: ty.to_string(), id: id.to_string(), how, addr: h as *const _ as usize, val: g.canon(), uid: g.uid() };
    drop(g);
    seen_log().push(s);
}

pub trait Canon: Sized + Send + Sync + 'static {
    fn canon(&self) -> String;
    fn as_int(&self) -> i64;
    fn from_int(_i: i64) -> Option<Self> { None }
    /// identity of the value in the ownership ledger (tracked types only)
    fn uid(&self) -> Option<u64> { None }
}
impl<const K: usize> Canon for S<K> { fn canon(&self) -> String { format!("v:{}", self.0) } fn as_int(&self) -> i64 { self.0 } fn from_int(i: i64) -> Option<Self> { Some(S(i, Uid::new())) } fn uid(&self) -> Option<u64> { Some((self.1).0) } }
impl Canon for N0 { fn canon(&self) -> String { format!("v:{}", self.0) } fn as_int(&self) -> i64 { self.0 } fn from_int(i: i64) -> Option<Self> { Some(N0(i, Uid::new())) } fn uid(&self) -> Option<u64> { Some((self.1).0) } }
impl<T: Canon> Canon for std::sync::Arc<T> { fn canon(&self) -> String { (**self).canon() } fn as_int(&self) -> i64 { (**self).as_int() } fn from_int(i: i64) -> Option<Self> { T::from_int(i).map(std::sync::Arc::new) } fn uid(&self) -> Option<u64> { (**self).uid() } }
impl Canon for i64 { fn canon(&self) -> String { format!("v:{self}") } fn as_int(&self) -> i64 { *self } fn from_int(i: i64) -> Option<Self> { Some(i) } }
impl<const E: usize, const D: bool> Canon for M<E, D> {
    fn canon(&self) -> String { format!("m:{}:{}:{}", self.val, hexs(&self.ext), hex(&self.bytes)) }
    fn as_int(&self) -> i64 { self.val }
    fn from_int(i: i64) -> Option<Self> { Some(M { val: i, ext: String::new(), bytes: vec![], uid: Uid::new() }) }
    fn uid(&self) -> Option<u64> { Some(self.uid.0) }
}
fn canon_ids<'a>(it: impl Iterator<Item = &'a SharedString>) -> String {
    format!("ids:{}", it.map(|s| hexs(s)).collect::<Vec<_>>().join(","))
}
impl<T: Send + Sync + 'static> Canon for Directory<T> { fn canon(&self) -> String { canon_ids(self.ids()) } fn as_int(&self) -> i64 { self.ids().len() as i64 } }
impl<T: Send + Sync + 'static> Canon for RecursiveDirectory<T> { fn canon(&self) -> String { canon_ids(self.ids()) } fn as_int(&self) -> i64 { self.ids().len() as i64 } }

/// Run `$body` with `$T` bound to the Compound type named `$name`.
#[macro_export]
macro_rules! with_compound {
    ($name:expr, $T:ident => $body:expr, else $other:expr) => {{
        use $crate::types::*;
        use assets_manager::{Directory, RecursiveDirectory};
        match $name {
            "S0" => { type $T = S<0>; $body } "S1" => { type $T = S<1>; $body } "S2" => { type $T = S<2>; $body }
            "N0" => { type $T = N0; $body }
            "AN" => { type $T = std::sync::Arc<N0>; $body } "AS" => { type $T = std::sync::Arc<S<0>>; $body }
            "M00" => { type $T = M<0, false>; $body } "M01" => { type $T = M<0, true>; $body }
            "M10" => { type $T = M<1, false>; $body } "M11" => { type $T = M<1, true>; $body }
            "M20" => { type $T = M<2, false>; $body } "M21" => { type $T = M<2, true>; $body }
            "M30" => { type $T = M<3, false>; $body } "M31" => { type $T = M<3, true>; $body }
            "M40" => { type $T = M<4, false>; $body } "M41" => { type $T = M<4, true>; $body }
            "M50" => { type $T = M<5, false>; $body } "M51" => { type $T = M<5, true>; $body }
            "D0" => { type $T = Directory<M<0, false>>; $body } "D1" => { type $T = Directory<M<1, false>>; $body }
            "D2" => { type $T = Directory<M<2, false>>; $body } "D3" => { type $T = Directory<M<3, false>>; $body }
            "D4" => { type $T = Directory<M<4, false>>; $body } "D5" => { type $T = Directory<M<5, false>>; $body }
            "R0" => { type $T = RecursiveDirectory<M<0, false>>; $body } "R1" => { type $T = RecursiveDirectory<M<1, false>>; $body }
            "R2" => { type $T = RecursiveDirectory<M<2, false>>; $body } "R3" => { type $T = RecursiveDirectory<M<3, false>>; $body }
            "R4" => { type $T = RecursiveDirectory<M<4, false>>; $body } "R5" => { type $T = RecursiveDirectory<M<5, false>>; $body }
            _ => $other,
        }
    }};
}

/// Run `$body` with `$T` bound to a type that can be constructed from an integer (get_or_insert).
#[macro_export]
macro_rules! with_insertable {
    ($name:expr, $T:ident => $body:expr, else $other:expr) => {{
        use $crate::types::*;
        match $name {
            "S0" => { type $T = S<0>; $body } "S1" => { type $T = S<1>; $body } "S2" => { type $T = S<2>; $body }
            "N0" => { type $T = N0; $body } "I" => { type $T = i64; $body }
            "AN" => { type $T = std::sync::Arc<N0>; $body } "AS" => { type $T = std::sync::Arc<S<0>>; $body }
            "M00" => { type $T = M<0, false>; $body } "M01" => { type $T = M<0, true>; $body }
            "M10" => { type $T = M<1, false>; $body } "M11" => { type $T = M<1, true>; $body }
            "M20" => { type $T = M<2, false>; $body } "M21" => { type $T = M<2, true>; $body }
            "M30" => { type $T = M<3, false>; $body } "M31" => { type $T = M<3, true>; $body }
            "M40" => { type $T = M<4, false>; $body } "M41" => { type $T = M<4, true>; $body }
            "M50" => { type $T = M<5, false>; $body } "M51" => { type $T = M<5, true>; $body }
            _ => $other,
        }
    }};
}

/// Run `$body` with `$T` bound to any storable type of the universe.
#[macro_export]
macro_rules! with_storable {
    ($name:expr, $T:ident => $body:expr, else $other:expr) => {{
        match $name {
            "I" => { type $T = i64; $body }
            n => $crate::with_compound!(n, $T => $body, else $other),
        }
    }};
}

fn script_err(e: assets_manager::Error) -> BoxedError { Box::new(e) }

#[derive(Debug, Clone)]
pub enum Tok { Lit(i64), Load(String, String), LoadIgn(String, String), Cached(String, String), Owned(String, String), NoRec(String, String), Thread(String, String), Catch(String, String), Raw(String, String), Goi(String, String, i64), Panic, Error }

/// the type names `with_insertable!` accepts (types with `Canon::from_int`)
pub const INSERTABLE_NAMES: &[&str] = &["S0", "S1", "S2", "N0", "I", "AN", "AS", "M00", "M01", "M10", "M11", "M20", "M21", "M30", "M31", "M40", "M41", "M50", "M51"];

pub const COMPOUND_NAMES: &[&str] = &["S0", "S1", "S2", "N0", "AN", "AS", "M00", "M01", "M10", "M11", "M20", "M21", "M30", "M31", "M40", "M41", "M50", "M51",
    "D0", "D1", "D2", "D3", "D4", "D5", "R0", "R1", "R2", "R3", "R4", "R5"];

/// Whole-script parse (a script with any malformed token fails before executing anything).
pub fn parse_script(text: &str) -> Option<Vec<Tok>> {
    fn refs(rest: &str) -> Option<(String, String)> {
        let mut it = rest.split(':');
        let (t, i) = (it.next()?, it.next()?);
        if it.next().is_some() || !COMPOUND_NAMES.contains(&t) { return None; }
        Some((t.to_string(), i.to_string()))
    }
    let mut toks = vec![];
    for w in text.split(' ').filter(|w| !w.is_empty()) {
        let mut cs = w.chars();
        let op = cs.next().unwrap();
        let rest = cs.as_str();
        toks.push(match op {
            '#' if rest.is_empty() => Tok::Panic,
            '%' if rest.is_empty() => Tok::Error,
            '+' => { let (t, i) = refs(rest)?; Tok::Load(t, i) }
            '=' => { let (t, i) = refs(rest)?; Tok::LoadIgn(t, i) }
            '?' => { let (t, i) = refs(rest)?; Tok::Cached(t, i) }
            '!' => { let (t, i) = refs(rest)?; Tok::Owned(t, i) }
            '~' => { let (t, i) = refs(rest)?; Tok::NoRec(t, i) }
            '&' => { let (t, i) = refs(rest)?; Tok::Thread(t, i) }
            '^' => { let (t, i) = refs(rest)?; Tok::Catch(t, i) }
            'r' if rest.starts_with(':') => {
                let mut it = rest[1..].split(':');
                let (fid, ext) = (it.next()?, it.next()?);
                if it.next().is_some() { return None; }
                Tok::Raw(fid.to_string(), ext.to_string())
            }
            // `@T:id:n`: exactly three fields, `T` constructible from an integer, `n` = `-?[0-9]{1,15}`
            '@' => {
                let mut it = rest.split(':');
                let (t, i, n) = (it.next()?, it.next()?, it.next()?);
                if it.next().is_some() || !INSERTABLE_NAMES.contains(&t) { return None; }
                Tok::Goi(t.to_string(), i.to_string(), parse_int(n)?)
            }
            _ => Tok::Lit(parse_int(w)?),
        });
    }
    Some(toks)
}

fn load_int(c: AnyCache, t: &str, i: &str) -> Result<i64, assets_manager::Error> {
    with_compound!(t, T => c.load::<T>(i).map(|h| { note_seen(t, i, "load", h); h.read().as_int() }), else unreachable!("type name validated by parse_script"))
}

pub fn run_script(ty: &'static str, cache: AnyCache, id: &SharedString) -> Result<i64, BoxedError> {
    let depth = SCRIPT_DEPTH.with(|d| { let v = d.get(); d.set(v + 1); v });
    let _depth = DepthGuard;
    if LOG_LOADERS.load(std::sync::atomic::Ordering::Relaxed) { loader_log().push((ty.to_string(), id.to_string(), depth)); }
    // loader-level fault plan (engine `fault`)
    let fault = { let mut f = loader_faults(); let k = f.0; f.0 += 1; f.1.get(&k).copied() };
    match fault { Some(true) => panic!("injected loader panic"), Some(false) => return Err(Box::new(CustomErr("injected"))), None => {} }
    let source = cache.raw_source();
    let content = source.read(id, "s")?;
    let toks = std::str::from_utf8(content.as_ref()).ok().and_then(parse_script).ok_or_else(|| Box::new(CustomErr("parse")) as BoxedError)?;
    drop(content);
    let mut acc: i64 = 0;
    for tok in toks {
        match tok {
            Tok::Panic => panic!("script panic"),
            Tok::Error => return Err(Box::new(CustomErr("user"))),
            Tok::Lit(n) => acc += n,
            Tok::Load(t, i) => acc += load_int(cache, &t, &i).map_err(script_err)?,
            Tok::LoadIgn(t, i) => { if let Ok(v) = load_int(cache, &t, &i) { acc += v; } }
            Tok::Cached(t, i) => {
                let v: Option<i64> = with_compound!(t.as_str(), T => cache.get_cached::<T>(&i).map(|h| { note_seen(&t, &i, "cached", h); h.read().as_int() }), else unreachable!());
                acc += v.unwrap_or(1000);
            }
            Tok::Owned(t, i) => {
                let v: Result<i64, assets_manager::Error> = with_compound!(t.as_str(), T => cache.load_owned::<T>(&i).map(|v| v.as_int()), else unreachable!());
                acc += v.map_err(script_err)?;
            }
            Tok::NoRec(t, i) => acc += cache.no_record(|| load_int(cache, &t, &i)).map_err(script_err)?,
            Tok::Thread(t, i) => {
                // AnyCache is not Send: the helper thread gets a copy (scoped: joined before return)
                struct Sendable<'a>(AnyCache<'a>);
                unsafe impl Send for Sendable<'_> {}
                let sc = Sendable(cache);
                let r = std::thread::scope(|scope| scope.spawn(move || { let sc = sc; load_int(sc.0, &t, &i) }).join());
                match r { Ok(v) => acc += v.map_err(script_err)?, Err(p) => std::panic::resume_unwind(p) }
            }
            Tok::Catch(t, i) => {
                // a loader panic inside `no_record`, contained by the compound itself
                let r = std::panic::catch_unwind(std::panic::AssertUnwindSafe(|| cache.no_record(|| load_int(cache, &t, &i))));
                match r { Ok(v) => acc += v.map_err(script_err)?, Err(_) => acc += 7777 }
            }
            Tok::Goi(t, i, n) => {
                // `get_or_insert` from inside a loader — possibly into the very slot that is being loaded
                let v: i64 = with_insertable!(t.as_str(), T => {
                    let h = cache.get_or_insert::<T>(&i, <T as Canon>::from_int(n).expect("type name validated by parse_script"));
                    note_seen(&t, &i, "goi", h);
                    h.read().as_int()
                }, else unreachable!("type name validated by parse_script"));
                acc += v;
            }
            Tok::Raw(fid, ext) => { let source = cache.raw_source(); acc += source.read(&fid, &ext)?.as_ref().len() as i64; }
        }
    }
    Ok(acc)
}

impl<const K: usize> Compound for S<K> {
    fn load(cache: AnyCache, id: &SharedString) -> Result<Self, BoxedError> { run_script(["S0", "S1", "S2", "S3"][K.min(3)], cache, id).map(|v| S(v, Uid::new())) }
}
impl Compound for N0 {
    fn load(cache: AnyCache, id: &SharedString) -> Result<Self, BoxedError> { run_script("N0", cache, id).map(|v| N0(v, Uid::new())) }
    const HOT_RELOADED: bool = false;
}
impl assets_manager::asset::NotHotReloaded for N0 {}

// ------------------------------------------------------------------ value shapes for C13 (sizes / alignments)

/// a 4-byte uid (so that a value can have a size that is not a multiple of 8)
#[derive(Debug)]
pub struct Uid32(pub u32);
impl Uid32 { pub fn new() -> Uid32 { let mut l = ledger(); let u = l.next; l.next += 1; l.created.push(u); Uid32(u as u32) } }
impl Drop for Uid32 { fn drop(&mut self) { ledger().dropped.push(self.0 as u64); } }

fn read_int(cache: AnyCache, id: &SharedString) -> Result<i64, BoxedError> {
    let source = cache.raw_source();
    let content = source.read(id, "s")?;
    std::str::from_utf8(content.as_ref()).ok().and_then(|t| parse_int(t.trim())).ok_or_else(|| Box::new(CustomErr("parse")) as BoxedError)
}

/// 12 bytes, align 4 (size ≥ 8 and not a multiple of 8); `b` is the complement of `a` (self-check)
#[derive(Debug)]
pub struct P12 { pub uid: Uid32, pub a: u32, pub b: u32 }
impl Compound for P12 { fn load(c: AnyCache, id: &SharedString) -> Result<Self, BoxedError> { let v = read_int(c, id)? as u32; Ok(P12 { uid: Uid32::new(), a: v, b: !v }) } }
/// 13 bytes, align 1
#[derive(Debug)]
pub struct A13(pub [u8; 13]);
impl Compound for A13 { fn load(c: AnyCache, id: &SharedString) -> Result<Self, BoxedError> { let v = read_int(c, id)? as u8; Ok(A13([v; 13])) } }
/// one byte
#[derive(Debug)]
pub struct B1(pub u8);
impl Compound for B1 { fn load(c: AnyCache, id: &SharedString) -> Result<Self, BoxedError> { Ok(B1(read_int(c, id)? as u8)) } }
/// zero-sized
#[derive(Debug)]
pub struct Z;
impl Compound for Z { fn load(c: AnyCache, id: &SharedString) -> Result<Self, BoxedError> { read_int(c, id)?; Ok(Z) } }
/// over-aligned
#[derive(Debug)]
#[repr(align(64))]
pub struct O64 { pub uid: Uid, pub v: i64 }
impl Compound for O64 { fn load(c: AnyCache, id: &SharedString) -> Result<Self, BoxedError> { Ok(O64 { uid: Uid::new(), v: read_int(c, id)? }) } }
/// heap-owning
#[derive(Debug)]
pub struct H { pub uid: Uid, pub s: String }
impl Compound for H { fn load(c: AnyCache, id: &SharedString) -> Result<Self, BoxedError> { let v = read_int(c, id)?; Ok(H { uid: Uid::new(), s: format!("value-{v}-{}", "x".repeat((v % 40) as usize)) }) } }
