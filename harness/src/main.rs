//! amh — the implementation-side harness.
//!
//! `amh <engine> --seed S --cases N --tier quick|thorough --out DIR [--replay FILE] [--first K]` (generated cases get the indices K, K+1, …)
//!
//! For every case the engine *generates* replayable input lines (gen.txt), *executes* them on the
//! real crate (linked from /repo's working tree, hooks on), writes the operation lines for the Lean
//! model driver (ops.txt) and the implementation's canonical result lines (impl.txt), and
//! evaluates an independent oracle of the property on the implementation's behaviour
//! (oracle.txt). Input distribution counters and samples go to stats.json.

mod common;
mod eng_rid;
mod types;
mod exec_world;
mod eng_cache;
mod eng_load;
mod eng_conc;
mod eng_hr;
mod eng_own;
mod eng_bytes;
mod eng_watch;
mod srctree;
mod eng_src;
mod eng_dir;
mod eng_cell;
mod child;
mod eng_hrlive;
mod eng_idle;
mod eng_fault;
mod eng_iso;

use common::*;
use std::{fs, io::Write, path::PathBuf};

fn engines() -> Vec<Box<dyn Engine>> {
    let mut v: Vec<Box<dyn Engine>> = vec![];
    v.push(Box::new(eng_rid::RidEngine::default()));
    v.push(Box::new(eng_cache::CacheEngine::default()));
    v.push(Box::new(eng_load::LoadEngine::default()));
    v.push(Box::new(eng_conc::ConcEngine::default()));
    v.push(Box::new(eng_hr::HrEngine::default()));
    v.push(Box::new(eng_own::OwnEngine::default()));
    v.push(Box::new(eng_bytes::BytesEngine::default()));
    v.push(Box::new(eng_watch::WatchEngine::default()));
    v.push(Box::new(eng_src::SrcEngine::default()));
    v.push(Box::new(eng_dir::DirEngine::default()));
    v.push(Box::new(eng_cell::CellEngine::default()));
    v.push(Box::new(eng_hrlive::HrLiveEngine));
    v.push(Box::new(eng_idle::IdleEngine));
    v.push(Box::new(eng_fault::FaultEngine));
    v.push(Box::new(eng_iso::IsoEngine::default()));
    v
}

fn main() {
    let args: Vec<String> = std::env::args().collect();
    child::maybe_run_child(&args);   // `amh --child <engine> <op line>` (engines hrlive, idle)
    if args.len() < 2 {
        eprintln!("usage: amh <engine> --seed S --cases N --tier quick|thorough --out DIR [--replay FILE]");
        std::process::exit(2);
    }
    let engine_name = args[1].clone();
    let mut seed: u64 = 1;
    let mut cases: usize = 100;
    let mut tier = Tier::Quick;
    let mut out = PathBuf::from(".");
    let mut replay: Vec<PathBuf> = vec![];
    let mut first: usize = 0;
    let mut i = 2;
    while i < args.len() {
        match args[i].as_str() {
            "--seed" => { seed = args[i + 1].parse().expect("seed"); i += 1 }
            "--cases" => { cases = args[i + 1].parse().expect("cases"); i += 1 }
            "--tier" => { tier = if args[i + 1] == "thorough" { Tier::Thorough } else { Tier::Quick }; i += 1 }
            "--out" => { out = PathBuf::from(&args[i + 1]); i += 1 }
            "--replay" => { replay.push(PathBuf::from(&args[i + 1])); i += 1 }
            "--first" => { first = args[i + 1].parse().expect("first"); i += 1 }
            a => { eprintln!("unknown arg {a}"); std::process::exit(2) }
        }
        i += 1;
    }
    let mut eng = match engines().into_iter().find(|e| e.name() == engine_name) {
        Some(e) => e,
        None => { eprintln!("unknown engine {engine_name}"); std::process::exit(2) }
    };
    fs::create_dir_all(&out).unwrap();
    let mut run = Run::new();

    // Replayed cases (corpus / replay files) first: each file is one case's gen lines.
    let mut idx = 0usize;
    for f in &replay {
        let text = fs::read_to_string(f).unwrap_or_else(|e| panic!("cannot read {}: {e}", f.display()));
        let lines: Vec<String> = text.lines().map(|l| l.trim().to_string()).filter(|l| !l.is_empty() && !l.starts_with('#')).collect();
        run.exec_case(&mut *eng, idx, lines, Some(f.display().to_string()));
        idx += 1;
    }
    let mut rng = Prng::new(seed ^ fxhash(engine_name.as_bytes()));
    for k in 0..cases {
        let mut crng = rng.fork();
        let lines = eng.gen_case(&mut crng, tier, k + first);
        run.exec_case(&mut *eng, idx, lines, None);
        idx += 1;
    }
    eng.finish(&mut run);

    let mut w = |name: &str, lines: &Vec<String>| {
        let mut f = fs::File::create(out.join(name)).unwrap();
        for l in lines { writeln!(f, "{l}").unwrap(); }
    };
    w("gen.txt", &run.gen);
    w("ops.txt", &run.ops);
    w("impl.txt", &run.imp);
    w("oracle.txt", &run.oracle);
    fs::write(out.join("stats.json"), run.stats_json(&engine_name, seed, tier)).unwrap();
    println!("amh {engine_name}: cases={} ops={} oracle_failures={}", idx, run.n_ops, run.oracle.len());
}
