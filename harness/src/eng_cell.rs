//! Engine `cell` (C17): `OnceInitCell<U, T>` through its public API (feature `utils`).
//!
//! Seeds: `u64` (no destructor → `get_or_try_init_no_drop`), `TSeed` (destructor recorded in a
//! ledger → `get_or_try_init_default`), `BSeed` (destructor records, then panics). Values: `Val`
//! (ledger). Initialisers add a delta to the seed through the `&mut U` they are handed and then
//! return `Ok(Val(seed))`, `Err(seed)` or panic, so a later attempt shows whether the cell still
//! owns the (mutated) seed.
//!
//! Gen lines:
//!   cell.new <plain|tracked|bomb> <c>      cell.get      cell.init <ok|err|panic> <d>
//!   cell.initinf <ok|panic> <d>  (get_or_init, the infallible entry point; `cell.initinf <d>` = ok)
//!   cell.state    cell.drop     cell.malformed <n>
//!   cell.conc-run <kind> <c> <reps> T <calls…> T <calls…> …   free-running threads, `reps` rounds
//!   cell.overlap <kind> <c> <call> <calls…>   first call's initialiser is held inside the closure
//!                                             while `get` and the other calls are issued
//! calls: g | o<d> | e<d> | p<d> (get_or_try_init: Ok / Err / panic) | O<d> | P<d> (get_or_init: returns / panics).
//! The oracle is written from the property statement (call counts, addresses, ledger), not from the model.

use crate::common::*;
use assets_manager::OnceInitCell;
use std::{
    collections::{BTreeMap, HashMap},
    panic::{catch_unwind, AssertUnwindSafe},
    sync::{atomic::{AtomicU64, AtomicUsize, Ordering}, mpsc, Arc, Barrier, Mutex},
    time::Duration,
};

// ------------------------------------------------------------------ ledger

/// set when a call on a cell did not return: reported once, the rest of the run is skipped (every
/// further blocked call would cost a watchdog timeout and leak a thread)
static BLOCKED_SEEN: std::sync::atomic::AtomicBool = std::sync::atomic::AtomicBool::new(false);
static NEXT_UID: AtomicU64 = AtomicU64::new(1);
static LEDGER: Mutex<Option<HashMap<u64, u32>>> = Mutex::new(None);

fn new_uid() -> u64 {
    let u = NEXT_UID.fetch_add(1, Ordering::Relaxed);
    LEDGER.lock().unwrap_or_else(|e| e.into_inner()).get_or_insert_with(HashMap::new).insert(u, 0);
    u
}
fn record_drop(uid: u64) {
    if let Some(n) = LEDGER.lock().unwrap_or_else(|e| e.into_inner()).get_or_insert_with(HashMap::new).get_mut(&uid) { *n += 1; }
}
fn drops_of(uid: u64) -> u32 {
    LEDGER.lock().unwrap_or_else(|e| e.into_inner()).get_or_insert_with(HashMap::new).get(&uid).copied().unwrap_or(0)
}
fn forget_uids(uids: &[u64]) {
    let mut g = LEDGER.lock().unwrap_or_else(|e| e.into_inner());
    if let Some(m) = g.as_mut() { for u in uids { m.remove(u); } }
}

static ZDROPS: AtomicUsize = AtomicUsize::new(0);
static VDROPS: AtomicUsize = AtomicUsize::new(0);
/// zero-sized seed with a destructor
struct ZSeed;
impl Drop for ZSeed { fn drop(&mut self) { ZDROPS.fetch_add(1, Ordering::SeqCst); } }
/// value / seed with a destructor that is only counted
struct Cnt(#[allow(dead_code)] u64);
impl Drop for Cnt { fn drop(&mut self) { VDROPS.fetch_add(1, Ordering::SeqCst); } }

fn shapes_probe() -> Vec<String> {
    let mut bad = vec![];
    let mut run = |what: &str, f: &dyn Fn(), want_z: usize, want_v: usize| {
        ZDROPS.store(0, Ordering::SeqCst); VDROPS.store(0, Ordering::SeqCst);
        f();
        let (z, v) = (ZDROPS.load(Ordering::SeqCst), VDROPS.load(Ordering::SeqCst));
        if (z, v) != (want_z, want_v) { bad.push(format!("{what}: zero-sized seeds dropped {z} time(s) (expected {want_z}), counted values dropped {v} time(s) (expected {want_v})")); }
    };
    // zero-sized seed with Drop, value with Drop
    run("OnceInitCell<ZSeed, Cnt> never initialised", &|| { let c: OnceInitCell<ZSeed, Cnt> = OnceInitCell::new(ZSeed); drop(c); }, 1, 0);
    run("OnceInitCell<ZSeed, Cnt> initialised", &|| { let c: OnceInitCell<ZSeed, Cnt> = OnceInitCell::new(ZSeed); let _ = c.get_or_init(|_| Cnt(1)); drop(c); }, 1, 1);
    run("OnceInitCell<ZSeed, Cnt> failed initialiser", &|| { let c: OnceInitCell<ZSeed, Cnt> = OnceInitCell::new(ZSeed); let _ = c.get_or_try_init(|_| Err::<Cnt, ()>(())); drop(c); }, 1, 0);
    // seed with Drop, value WITHOUT destructor
    run("OnceInitCell<Cnt, u64> never initialised", &|| { let c: OnceInitCell<Cnt, u64> = OnceInitCell::new(Cnt(1)); drop(c); }, 0, 1);
    run("OnceInitCell<Cnt, u64> initialised", &|| { let c: OnceInitCell<Cnt, u64> = OnceInitCell::new(Cnt(1)); let _ = c.get_or_init(|_| 7u64); drop(c); }, 0, 1);
    run("OnceInitCell<Cnt, u64> failed initialiser", &|| { let c: OnceInitCell<Cnt, u64> = OnceInitCell::new(Cnt(1)); let _ = c.get_or_try_init(|_| Err::<u64, ()>(())); drop(c); }, 0, 1);
    // seed WITHOUT destructor, value with Drop; with_value
    run("OnceInitCell<u64, Cnt> initialised", &|| { let c: OnceInitCell<u64, Cnt> = OnceInitCell::new(3); let _ = c.get_or_init(|s| Cnt(*s)); drop(c); }, 0, 1);
    run("OnceInitCell<u64, Cnt>::with_value", &|| { let c: OnceInitCell<u64, Cnt> = OnceInitCell::with_value(Cnt(9)); drop(c); }, 0, 1);
    run("OnceInitCell<ZSeed, u64> initialised", &|| { let c: OnceInitCell<ZSeed, u64> = OnceInitCell::new(ZSeed); let _ = c.get_or_init(|_| 1u64); drop(c); }, 1, 0);
    bad
}

trait SeedLike: Send + 'static {
    fn content(&mut self) -> &mut u64;
}
impl SeedLike for u64 { fn content(&mut self) -> &mut u64 { self } }
struct TSeed { uid: u64, c: u64 }
impl SeedLike for TSeed { fn content(&mut self) -> &mut u64 { &mut self.c } }
impl Drop for TSeed { fn drop(&mut self) { record_drop(self.uid) } }
struct BSeed { uid: u64, c: u64 }
impl SeedLike for BSeed { fn content(&mut self) -> &mut u64 { &mut self.c } }
impl Drop for BSeed {
    fn drop(&mut self) {
        record_drop(self.uid);
        if !std::thread::panicking() { std::panic::panic_any("bomb") }
    }
}
struct Val { uid: u64, n: u64 }
impl Drop for Val { fn drop(&mut self) { record_drop(self.uid) } }

#[derive(Clone, Copy, PartialEq, Eq, Debug)]
enum Kind { Plain, Tracked, Bomb }
impl Kind {
    fn parse(s: &str) -> Kind { match s { "plain" => Kind::Plain, "tracked" => Kind::Tracked, "bomb" => Kind::Bomb, o => panic!("cell engine: unknown kind {o}") } }
    fn name(self) -> &'static str { match self { Kind::Plain => "plain", Kind::Tracked => "tracked", Kind::Bomb => "bomb" } }
}

enum AnyCell {
    Plain(OnceInitCell<u64, Val>),
    Tracked(OnceInitCell<TSeed, Val>),
    Bomb(OnceInitCell<BSeed, Val>),
}

#[derive(Clone, Copy, PartialEq, Eq, Debug)]
enum OK { Ok, Err, Panic }

#[derive(Clone, Copy, PartialEq, Eq, Debug)]
enum Call { Get, Init(OK, u64), /// through `get_or_init`; the outcome is Ok or Panic
    InitInf(OK, u64) }

fn parse_call(s: &str) -> Call {
    if s == "g" { return Call::Get; }
    let d: u64 = s[1..].parse().expect("call delta");
    match &s[..1] { "o" => Call::Init(OK::Ok, d), "e" => Call::Init(OK::Err, d), "p" => Call::Init(OK::Panic, d),
        "O" => Call::InitInf(OK::Ok, d), "P" => Call::InitInf(OK::Panic, d), o => panic!("cell engine: bad call {o}") }
}
fn call_str(c: Call) -> String {
    match c { Call::Get => "g".into(), Call::Init(OK::Ok, d) => format!("o{d}"), Call::Init(OK::Err, d) => format!("e{d}"), Call::Init(OK::Panic, d) => format!("p{d}"),
        Call::InitInf(OK::Panic, d) => format!("P{d}"), Call::InitInf(_, d) => format!("O{d}") }
}

#[derive(Clone, Copy, PartialEq, Eq, Debug, PartialOrd, Ord)]
enum Res { None, Ref(u64, usize), Err(u64), PanicF, PanicDrop }
impl Res {
    fn show(self) -> String {
        match self { Res::None => "none".into(), Res::Ref(v, _) => format!("ref:{v}"), Res::Err(e) => format!("err:{e}"), Res::PanicF => "panicF".into(), Res::PanicDrop => "panicDrop".into() }
    }
}

/// What the initialisers of one cell did (shared by all threads using it).
#[derive(Default)]
struct Probe {
    f_runs: AtomicUsize,
    ok_runs: AtomicUsize,
    /// (uid, n) of every value an initialiser returned in `Ok`
    made: Mutex<Vec<(u64, u64)>>,
    /// seed content every initialiser saw on entry
    seen: Mutex<Vec<u64>>,
}

/// Optional rendezvous inside the initialiser: tell `entered`, wait for `release`.
type Gate = Option<(mpsc::Sender<()>, Arc<Mutex<mpsc::Receiver<()>>>)>;

fn run_f<U: SeedLike>(u: &mut U, k: OK, d: u64, p: &Probe, gate: &Gate) -> Result<Val, u64> {
    p.f_runs.fetch_add(1, Ordering::SeqCst);
    p.seen.lock().unwrap().push(*u.content());
    *u.content() += d;
    let c = *u.content();
    if let Some((tx, rx)) = gate {
        let _ = tx.send(());
        let _ = rx.lock().unwrap().recv_timeout(Duration::from_secs(10));
    }
    match k {
        OK::Ok => {
            p.ok_runs.fetch_add(1, Ordering::SeqCst);
            let v = Val { uid: new_uid(), n: c };
            p.made.lock().unwrap().push((v.uid, v.n));
            Ok(v)
        }
        OK::Err => Err(c),
        OK::Panic => std::panic::panic_any("f-panic"),
    }
}

fn do_call_on<U: SeedLike>(cell: &OnceInitCell<U, Val>, c: Call, p: &Probe, gate: &Gate) -> Res {
    let r = catch_unwind(AssertUnwindSafe(|| match c {
        Call::Get => match cell.get() { Some(v) => Res::Ref(v.n, v as *const Val as usize), None => Res::None },
        Call::Init(k, d) => match cell.get_or_try_init(|u| run_f(u, k, d, p, gate)) { Ok(v) => Res::Ref(v.n, v as *const Val as usize), Err(e) => Res::Err(e) },
        Call::InitInf(k, d) => {
            let k = if k == OK::Panic { OK::Panic } else { OK::Ok }; // the infallible entry point has no Err
            let v = cell.get_or_init(|u| match run_f(u, k, d, p, gate) { Ok(v) => v, Err(_) => unreachable!() });
            Res::Ref(v.n, v as *const Val as usize)
        }
    }));
    match r {
        Ok(r) => r,
        Err(pl) => match pl.downcast_ref::<&str>() { Some(&"bomb") => Res::PanicDrop, Some(&"f-panic") => Res::PanicF, _ => std::panic::resume_unwind(pl) },
    }
}

impl AnyCell {
    fn new(k: Kind, c: u64) -> (AnyCell, Option<u64>) {
        match k {
            Kind::Plain => (AnyCell::Plain(OnceInitCell::new(c)), None),
            Kind::Tracked => { let uid = new_uid(); (AnyCell::Tracked(OnceInitCell::new(TSeed { uid, c })), Some(uid)) }
            Kind::Bomb => { let uid = new_uid(); (AnyCell::Bomb(OnceInitCell::new(BSeed { uid, c })), Some(uid)) }
        }
    }
    fn call(&self, c: Call, p: &Probe, gate: &Gate) -> Res {
        match self { AnyCell::Plain(x) => do_call_on(x, c, p, gate), AnyCell::Tracked(x) => do_call_on(x, c, p, gate), AnyCell::Bomb(x) => do_call_on(x, c, p, gate) }
    }
}

/// One cell with everything the oracle knows about it.
struct Live {
    kind: Kind,
    /// shared with helper threads; a helper that never returns (blocked call) keeps its clone forever
    cell: Arc<AnyCell>,
    seed_uid: Option<u64>,
    probe: Arc<Probe>,
    /// a call on this cell did not return (reported once; the cell is abandoned)
    blocked: std::cell::Cell<bool>,
    /// statement-level expectation of the seed content (initial + every delta an initialiser added)
    exp_seed: u64,
    /// (value, address) of the first reference handed out
    first_ref: Option<(u64, usize)>,
    succeeded: bool,
}

impl Live {
    fn new(kind: Kind, c: u64) -> Live {
        let (cell, seed_uid) = AnyCell::new(kind, c);
        Live { kind, cell: Arc::new(cell), seed_uid, probe: Arc::new(Probe::default()), blocked: std::cell::Cell::new(false), exp_seed: c, first_ref: None, succeeded: false }
    }
    /// `get()` on a helper thread, so that a `get` that blocks (it never may) is reported instead of hanging the harness.
    fn get_guarded(&self, rec: &mut CaseRec, ctx: &str) -> Option<Res> {
        if self.blocked.get() { return None; }
        let (cell, probe) = (self.cell.clone(), self.probe.clone());
        let (tx, rx) = mpsc::channel();
        std::thread::spawn(move || { let r = cell.call(Call::Get, &probe, &None); drop((cell, probe)); let _ = tx.send(r); });
        match rx.recv_timeout(Duration::from_secs(3)) {
            Ok(r) => Some(r),
            Err(_) => { self.blocked.set(true); BLOCKED_SEEN.store(true, Ordering::SeqCst); rec.oracle_fail(format!("get-blocked {ctx}: get() did not return within 3 s")); None }
        }
    }
    fn is_init(&self, rec: &mut CaseRec, ctx: &str) -> bool { matches!(self.get_guarded(rec, ctx), Some(Res::Ref(..))) }
    fn seed_drops(&self) -> u32 { self.seed_uid.map(drops_of).unwrap_or(0) }
    fn vals_made(&self) -> usize { self.probe.made.lock().unwrap().len() }
    fn val_drops(&self) -> u32 { self.probe.made.lock().unwrap().iter().map(|(u, _)| drops_of(*u)).sum() }

    /// Checks that hold at every quiescent point (no call in flight), from the statement.
    fn quiescent_oracle(&self, rec: &mut CaseRec, ctx: &str) {
        let init = self.is_init(rec, ctx);
        if self.blocked.get() { return; }
        let ok_runs = self.probe.ok_runs.load(Ordering::SeqCst);
        if ok_runs > 1 { rec.oracle_fail(format!("init-ran-twice {ctx}: {ok_runs} initialisers succeeded")); }
        if init != (ok_runs == 1) { rec.oracle_fail(format!("init-state-wrong {ctx}: get().is_some()={init} but {ok_runs} initialiser(s) succeeded")); }
        if self.seed_uid.is_some() {
            let sd = self.seed_drops();
            let want = if init { 1 } else { 0 };
            if sd != want { rec.oracle_fail(format!("seed-drop-count {ctx}: seed destructor ran {sd} time(s), cell initialised={init} (expected {want})")); }
            let live_vals = self.vals_made() as i64 - self.val_drops() as i64;
            let live_seed = 1 - sd as i64;
            if live_seed + live_vals != 1 { rec.oracle_fail(format!("owner-count {ctx}: {live_seed} live seed(s) + {live_vals} live value(s), expected exactly one")); }
        }
        if self.val_drops() != 0 { rec.oracle_fail(format!("value-dropped-early {ctx}: a stored value was dropped while the cell is alive")); }
    }

    /// Drops the cell; returns (seed drops, value drops, panicked) and checks the ledger.
    fn drop_cell(self, rec: &mut CaseRec, ctx: &str) -> (u32, u32, bool) {
        let was_init = self.is_init(rec, ctx);
        let Live { cell, seed_uid, probe, kind, .. } = self;
        let cell = match Arc::try_unwrap(cell) { Ok(c) => c, Err(_) => return (0, 0, false) }; // a blocked helper still holds it (already reported)
        let panicked = catch_unwind(AssertUnwindSafe(move || drop(cell))).is_err();
        let made = probe.made.lock().unwrap().clone();
        let sd = seed_uid.map(drops_of).unwrap_or(0);
        let vd: u32 = made.iter().map(|(u, _)| drops_of(*u)).sum();
        if let Some(u) = seed_uid { if drops_of(u) != 1 { rec.oracle_fail(format!("drop-ledger {ctx}: seed dropped {} time(s) over the cell's life", drops_of(u))); } }
        for (u, n) in &made { if drops_of(*u) != 1 { rec.oracle_fail(format!("drop-ledger {ctx}: value {n} dropped {} time(s) over the cell's life", drops_of(*u))); } }
        let want_panic = kind == Kind::Bomb && !was_init;
        if panicked != want_panic { rec.oracle_fail(format!("drop-panic {ctx}: drop of the cell panicked={panicked}, expected {want_panic}")); }
        let mut uids: Vec<u64> = made.iter().map(|(u, _)| *u).collect();
        uids.extend(seed_uid);
        forget_uids(&uids);
        (sd, vd, panicked)
    }
}

/// Runs every call list on its own thread, all released together; `None` if a thread has not
/// finished after 5 s (the threads are then abandoned).
fn run_threads(lv: &Live, ths: &[Vec<Call>], stagger: usize, gate: Gate) -> Option<Vec<Vec<(Call, Res)>>> {
    let k = ths.len();
    let bar = Arc::new(Barrier::new(k));
    let (tx, rx) = mpsc::channel::<(usize, Vec<(Call, Res)>)>();
    for (t, calls) in ths.iter().enumerate() {
        let (cell, probe, bar, tx, calls, gate) = (lv.cell.clone(), lv.probe.clone(), bar.clone(), tx.clone(), calls.clone(), gate.clone());
        std::thread::spawn(move || {
            bar.wait();
            for _ in 0..((stagger + t) % 3) { std::hint::spin_loop(); }
            let r: Vec<(Call, Res)> = calls.iter().map(|c| (*c, cell.call(*c, &probe, &gate))).collect();
            drop((cell, probe, gate));
            let _ = tx.send((t, r));
        });
    }
    let mut got = vec![];
    while got.len() < k { match rx.recv_timeout(Duration::from_secs(5)) { Ok(x) => got.push(x), Err(_) => return None } }
    got.sort_by_key(|x| x.0);
    Some(got.into_iter().map(|x| x.1).collect())
}

fn parse_threads(w: &[&str]) -> Vec<Vec<Call>> {
    let mut ths: Vec<Vec<Call>> = vec![];
    for x in w { if *x == "T" { ths.push(vec![]) } else { ths.last_mut().expect("T first").push(parse_call(x)) } }
    ths
}

/// Statement-level checks on the outcome of concurrent calls on one cell (after all returned).
fn conc_oracle(rec: &mut CaseRec, live: &Live, results: &[Vec<(Call, Res)>], ctx: &str) {
    let ok_runs = live.probe.ok_runs.load(Ordering::SeqCst);
    let made = live.probe.made.lock().unwrap().clone();
    let refs: Vec<(u64, usize)> = results.iter().flatten().filter_map(|(_, r)| if let Res::Ref(v, a) = r { Some((*v, *a)) } else { None }).collect();
    if ok_runs > 1 { rec.oracle_fail(format!("init-ran-twice {ctx}: {ok_runs} initialisers succeeded")); }
    if !refs.is_empty() && ok_runs != 1 { rec.oracle_fail(format!("ref-without-init {ctx}: references handed out but {ok_runs} initialisers succeeded")); }
    if refs.windows(2).any(|p| p[0] != p[1]) { rec.oracle_fail(format!("ref-differs {ctx}: callers got different references {refs:?}")); }
    if let (Some(r), Some(m)) = (refs.first(), made.first()) { if r.0 != m.1 { rec.oracle_fail(format!("value-wrong {ctx}: reference shows {} but the successful initialiser made {}", r.0, m.1)); } }
    // every failing call ran its initialiser; the seed every initialiser saw is the initial seed plus the deltas of the runs before it
    let fails = results.iter().flatten().filter(|(_, r)| matches!(r, Res::Err(_) | Res::PanicF)).count();
    let f_runs = live.probe.f_runs.load(Ordering::SeqCst);
    if f_runs != fails + ok_runs { rec.oracle_fail(format!("init-run-count {ctx}: {f_runs} initialiser runs for {fails} failed calls and {ok_runs} success(es)")); }
    // program order: after a thread saw a reference, it never sees None / runs an initialiser again
    for th in results {
        let mut seen_ref = false;
        for (_, r) in th { if seen_ref && !matches!(r, Res::Ref(..)) { rec.oracle_fail(format!("ref-then-not {ctx}: a thread got {r:?} after it had a reference")); } if matches!(r, Res::Ref(..)) { seen_ref = true; } }
    }
    live.quiescent_oracle(rec, ctx);
}

fn conc_model_line(kind: Kind, c: u64, results: &[Vec<(Call, Res)>], init: bool, sd: u32, vals: usize) -> String {
    let mut s = format!("cell.conc {} {c}", kind.name());
    for th in results {
        s.push_str(" T");
        for (c, _) in th { s.push(' '); s.push_str(&call_str(*c)); }
        s.push_str(" R");
        for (_, r) in th { s.push(' '); s.push_str(&r.show()); }
    }
    s.push_str(&format!(" F {init} {sd} {vals}"));
    s
}

#[derive(Default)]
pub struct CellEngine;

const KINDS: [Kind; 3] = [Kind::Plain, Kind::Tracked, Kind::Bomb];
const MALFORMED: &[&str] = &["cell.init maybe 1", "cell.init ok", "cell.new gold 1", "cell.get 3", "cell.conc tracked 1 T o1 R F true 0 1", "cell.conc tracked 1 T o1 R ref:2 F maybe 0 1", "cell.frob"];

fn rand_call(rng: &mut Prng) -> Call {
    let d = rng.below(4) as u64;
    match rng.below(14) { 0..=2 => Call::Get, 3..=5 => Call::Init(OK::Ok, d), 6..=7 => Call::Init(OK::Err, d), 8..=9 => Call::Init(OK::Panic, d),
        10..=11 => Call::InitInf(OK::Ok, d), _ => Call::InitInf(OK::Panic, d) }
}

impl Engine for CellEngine {
    fn name(&self) -> &'static str { "cell" }

    fn gen_case(&mut self, rng: &mut Prng, tier: Tier, idx: usize) -> Vec<String> {
        let mut l = vec![];
        let alpha = ["cell.get", "cell.init ok 1", "cell.init err 2", "cell.init panic 3", "cell.initinf ok 1", "cell.initinf panic 3"];
        match idx {
            0 => {
                // every call sequence of length 3 over {get, try-ok, try-err, try-panic, infallible-ok, infallible-panic}, every seed kind,
                // state after each call, then drop
                for k in KINDS { for a in alpha { for b in alpha { for c in alpha {
                    l.push(format!("cell.new {} 5", k.name()));
                    for x in [a, b, c] { l.push(x.to_string()); l.push("cell.state".into()); }
                    l.push("cell.drop".into());
                } } } }
                // never initialised / dropped at once
                for k in KINDS { l.push(format!("cell.new {} 0", k.name())); l.push("cell.drop".into()); }
            }
            1 => {
                // every pair of single-call threads, every kind, free-running
                let calls = ["g", "o1", "e2", "p3", "O1", "P3"];
                for k in KINDS { for a in calls { for b in calls { l.push(format!("cell.conc-run {} 5 {} T {a} T {b}", k.name(), if tier == Tier::Thorough { 300 } else { 40 })); } } }
            }
            2 => {
                // forced overlap: every outcome of the held initialiser × every single other call, every kind
                for k in KINDS { for a in ["o1", "e2", "p3", "O1", "P3"] { for b in ["g", "o4", "e5", "p6", "O4", "P6"] { l.push(format!("cell.overlap {} 7 {a} {b}", k.name())); } } }
                for m in 0..MALFORMED.len() { l.push(format!("cell.malformed {m}")); }
            }
            3 => { l.push("cell.shapes".into()); }
            _ => match idx % 4 {
                0 | 3 => {
                    // sequential random life of a few cells
                    for _ in 0..rng.range(1, 3) {
                        l.push(format!("cell.new {} {}", rng.pick(&KINDS).name(), rng.below(100)));
                        for _ in 0..rng.range(0, 8) {
                            let c = rand_call(rng);
                            l.push(match c {
                                Call::Get => "cell.get".to_string(),
                                Call::Init(k, d) => format!("cell.init {} {d}", match k { OK::Ok => "ok", OK::Err => "err", OK::Panic => "panic" }),
                                Call::InitInf(k, d) => format!("cell.initinf {} {d}", if k == OK::Panic { "panic" } else { "ok" }),
                            });
                            if rng.chance(1, 3) { l.push("cell.state".into()); }
                        }
                        if rng.chance(1, 8) { l.push(format!("cell.malformed {}", rng.below(MALFORMED.len()))); }
                        l.push("cell.drop".into());
                    }
                }
                1 => {
                    let k = rng.range(2, if tier == Tier::Thorough { 5 } else { 4 });
                    let mut s = format!("cell.conc-run {} {} {}", rng.pick(&KINDS).name(), rng.below(50), if tier == Tier::Thorough { 200 } else { 30 });
                    for _ in 0..k { s.push_str(" T"); for _ in 0..rng.range(1, 3) { s.push(' '); s.push_str(&call_str(rand_call(rng))); } }
                    l.push(s);
                }
                _ => {
                    let a = match rng.below(5) { 0 => Call::InitInf(OK::Ok, rng.below(5) as u64), 1 => Call::InitInf(OK::Panic, rng.below(5) as u64), _ => Call::Init(*rng.pick(&[OK::Ok, OK::Err, OK::Panic]), rng.below(5) as u64) };
                    let mut s = format!("cell.overlap {} {} {}", rng.pick(&KINDS).name(), rng.below(50), call_str(a));
                    for _ in 0..rng.range(1, 4) { s.push(' '); s.push_str(&call_str(rand_call(rng))); }
                    l.push(s);
                }
            },
        }
        l
    }

    fn exec_case(&mut self, lines: &[String], rec: &mut CaseRec) {
        std::panic::set_hook(Box::new(|_| {})); // initialiser / destructor panics are part of the cases
        if BLOCKED_SEEN.load(Ordering::SeqCst) { rec.stat("skipped-after-blocked-call"); return; }
        let mut live: Option<Live> = None;
        for line in lines {
            if BLOCKED_SEEN.load(Ordering::SeqCst) { break; } // reported; every further cell would cost another watchdog timeout
            let w: Vec<&str> = line.split_whitespace().collect();
            match w[0] {
                "cell.new" => {
                    if let Some(old) = live.take() { old.drop_cell(rec, "implicit drop"); }
                    let kind = Kind::parse(w[1]);
                    live = Some(Live::new(kind, w[2].parse().expect("seed")));
                    rec.op(line.clone(), "ok");
                    rec.stat(format!("new/{}", kind.name()));
                }
                "cell.get" | "cell.init" | "cell.initinf" => {
                    let Some(lv) = live.as_mut() else { rec.op(line.clone(), "bad-op"); continue };
                    let call = match w[0] {
                        "cell.get" => Call::Get,
                        "cell.initinf" if w.len() == 2 => Call::InitInf(OK::Ok, w[1].parse().expect("delta")),
                        "cell.initinf" => Call::InitInf(match w[1] { "ok" => OK::Ok, "panic" => OK::Panic, o => panic!("cell engine: get_or_init outcome {o}") }, w[2].parse().expect("delta")),
                        _ => Call::Init(match w[1] { "ok" => OK::Ok, "err" => OK::Err, "panic" => OK::Panic, o => panic!("cell engine: outcome {o}") }, w[2].parse().expect("delta")),
                    };
                    if lv.blocked.get() { continue; }
                    let ctx = format!("{} cell, `{line}`", lv.kind.name());
                    let runs0 = lv.probe.f_runs.load(Ordering::SeqCst);
                    let r = match call { Call::Get => match lv.get_guarded(rec, &ctx) { Some(r) => r, None => continue }, _ => lv.cell.call(call, &lv.probe, &None) };
                    let ran = lv.probe.f_runs.load(Ordering::SeqCst) - runs0;
                    let model_line = match call { Call::InitInf(k, d) => format!("cell.initinf {} {d}", if k == OK::Panic { "panic" } else { "ok" }), _ => line.clone() };
                    rec.op(model_line, r.show());
                    rec.nontrivial = true;
                    rec.stat(format!("{}/{}", w[0], match r { Res::None => "none", Res::Ref(..) => "ref", Res::Err(_) => "err", Res::PanicF => "panicF", Res::PanicDrop => "panicDrop" }));
                    // ---- oracle, from the statement
                    match call {
                        Call::Get => {
                            if ran != 0 { rec.oracle_fail(format!("init-run-count {ctx}: get ran an initialiser")); }
                            match (r, lv.succeeded) {
                                (Res::None, false) | (Res::Ref(..), true) => {}
                                _ => rec.oracle_fail(format!("get-wrong {ctx}: got {r:?}, an initialiser succeeded before: {}", lv.succeeded)),
                            }
                        }
                        _ => {
                            let (k, d) = match call { Call::Init(k, d) | Call::InitInf(k, d) => (k, d), Call::Get => unreachable!() };
                            if lv.succeeded {
                                if ran != 0 { rec.oracle_fail(format!("init-ran-twice {ctx}: an initialiser ran although the cell was initialised")); }
                                if !matches!(r, Res::Ref(..)) { rec.oracle_fail(format!("init-lost {ctx}: initialised cell answered {r:?}")); }
                            } else {
                                if ran != 1 { rec.oracle_fail(format!("init-run-count {ctx}: initialiser ran {ran} time(s) on an uninitialised cell")); }
                                let saw = lv.probe.seen.lock().unwrap().last().copied();
                                if saw != Some(lv.exp_seed) { rec.oracle_fail(format!("failure-lost-seed {ctx}: the initialiser saw seed {saw:?}, the cell should still own seed {}", lv.exp_seed)); }
                                lv.exp_seed += d;
                                let want = match (k, lv.kind) { (OK::Ok, Kind::Bomb) => Res::PanicDrop, (OK::Ok, _) => Res::Ref(lv.exp_seed, 0), (OK::Err, _) => Res::Err(lv.exp_seed), (OK::Panic, _) => Res::PanicF };
                                let same = match (r, want) { (Res::Ref(a, _), Res::Ref(b, _)) => a == b, (a, b) => a == b };
                                if !same { rec.oracle_fail(format!("init-result-wrong {ctx}: got {r:?}, expected {want:?}")); }
                                if k == OK::Ok { lv.succeeded = true; }
                                else if lv.is_init(rec, &ctx) { rec.oracle_fail(format!("failure-initialised {ctx}: the cell is initialised after a failed initialiser")); }
                            }
                        }
                    }
                    if let Res::Ref(v, a) = r {
                        match lv.first_ref { None => lv.first_ref = Some((v, a)), Some(f) => if f != (v, a) { rec.oracle_fail(format!("ref-differs {ctx}: reference {:?} differs from the first one {:?}", (v, a), f)); } }
                        let made = lv.probe.made.lock().unwrap().first().copied();
                        if made.map(|m| m.1) != Some(v) { rec.oracle_fail(format!("value-wrong {ctx}: reference shows {v}, initialiser made {made:?}")); }
                    }
                    lv.quiescent_oracle(rec, &ctx);
                }
                "cell.state" => {
                    let Some(lv) = live.as_ref() else { rec.op(line.clone(), "bad-op"); continue };
                    let init = lv.is_init(rec, "cell.state");
                    if lv.blocked.get() { continue; }
                    rec.op(line.clone(), format!("init={init} seed_drops={} vals={} ub=false", lv.seed_drops(), lv.vals_made()));
                }
                "cell.drop" => {
                    let Some(lv) = live.take() else { rec.op(line.clone(), "bad-op"); continue };
                    let kind = lv.kind;
                    if lv.blocked.get() { continue; }
                    let (sd, vd, panicked) = lv.drop_cell(rec, &format!("{} cell, cell.drop", kind.name()));
                    rec.op(line.clone(), format!("dropped seed_drops={sd} val_drops={vd} panicked={panicked} ub=false"));
                    rec.stat(format!("drop/{}{}", kind.name(), if vd > 0 { "/init" } else { "/uninit" }));
                }
                "cell.shapes" => {
                    // seed / value types the dispatch on `needs_drop` must not get wrong: a ZERO-SIZED seed with a destructor, a value
                    // type WITHOUT destructor over a seed with one (and the reverse), each: never initialised / initialised / failed
                    // initialiser; every seed and every value is dropped exactly once over the life of the cell
                    let bad = shapes_probe();
                    rec.nontrivial = true;
                    rec.stat("shapes");
                    for b in &bad { rec.oracle_fail(format!("drop-ledger cell.shapes: {b}")); }
                    rec.op("cell.shapes".to_string(), if bad.is_empty() { "exactly-once" } else { "wrong" });
                }
                "cell.malformed" => {
                    let m = MALFORMED[w[1].parse::<usize>().expect("index") % MALFORMED.len()];
                    rec.op(m.to_string(), "bad-op");
                    rec.stat("malformed");
                }
                "cell.conc-run" => {
                    let kind = Kind::parse(w[1]);
                    let c: u64 = w[2].parse().expect("seed");
                    let reps: usize = w[3].parse().expect("reps");
                    let ths = parse_threads(&w[4..]);
                    let k = ths.len();
                    let mut outcomes: BTreeMap<String, usize> = BTreeMap::new();
                    for rep in 0..reps {
                        let lv = Live::new(kind, c);
                        let ctx = format!("{} cell, {k} free-running threads `{line}`", kind.name());
                        let Some(results) = run_threads(&lv, &ths, rep, None) else {
                            rec.oracle_fail(format!("call-blocked {ctx}: a thread did not return within 5 s"));
                            BLOCKED_SEEN.store(true, Ordering::SeqCst);
                            break;
                        };
                        conc_oracle(rec, &lv, &results, &ctx);
                        let init = lv.is_init(rec, &ctx);
                        let ml = conc_model_line(kind, c, &results, init, lv.seed_drops(), lv.vals_made());
                        *outcomes.entry(ml).or_insert(0) += 1;
                        lv.drop_cell(rec, &ctx);
                    }
                    rec.nontrivial = true;
                    rec.stat(format!("conc/threads={k}"));
                    rec.stat(format!("conc/distinct-outcomes={}", outcomes.len().min(9)));
                    for (ml, _) in outcomes { rec.op(ml, "lin-ok"); }
                }
                "cell.overlap" => {
                    let kind = Kind::parse(w[1]);
                    let c: u64 = w[2].parse().expect("seed");
                    let a = parse_call(w[3]);
                    let bs: Vec<Call> = w[4..].iter().map(|x| parse_call(x)).collect();
                    let lv = Live::new(kind, c);
                    let ctx = format!("{} cell, `{line}`", kind.name());
                    let (etx, erx) = mpsc::channel::<()>();
                    let (rtx, rrx) = mpsc::channel::<()>();
                    let gate: Gate = Some((etx, Arc::new(Mutex::new(rrx))));
                    let (restx, resrx) = mpsc::channel::<(usize, Vec<(Call, Res)>)>();
                    {
                        let (cell, probe, restx) = (lv.cell.clone(), lv.probe.clone(), restx.clone());
                        std::thread::spawn(move || { let r = cell.call(a, &probe, &gate); drop((cell, probe, gate)); let _ = restx.send((1, vec![(a, r)])); });
                    }
                    // wait until A's initialiser is running inside the once-closure
                    if erx.recv_timeout(Duration::from_secs(10)).is_err() { rec.oracle_fail(format!("init-not-run {ctx}: the first initialiser never started")); }
                    // `get` must answer None at once while an initialiser is running
                    let mut main_res = vec![];
                    let get_once = |rec: &mut CaseRec, main_res: &mut Vec<(Call, Res)>| {
                        if let Some(r) = lv.get_guarded(rec, &format!("{ctx} (while an initialiser was running)")) {
                            if r != Res::None { rec.oracle_fail(format!("get-wrong {ctx}: get answered {r:?} while the initialiser was still running")); }
                            main_res.push((Call::Get, r));
                        }
                    };
                    get_once(rec, &mut main_res);
                    for (n, b) in bs.iter().enumerate() {
                        let (cell, probe, restx, b) = (lv.cell.clone(), lv.probe.clone(), restx.clone(), *b);
                        std::thread::spawn(move || { let r = cell.call(b, &probe, &None); drop((cell, probe)); let _ = restx.send((2 + n, vec![(b, r)])); });
                    }
                    // give the others time to reach the once (search aid only; nothing is concluded from it)
                    std::thread::sleep(Duration::from_micros(300));
                    let runs_inside = lv.probe.f_runs.load(Ordering::SeqCst);
                    if runs_inside != 1 { rec.oracle_fail(format!("init-overlap {ctx}: {runs_inside} initialisers were running / had run while the first one was still inside the closure")); }
                    get_once(rec, &mut main_res);
                    let _ = rtx.send(());
                    let mut got: Vec<(usize, Vec<(Call, Res)>)> = vec![(0, main_res)];
                    while got.len() < 2 + bs.len() {
                        match resrx.recv_timeout(Duration::from_secs(5)) { Ok(x) => got.push(x), Err(_) => break }
                    }
                    rec.nontrivial = true;
                    rec.stat(format!("overlap/{}/{}", kind.name(), call_str(a).chars().next().unwrap()));
                    if got.len() < 2 + bs.len() || lv.blocked.get() {
                        if !lv.blocked.get() { rec.oracle_fail(format!("call-blocked {ctx}: a thread did not return within 5 s after the held initialiser was released")); }
                        BLOCKED_SEEN.store(true, Ordering::SeqCst);
                        continue;
                    }
                    got.sort_by_key(|x| x.0);
                    let results: Vec<Vec<(Call, Res)>> = got.into_iter().map(|x| x.1).collect();
                    conc_oracle(rec, &lv, &results, &ctx);
                    let init = lv.is_init(rec, &ctx);
                    rec.op(conc_model_line(kind, c, &results, init, lv.seed_drops(), lv.vals_made()), "lin-ok");
                    lv.drop_cell(rec, &ctx);
                }
                other => panic!("cell engine: unknown op {other}"),
            }
        }
        if let Some(old) = live.take() { old.drop_cell(rec, "end of case"); }
    }
}
