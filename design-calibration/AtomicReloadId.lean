namespace Conc18
/-- One atomic action of `AtomicReloadId::update`: `new > fetch_max(new)`.  Returns (stored', told) -/
def update (stored new : Nat) : Nat × Bool := (max stored new, decide (new > stored))

/-- A history: the linearisation of all `update(new)` calls of all threads in the order their
    single atomic RMW took effect.  Any interleaving of N threads' calls induces such a list, so
    quantifying over all lists quantifies over all schedules. -/
def runH (init : Nat) : List Nat → Nat × List Bool
  | [] => (init, [])
  | n :: ns => let (s, b) := update init n; let (f, bs) := runH s ns; (f, b :: bs)

theorem final_is_max (init : Nat) (h : List Nat) : (runH init h).1 = h.foldl max init := by
  induction h generalizing init with
  | nil => rfl
  | cons n ns ih => simp [runH, update, ih, List.foldl]

/-- told-true exactly at strict growths, so #true = #distinct growth events and the stored value is
    strictly increasing along the `true`s -/
theorem told_iff_grew (init : Nat) (h : List Nat) (i : Nat) (hi : i < h.length) :
    (runH init h).2[i]? = some (decide (h[i] > (runH init (h.take i)).1)) := by
  induction h generalizing init i with
  | nil => simp at hi
  | cons n ns ih =>
    cases i with
    | zero => simp [runH, update]
    | succ j =>
      have hj : j < ns.length := by simpa using hi
      simpa [runH, update] using ih (max init n) j hj

theorem never_below (init : Nat) (h : List Nat) : init ≤ (runH init h).1 := by
  induction h generalizing init with
  | nil => simp [runH]
  | cons n ns ih => simp only [runH, update]; exact Nat.le_trans (Nat.le_max_left ..) (ih _)
end Conc18
