namespace Ids
/-- ids are modelled as `List Char`; components are dot-free, the separator is '.' -/
def splitDot : List Char → List (List Char)
  | [] => [[]]
  | c :: cs =>
    if c = '.' then [] :: splitDot cs
    else match splitDot cs with
      | [] => [[c]]            -- unreachable (splitDot never returns [])
      | w :: ws => (c :: w) :: ws

def joinDot : List (List Char) → List Char
  | [] => []
  | [w] => w
  | w :: ws => w ++ '.' :: joinDot ws

theorem splitDot_ne_nil (s : List Char) : splitDot s ≠ [] := by
  induction s with
  | nil => simp [splitDot]
  | cons c cs ih =>
    simp only [splitDot]; split
    · simp
    · split <;> simp

/-- `IdBuilder::push` refuses segments containing '.', so this is exactly the builder's domain -/
def DotFree (w : List Char) : Prop := '.' ∉ w

theorem splitDot_dotfree (w : List Char) (h : DotFree w) : splitDot w = [w] := by
  induction w with
  | nil => rfl
  | cons c cs ih =>
    have hc : c ≠ '.' := fun e => h (by simp [e])
    have hcs : DotFree cs := fun m => h (List.mem_cons_of_mem _ m)
    simp [splitDot, hc, ih hcs]

theorem splitDot_append_dot (w : List Char) (rest : List Char) (h : DotFree w) :
    splitDot (w ++ '.' :: rest) = w :: splitDot rest := by
  induction w with
  | nil => simp [splitDot]
  | cons c cs ih =>
    have hc : c ≠ '.' := fun e => h (by simp [e])
    have hcs : DotFree cs := fun m => h (List.mem_cons_of_mem _ m)
    simp [splitDot, hc, ih hcs]

/-- ids and component lists round-trip: the id → path → id direction of C12/C04 -/
theorem split_join (ws : List (List Char)) (hne : ws ≠ []) (h : ∀ w ∈ ws, DotFree w) :
    splitDot (joinDot ws) = ws := by
  induction ws with
  | nil => exact absurd rfl hne
  | cons w ws ih =>
    cases ws with
    | nil => simpa [joinDot] using splitDot_dotfree w (h w (by simp))
    | cons w2 ws2 =>
      simp only [joinDot]
      rw [splitDot_append_dot w _ (h w (by simp))]
      rw [ih (by simp) (fun x hx => h x (List.mem_cons_of_mem _ hx))]

/-- …and the other direction holds for every string -/
theorem join_split (s : List Char) : joinDot (splitDot s) = s := by
  induction s with
  | nil => rfl
  | cons c cs ih =>
    simp only [splitDot]; split
    · rename_i hc; subst hc
      have := splitDot_ne_nil cs
      cases hsp : splitDot cs with
      | nil => exact absurd hsp this
      | cons w ws => rw [hsp] at ih; simp [joinDot, ih]
    · cases hsp : splitDot cs with
      | nil => exact absurd hsp (splitDot_ne_nil cs)
      | cons w ws =>
        rw [hsp] at ih
        cases ws with
        | nil => simp [joinDot] at ih ⊢; exact ih
        | cons w2 ws2 => simp [joinDot] at ih ⊢; exact ih

/-- hence two different valid ids never share a path (injectivity half of C12) -/
theorem joinDot_injective (a b : List (List Char)) (ha : a ≠ []) (hb : b ≠ [])
    (hda : ∀ w ∈ a, DotFree w) (hdb : ∀ w ∈ b, DotFree w) (h : joinDot a = joinDot b) : a = b := by
  rw [← split_join a ha hda, ← split_join b hb hdb, h]
end Ids
