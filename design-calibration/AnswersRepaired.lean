namespace Ans2

inductive CPc | idle | sent | sleeping | runnable | done
deriving DecidableEq, Repr
inductive RPc | recv | pub (t : Nat) | sleep (t : Nat)
deriving DecidableEq, Repr

structure St where
  c     : Nat → CPc          -- caller i uses token i (tokens are unique: fetch_add)
  queue : List Nat
  slot  : Option Nat
  r     : RPc

inductive Tid | caller (i : Nat) | reloader | spurious (i : Nat) | spuriousR
deriving DecidableEq, Repr

def upd (c : Nat → CPc) (i : Nat) (v : CPc) : Nat → CPc := fun j => if j = i then v else c j
def wakeAll (c : Nat → CPc) : Nat → CPc := fun j => if c j = .sleeping then .runnable else c j
def wakeR : RPc → RPc | .sleep t => .pub t | r => r

/-- repaired protocol: the caller signals after emptying the slot -/
def step (s : St) : Tid → Option St
  | .caller i =>
    match s.c i with
    | .idle => some { s with c := upd s.c i .sent, queue := s.queue ++ [i] }
    | .sent | .runnable =>
        if s.slot = some i then some { s with c := wakeAll (upd s.c i .done), slot := none, r := wakeR s.r }
        else some { s with c := upd s.c i .sleeping }
    | _ => none
  | .reloader =>
    match s.r with
    | .recv => match s.queue with
        | t :: q => some { s with queue := q, r := .pub t }
        | [] => none
    | .pub t =>
        if s.slot.isSome then some { s with r := .sleep t }
        else some { s with slot := some t, r := .recv, c := wakeAll s.c }
    | .sleep _ => none
  | .spurious i => if s.c i = .sleeping then some { s with c := upd s.c i .runnable } else none
  | .spuriousR => match s.r with | .sleep t => some { s with r := .pub t } | _ => none

def init (n : Nat) : St := ⟨fun i => if i < n then .idle else .done, [], none, .recv⟩

def run : St → List Tid → St
  | s, [] => s
  | s, t :: ts => match step s t with | some s' => run s' ts | none => run s ts   -- disabled = stutter

def holds (r : RPc) (t : Nat) : Nat := match r with | .pub u => if u = t then 1 else 0 | .sleep u => if u = t then 1 else 0 | .recv => 0
def inSlot (sl : Option Nat) (t : Nat) : Nat := if sl = some t then 1 else 0
/-- number of places token `t` currently lives in -/
def where_ (s : St) (t : Nat) : Nat := s.queue.count t + holds s.r t + inSlot s.slot t
def active (p : CPc) : Bool := p = .sent || p = .sleeping || p = .runnable

structure Inv (s : St) : Prop where
  i1 : ∀ t, s.r = .sleep t → s.slot ≠ none
  i2 : ∀ u, s.slot = some u → s.c u ≠ .sleeping
  j  : ∀ t, where_ s t = if active (s.c t) then 1 else 0

theorem inv_init (n : Nat) : Inv (init n) := by
  refine ⟨by simp [init], by simp [init], ?_⟩
  intro t; simp only [init, where_, holds, inSlot]; by_cases h : t < n <;> simp [h, active]

@[simp] theorem holds_wakeR (r : RPc) (t : Nat) : holds (wakeR r) t = holds r t := by
  cases r <;> simp [wakeR, holds]

theorem active_wakeAll (c : Nat → CPc) (j : Nat) : active (wakeAll c j) = active (c j) := by
  unfold wakeAll; by_cases h : c j = .sleeping <;> simp [h, active]

theorem inv_step (s s' : St) (t : Tid) (h : step s t = some s') (hi : Inv s) : Inv s' := by
  obtain ⟨i1, i2, j⟩ := hi
  cases t with
  | caller i =>
    simp only [step] at h
    cases hc : s.c i with
    | idle =>
      simp [hc] at h; subst h
      refine ⟨i1, ?_, ?_⟩
      · intro u hu
        show upd s.c i .sent u ≠ .sleeping
        by_cases hui : u = i
        · simp [upd, hui]
        · simpa [upd, hui] using i2 u hu
      · intro t
        have := j t
        show (s.queue ++ [i]).count t + holds s.r t + inSlot s.slot t = if active (upd s.c i .sent t) then 1 else 0
        simp only [where_] at this
        by_cases hti : t = i
        · subst hti; simp [upd, active, hc, List.count_append] at this ⊢; omega
        · have hne : ¬ (i = t) := fun e => hti e.symm
          simp [upd, hti, List.count_append, List.count_cons, hne] at this ⊢; exact this
    | sleeping => simp [hc] at h
    | done => simp [hc] at h
    | sent | runnable =>
      all_goals
        simp [hc] at h
        by_cases hs : s.slot = some i
        · simp [hs] at h; subst h
          refine ⟨?_, by simp, ?_⟩
          · intro t ht; exfalso; revert ht; show wakeR s.r = .sleep t → False; cases s.r <;> simp [wakeR]
          · intro t
            have := j t
            show s.queue.count t + holds (wakeR s.r) t + inSlot none t = if active (wakeAll (upd s.c i .done) t) then 1 else 0
            simp only [where_] at this
            rw [active_wakeAll, holds_wakeR]
            by_cases hti : t = i
            · subst hti; simp [upd, active, hc, hs, inSlot] at this ⊢; omega
            · have hne : ¬ (i = t) := fun e => hti e.symm
              simp [upd, hti, hs, inSlot, hne] at this ⊢; exact this
        · simp [hs] at h; subst h
          refine ⟨i1, ?_, ?_⟩
          · intro u hu
            show upd s.c i .sleeping u ≠ .sleeping
            have hui : u ≠ i := by intro e; subst e; exact hs hu
            simpa [upd, hui] using i2 u hu
          · intro t
            have := j t
            show where_ s t = if active (upd s.c i .sleeping t) then 1 else 0
            by_cases hti : t = i
            · subst hti; simp [upd, active, hc] at this ⊢; exact this
            · simp [upd, hti] at this ⊢; exact this
  | reloader =>
    simp only [step] at h
    cases hr : s.r with
    | recv =>
      simp [hr] at h
      cases hq : s.queue with
      | nil => simp [hq] at h
      | cons t q =>
        simp [hq] at h; subst h
        refine ⟨by simp, i2, ?_⟩
        intro u
        have := j u
        show q.count u + holds (.pub t) u + inSlot s.slot u = if active (s.c u) then 1 else 0
        simp only [where_, hq, hr, holds, List.count_cons] at this
        simp only [holds]
        by_cases e : t = u <;> simp [e] at this ⊢ <;> omega
    | pub t =>
      simp [hr] at h
      by_cases hs : s.slot.isSome
      · simp [hs] at h; subst h
        refine ⟨fun _ _ => by simpa [Option.isSome_iff_ne_none] using hs, i2, ?_⟩
        intro u
        have := j u
        show s.queue.count u + holds (.sleep t) u + inSlot s.slot u = if active (s.c u) then 1 else 0
        simpa [where_, hr, holds] using this
      · simp [hs] at h; subst h
        have hnone : s.slot = none := by simpa using hs
        refine ⟨by simp, ?_, ?_⟩
        · intro u hu
          show wakeAll s.c u ≠ .sleeping
          unfold wakeAll; by_cases hsl : s.c u = .sleeping <;> simp [hsl]
        · intro u
          have := j u
          show s.queue.count u + holds .recv u + inSlot (some t) u = if active (wakeAll s.c u) then 1 else 0
          rw [active_wakeAll]
          simp only [where_, hr, hnone, holds, inSlot] at this
          simp only [holds, inSlot]
          by_cases e : t = u <;> simp [e] at this ⊢ <;> omega
    | sleep t => simp [hr] at h
  | spurious i =>
    simp only [step] at h
    by_cases hc : s.c i = .sleeping
    · simp [hc] at h; subst h
      refine ⟨i1, ?_, ?_⟩
      · intro u hu
        show upd s.c i .runnable u ≠ .sleeping
        by_cases hui : u = i
        · simp [upd, hui]
        · simpa [upd, hui] using i2 u hu
      · intro t
        have := j t
        show where_ s t = if active (upd s.c i .runnable t) then 1 else 0
        by_cases hti : t = i
        · subst hti; simp [upd, active, hc] at this ⊢; exact this
        · simp [upd, hti] at this ⊢; exact this
    · simp [hc] at h
  | spuriousR =>
    simp only [step] at h
    cases hr : s.r with
    | sleep t =>
      simp [hr] at h; subst h
      refine ⟨by simp, i2, ?_⟩
      intro u
      have := j u
      show s.queue.count u + holds (.pub t) u + inSlot s.slot u = if active (s.c u) then 1 else 0
      simpa [where_, hr, holds] using this
    | recv => simp [hr] at h
    | pub t => simp [hr] at h

theorem inv_run (s : St) (σ : List Tid) (hi : Inv s) : Inv (run s σ) := by
  induction σ generalizing s with
  | nil => exact hi
  | cons t ts ih =>
    simp only [run]
    cases h : step s t with
    | none => exact ih s hi
    | some s' => exact ih s' (inv_step s s' t h hi)

/-- C08 (repaired mailbox): for ANY number of concurrent callers and ANY schedule (spurious
    wake-ups included), a state in which some caller has not returned always has an enabled,
    non-spurious step: no deadlock. -/
theorem no_deadlock (n : Nat) (σ : List Tid) (i : Nat) (hnd : (run (init n) σ).c i ≠ .done) :
    (step (run (init n) σ) .reloader).isSome ∨ ∃ k, (step (run (init n) σ) (.caller k)).isSome := by
  have hinv := inv_run (init n) σ (inv_init n)
  generalize run (init n) σ = s at hinv hnd
  obtain ⟨i1, i2, j⟩ := hinv
  -- a caller that is idle / sent / runnable can step
  have callerEnabled : ∀ k, s.c k = .idle ∨ s.c k = .sent ∨ s.c k = .runnable → (step s (.caller k)).isSome := by
    intro k hk
    simp only [step]
    rcases hk with h | h | h <;> simp [h] <;> split <;> simp
  cases hci : s.c i with
  | done => exact absurd hci hnd
  | idle => exact Or.inr ⟨i, callerEnabled i (Or.inl hci)⟩
  | sent => exact Or.inr ⟨i, callerEnabled i (Or.inr (Or.inl hci))⟩
  | runnable => exact Or.inr ⟨i, callerEnabled i (Or.inr (Or.inr hci))⟩
  | sleeping =>
    -- token i lives somewhere
    have hw := j i
    simp [active, hci, where_] at hw
    cases hr : s.r with
    | pub t => left; simp only [step, hr]; split <;> simp
    | recv =>
      cases hq : s.queue with
      | cons t q => left; simp [step, hr, hq]
      | nil =>
        -- then token i is in the slot, contradicting i2
        simp [hr, hq, holds, inSlot] at hw
        exact absurd hci (i2 i hw)
    | sleep t =>
      -- slot occupied by some u who is not asleep and is active ⇒ u can step
      have hne := i1 t hr
      cases hsl : s.slot with
      | none => exact absurd hsl hne
      | some u =>
        right; refine ⟨u, ?_⟩
        have hju := j u
        have hu2 := i2 u hsl
        simp [where_, hsl, inSlot] at hju
        have hact : active (s.c u) = true := by
          cases hact : active (s.c u) with
          | true => rfl
          | false => simp [hact] at hju
        apply callerEnabled
        revert hact hu2; cases s.c u <;> simp [active]

end Ans2
