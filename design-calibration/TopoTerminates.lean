-- (calibration) originally: import of TopoOrder.lean — check the two files together
namespace Topo2
variable (rdeps : Nat → List Nat)

def unv (nodes vis : List Nat) : Nat := nodes.countP (fun x => !decide (x ∈ vis))

theorem unv_mono (nodes : List Nat) {v v' : List Nat} (h : ∀ x ∈ v, x ∈ v') : unv nodes v' ≤ unv nodes v := by
  unfold unv
  apply List.countP_mono_left
  intro x _ hx
  simp at hx ⊢
  exact fun hv => hx (h x hv)

theorem unv_cons_lt (nodes : List Nat) {v : List Nat} {k : Nat} (hk : k ∈ nodes) (hv : k ∉ v) :
    unv nodes (k :: v) < unv nodes v := by
  unfold unv
  induction nodes with
  | nil => simp at hk
  | cons a as ih =>
    have hle : List.countP (fun x => !decide (x ∈ k :: v)) as ≤ List.countP (fun x => !decide (x ∈ v)) as :=
      unv_mono as (fun x hx => List.mem_cons_of_mem _ hx)
    by_cases hak : a = k
    · subst hak
      rw [List.countP_cons_of_neg (by simp), List.countP_cons_of_pos (by simpa using hv)]
      omega
    · have hk' : k ∈ as := by
        rcases List.mem_cons.mp hk with h | h
        · exact absurd h.symm hak
        · exact h
      have := ih hk'
      by_cases h1 : a ∈ v
      · rw [List.countP_cons_of_neg (by simp [h1]), List.countP_cons_of_neg (by simp [h1])]; exact this
      · rw [List.countP_cons_of_pos (by simp [h1, hak]), List.countP_cons_of_pos (by simp [h1])]; omega

theorem visit_mono : ∀ f st k st', visitF rdeps f st k = some st' → ∀ x ∈ st.vis, x ∈ st'.vis := by
  intro f
  induction f with
  | zero => intro st k st' h; simp [visitF] at h
  | succ f ih =>
    intro st k st' h x hx
    unfold visitF at h
    by_cases hk : k ∈ st.vis
    · simp [hk] at h; subst h; exact hx
    · simp only [hk, if_false] at h
      have fold : ∀ (rs : List Nat) (s0 s : St),
          rs.foldlM (fun s r => visitF rdeps f s r) s0 = some s → ∀ y ∈ s0.vis, y ∈ s.vis := by
        intro rs
        induction rs with
        | nil => intro s0 s h y hy; simp [List.foldlM] at h; subst h; exact hy
        | cons r rs ihrs =>
          intro s0 s h y hy
          simp only [List.foldlM_cons, Option.bind_eq_bind] at h
          cases hv : visitF rdeps f s0 r with
          | none => simp [hv] at h
          | some s1 => simp [hv] at h; exact ihrs s1 s h y (ih s0 r s1 hv y hy)
      cases hf : (rdeps k).foldlM (fun s r => visitF rdeps f s r) ⟨k :: st.vis, st.out⟩ with
      | none => simp [hf] at h
      | some s => simp [hf] at h; subst h; exact fold _ _ s hf x (List.mem_cons_of_mem _ hx)

/-- C08 (repaired order): the visit returns on EVERY finite graph, cyclic or not,
    with fuel bounded by the number of still-unvisited nodes -/
theorem visit_terminates (nodes : List Nat) (hclosed : ∀ a ∈ nodes, ∀ b ∈ rdeps a, b ∈ nodes) :
    ∀ f st k, k ∈ nodes → unv nodes st.vis < f → ∃ st', visitF rdeps f st k = some st' := by
  intro f
  induction f with
  | zero => intro st k _ h; omega
  | succ f ih =>
    intro st k hk hlt
    unfold visitF
    by_cases hkv : k ∈ st.vis
    · exact ⟨st, by simp [hkv]⟩
    · simp only [hkv, if_false]
      have h0 : unv nodes (k :: st.vis) < f := by
        have := unv_cons_lt nodes hk hkv; omega
      have fold : ∀ (rs : List Nat) (s0 : St), (∀ r ∈ rs, r ∈ nodes) → unv nodes s0.vis < f →
          ∃ s, rs.foldlM (fun s r => visitF rdeps f s r) s0 = some s := by
        intro rs
        induction rs with
        | nil => intro s0 _ _; exact ⟨s0, by simp [List.foldlM]⟩
        | cons r rs ihrs =>
          intro s0 hn hl
          have ⟨s1, h1⟩ := ih s0 r (hn r (by simp)) hl
          have hm := visit_mono rdeps f s0 r s1 h1
          have ⟨s, hs⟩ := ihrs s1 (fun r' hr' => hn r' (by simp [hr'])) (Nat.lt_of_le_of_lt (unv_mono nodes hm) hl)
          exact ⟨s, by simp [List.foldlM_cons, h1, hs]⟩
      have ⟨s, hs⟩ := fold (rdeps k) ⟨k :: st.vis, st.out⟩ (hclosed k hk) h0
      exact ⟨_, by rw [hs]⟩

end Topo2
