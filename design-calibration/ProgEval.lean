namespace PM2
structure Key where
  ty : Nat
  id : String
deriving DecidableEq, Repr
inductive Dep | file (id ext : String) | dir (id : String) | asset (k : Key)
deriving DecidableEq, Repr
inductive Err | io (notFound : Bool) | conv | wrapped (id : String) (e : Err) | other
inductive Prog where
  | ret (v : Int) | fail (e : Err) | panic
  | read (id ext : String) (k : Except Err (List UInt8) → Prog)
  | load (key : Key) (k : Except Err Int → Prog)
  | getCached (key : Key) (k : Option Int → Prog)
  | noRecord (body : Prog) (k : Except Err Int → Prog)
inductive Outcome | ok (v : Int) | err (e : Err) | panicked | diverged

structure TypeInfo where
  hot : Bool
  prog : String → Prog
/-- immutable during an evaluation -/
structure Env where
  files : String → String → Except Err (List UInt8)
  types : Nat → TypeInfo
  hasReloader : Bool
/-- mutable -/
structure S where
  map : List (Key × Int)
  graph : List (Key × List Dep)
  recs : List (Option (List Dep))

def S.lookup (s : S) (k : Key) : Option Int := (s.map.find? (·.1 = k)).map (·.2)
def S.insertKeepFirst (s : S) (k : Key) (v : Int) : S × Int :=
  match s.lookup k with
  | some v' => (s, v')
  | none => ({ s with map := s.map ++ [(k, v)] }, v)
def S.record (s : S) (on : Bool) (d : Dep) : S :=
  if on then
    match s.recs with
    | some ds :: rest => { s with recs := some (d :: ds) :: rest }
    | _ => s
  else s
@[simp] theorem S.record_recs_tail (s : S) (on d) : (s.record on d).recs.tail = s.recs.tail := by
  unfold S.record; split
  · split <;> simp_all
  · rfl
@[simp] theorem S.record_recs_length (s : S) (on d) : (s.record on d).recs.length = s.recs.length := by
  unfold S.record; split
  · split <;> simp_all
  · rfl
@[simp] theorem S.insert_recs (s : S) (k v) : (s.insertKeepFirst k v).1.recs = s.recs := by
  unfold S.insertKeepFirst; split <;> rfl

/-- `CellGuard::replace … drop`: run `body` with `frame` pushed (if `push`), then restore the cell
    to exactly what it was, on every exit path; returns what the frame recorded -/
def withFrame (push : Bool) (frame : Option (List Dep)) (body : S → S × Outcome) (s : S) :
    S × Outcome × List Dep :=
  if push then
    let (s1, o) := body { s with recs := frame :: s.recs }
    ({ s1 with recs := s.recs }, o, match s1.recs with | some ds :: _ => ds | _ => [])
  else
    let (s1, o) := body s
    (s1, o, [])

def cont (o : Outcome) (s : S) (k : Except Err Int → S → S × Outcome) (wrap : Err → Err) : S × Outcome :=
  match o with
  | .ok v => k (.ok v) s
  | .err e => k (.error (wrap e)) s
  | o => (s, o)

def eval (env : Env) : Nat → S → Prog → S × Outcome
  | 0, s, _ => (s, .diverged)
  | _+1, s, .ret v => (s, .ok v)
  | _+1, s, .fail e => (s, .err e)
  | _+1, s, .panic => (s, .panicked)
  | f+1, s, .read id ext k => eval env f (s.record env.hasReloader (.file id ext)) (k (env.files id ext))
  | f+1, s, .getCached key k =>
      let s := s.record ((env.types key.ty).hot && env.hasReloader) (.asset key)
      eval env f s (k (s.lookup key))
  | f+1, s, .noRecord body k =>
      let (s1, o, _) := withFrame true none (fun s => eval env f s body) s
      cont o s1 (fun r s => eval env f s (k r)) id
  | f+1, s, .load key k =>
      let hotR := (env.types key.ty).hot && env.hasReloader
      let s := s.record hotR (.asset key)
      match s.lookup key with
      | some v => eval env f s (k (.ok v))
      | none =>
        let (s1, o, deps) := withFrame hotR (some []) (fun s => eval env f s ((env.types key.ty).prog key.id)) s
        match o with
        | .ok v =>
            let s2 := if hotR then { s1 with graph := s1.graph ++ [(key, deps)] } else s1
            let r := s2.insertKeepFirst key v
            eval env f r.1 (k (.ok r.2))
        | o => cont o s1 (fun r s => eval env f s (k r)) (.wrapped key.id)

/-- a body that preserves the stack shape ⇒ the frame combinator does too -/
theorem withFrame_shape (push frame) (body : S → S × Outcome) (s : S)
    (hb : ∀ s, (body s).1.recs.tail = s.recs.tail ∧ (body s).1.recs.length = s.recs.length) :
    (withFrame push frame body s).1.recs.tail = s.recs.tail ∧
    (withFrame push frame body s).1.recs.length = s.recs.length := by
  unfold withFrame
  split
  · simp
  · exact hb s
/-- …and when it pushes, the cell is restored *exactly* -/
theorem withFrame_restores (frame) (body : S → S × Outcome) (s : S) :
    (withFrame true frame body s).1.recs = s.recs := by simp [withFrame]

theorem eval_shape (env : Env) : ∀ f s p, (eval env f s p).1.recs.tail = s.recs.tail ∧
    (eval env f s p).1.recs.length = s.recs.length := by
  intro f
  induction f with
  | zero => intro s p; simp [eval]
  | succ f ih =>
    intro s p
    cases p with
    | ret v => simp [eval]
    | fail e => simp [eval]
    | panic => simp [eval]
    | read id ext k => simp only [eval]; have := ih (s.record env.hasReloader (.file id ext)) (k (env.files id ext)); simp_all
    | getCached key k =>
      simp only [eval]
      have := ih (s.record ((env.types key.ty).hot && env.hasReloader) (.asset key))
        (k ((s.record ((env.types key.ty).hot && env.hasReloader) (.asset key)).lookup key))
      simp_all
    | noRecord body k =>
      simp only [eval]
      have hf := withFrame_shape true none (fun s => eval env f s body) s (fun s => ih s body)
      generalize withFrame true none (fun s => eval env f s body) s = r at hf ⊢
      obtain ⟨s1, o, d⟩ := r
      cases o with
      | ok v => simp only [cont]; have := ih s1 (k (.ok v)); simp_all
      | err e => simp only [cont]; have := ih s1 (k (.error (id e))); simp_all
      | panicked => simp only [cont]; simp_all
      | diverged => simp only [cont]; simp_all
    | load key k =>
      simp only [eval]
      generalize hs' : s.record ((env.types key.ty).hot && env.hasReloader) (.asset key) = s'
      have hs'r : s'.recs.tail = s.recs.tail ∧ s'.recs.length = s.recs.length := by subst hs'; simp
      cases s'.lookup key with
      | some v => simp only []; have := ih s' (k (.ok v)); simp_all
      | none =>
        simp only []
        have hf := withFrame_shape ((env.types key.ty).hot && env.hasReloader) (some [])
          (fun s => eval env f s ((env.types key.ty).prog key.id)) s' (fun s => ih s _)
        generalize withFrame _ (some []) (fun s => eval env f s ((env.types key.ty).prog key.id)) s' = r at hf ⊢
        obtain ⟨s1, o, d⟩ := r
        cases o with
        | ok v =>
          simp only []
          generalize hs2 : (if ((env.types key.ty).hot && env.hasReloader) = true then { s1 with graph := s1.graph ++ [(key, d)] } else s1) = s2
          have h2 : s2.recs = s1.recs := by subst hs2; split <;> rfl
          have := ih (s2.insertKeepFirst key v).1 (k (.ok (s2.insertKeepFirst key v).2))
          simp_all
        | err e => simp only [cont]; have := ih s1 (k (.error (.wrapped key.id e))); simp_all
        | panicked => simp only [cont]; simp_all
        | diverged => simp only [cont]; simp_all
end PM2
