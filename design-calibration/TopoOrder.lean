namespace Topo2

structure St where
  vis : List Nat
  out : List Nat
variable (rdeps : Nat → List Nat)

def visitF : Nat → St → Nat → Option St
  | 0, _, _ => none
  | f+1, st, k =>
    if k ∈ st.vis then some st else
    match (rdeps k).foldlM (fun s r => visitF f s r) ⟨k :: st.vis, st.out⟩ with
    | none => none
    | some s => some ⟨s.vis, k :: s.out⟩

/-- every node's reverse dependencies come later in the list -/
def Ord (out : List Nat) : Prop :=
  ∀ pre a post, out = pre ++ a :: post → ∀ b ∈ rdeps a, b ∈ post

structure Inv (st : St) : Prop where
  sub : ∀ x ∈ st.out, x ∈ st.vis
  ord : Ord rdeps st.out
  nodup : st.out.Nodup

/-- relation between the state before and after a (sequence of) visit(s) -/
structure Step (st st' : St) : Prop where
  inv   : Inv rdeps st'
  mono  : ∀ x ∈ st.vis, x ∈ st'.vis
  omono : ∀ x ∈ st.out, x ∈ st'.out
  fresh : ∀ x ∈ st'.out, x ∈ st.out ∨ x ∉ st.vis
  gray  : ∀ g ∈ st'.vis, g ∉ st'.out → g ∈ st.vis ∧ g ∉ st.out

theorem Step.refl {st : St} (h : Inv rdeps st) : Step rdeps st st :=
  ⟨h, fun _ h => h, fun _ h => h, fun _ h => Or.inl h, fun _ h1 h2 => ⟨h1, h2⟩⟩

theorem Step.trans {a b c : St} (h1 : Step rdeps a b) (h2 : Step rdeps b c) : Step rdeps a c where
  inv := h2.inv
  mono x hx := h2.mono x (h1.mono x hx)
  omono x hx := h2.omono x (h1.omono x hx)
  fresh x hx := by
    rcases h2.fresh x hx with h | h
    · exact h1.fresh x h
    · exact Or.inr (fun hv => h (h1.mono x hv))
  gray g hv ho := by
    have ⟨hv', ho'⟩ := h2.gray g hv ho
    exact h1.gray g hv' ho'

theorem ord_cons {k : Nat} {out : List Nat} (ho : Ord rdeps out) (hk : ∀ b ∈ rdeps k, b ∈ out) :
    Ord rdeps (k :: out) := by
  intro pre a post h b hb
  cases pre with
  | nil => simp at h; obtain ⟨rfl, rfl⟩ := h; exact hk b hb
  | cons p pre' =>
    simp at h
    exact ho pre' a post h.2 b hb

variable (rank : Nat → Nat) (hr : ∀ a b, b ∈ rdeps a → rank b < rank a)
include hr

theorem visit_ok : ∀ f st k st', visitF rdeps f st k = some st' → Inv rdeps st →
    (∀ g ∈ st.vis, g ∉ st.out → rank k < rank g) →
    Step rdeps st st' ∧ k ∈ st'.out := by
  intro f
  induction f with
  | zero => intro st k st' h; simp [visitF] at h
  | succ f ih =>
    intro st k st' h hinv hgray
    unfold visitF at h
    by_cases hk : k ∈ st.vis
    · simp [hk] at h; subst h
      refine ⟨Step.refl rdeps hinv, ?_⟩
      exact Decidable.byContradiction fun hno => Nat.lt_irrefl _ (hgray k hk hno)
    · simp only [hk, if_false] at h
      -- generalised fold lemma
      have fold : ∀ (rs : List Nat) (s0 s : St),
          rs.foldlM (fun s r => visitF rdeps f s r) s0 = some s → Inv rdeps s0 →
          (∀ r ∈ rs, ∀ g ∈ s0.vis, g ∉ s0.out → rank r < rank g) →
          Step rdeps s0 s ∧ ∀ r ∈ rs, r ∈ s.out := by
        intro rs
        induction rs with
        | nil => intro s0 s h hi _; simp [List.foldlM] at h; subst h; exact ⟨Step.refl rdeps hi, by simp⟩
        | cons r rs ihrs =>
          intro s0 s h hi hg
          simp only [List.foldlM_cons, Option.bind_eq_bind] at h
          cases hv : visitF rdeps f s0 r with
          | none => simp [hv] at h
          | some s1 =>
            simp [hv] at h
            have ⟨st1, hr1⟩ := ih s0 r s1 hv hi (hg r (by simp))
            have ⟨st2, hr2⟩ := ihrs s1 s h st1.inv (by
              intro r' hr' g hgv hgo
              have ⟨a, b⟩ := st1.gray g hgv hgo
              exact hg r' (by simp [hr']) g a b)
            refine ⟨st1.trans rdeps st2, ?_⟩
            intro x hx
            simp at hx
            rcases hx with rfl | hx
            · exact st2.omono _ hr1
            · exact hr2 x hx
      cases hf : (rdeps k).foldlM (fun s r => visitF rdeps f s r) ⟨k :: st.vis, st.out⟩ with
      | none => simp [hf] at h
      | some s =>
        simp [hf] at h; subst h
        have hinv0 : Inv rdeps ⟨k :: st.vis, st.out⟩ :=
          ⟨fun x hx => List.mem_cons_of_mem _ (hinv.sub x hx), hinv.ord, hinv.nodup⟩
        have ⟨hs, hch⟩ := fold (rdeps k) _ s hf hinv0 (by
          intro r hrk g hgv hgo
          simp at hgv
          rcases hgv with rfl | hgv
          · exact hr _ _ hrk
          · exact Nat.lt_trans (hr _ _ hrk) (hgray g hgv hgo))
        have hkout : k ∉ s.out := by
          intro hks
          rcases hs.fresh k hks with h1 | h1
          · exact hk (hinv.sub k h1)
          · exact h1 (by simp)
        refine ⟨⟨⟨?_, ?_, ?_⟩, ?_, ?_, ?_, ?_⟩, by simp⟩
        · intro x hx; simp at hx
          rcases hx with rfl | hx
          · exact hs.mono _ (by simp)
          · exact hs.inv.sub x hx
        · exact ord_cons rdeps hs.inv.ord hch
        · exact List.nodup_cons.mpr ⟨hkout, hs.inv.nodup⟩
        · intro x hx; exact hs.mono x (List.mem_cons_of_mem _ hx)
        · intro x hx; exact List.mem_cons_of_mem _ (hs.omono x hx)
        · intro x hx; simp at hx
          rcases hx with rfl | hx
          · exact Or.inr hk
          · rcases hs.fresh x hx with h1 | h1
            · exact Or.inl h1
            · exact Or.inr (fun hv => h1 (List.mem_cons_of_mem _ hv))
        · intro g hgv hgo
          simp at hgo
          have ⟨a, b⟩ := hs.gray g hgv hgo.2
          simp at a
          rcases a with rfl | a
          · exact absurd rfl hgo.1
          · exact ⟨a, b⟩

end Topo2
