namespace Topo

structure St where
  vis : List Nat
  out : List Nat          -- cons-list: head = last finished = first to be reloaded

/-- `markFirst = false`: the code as it is (visited.insert after the recursive calls).
    `markFirst = true` : the repaired order. -/
def visit (rdeps : Nat → List Nat) (markFirst : Bool) : Nat → St → Nat → Option St
  | 0, _, _ => none
  | f+1, st, k =>
    if k ∈ st.vis then some st else
    let st0 : St := if markFirst then ⟨k :: st.vis, st.out⟩ else st
    match (rdeps k).foldlM (fun s r => visit rdeps markFirst f s r) st0 with
    | none => none
    | some s => some ⟨if markFirst then s.vis else k :: s.vis, k :: s.out⟩

/-- F-C08b: a node that is its own reverse dependency makes the current `visit` diverge
    (every fuel is exhausted) -/
theorem current_diverges_on_self_loop (vis out : List Nat) (h : 0 ∉ vis) :
    ∀ fuel, visit (fun _ => [0]) false fuel ⟨vis, out⟩ 0 = none := by
  intro fuel
  induction fuel with
  | zero => rfl
  | succ f ih => simp [visit, h, List.foldlM, ih]

/-- the repaired order terminates on the same graph -/
example : (visit (fun _ => [0]) true 2 ⟨[], []⟩ 0).map (·.out) = some [0] := by decide

end Topo
