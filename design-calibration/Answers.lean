namespace Ans

/-- caller program counter -/
inductive CPc | idle | sent | sleeping | runnable | done
deriving DecidableEq, Repr

/-- reloader program counter: `recv` = blocked on channel / `pub t` = about to publish t
    (runnable), `sleep t` = waiting on condvar for an empty slot -/
inductive RPc | recv | pub (t : Nat) | sleep (t : Nat)
deriving DecidableEq, Repr

structure St where
  callers : List CPc          -- caller i has token i
  queue   : List Nat          -- cache_msg channel (Ptr tokens), FIFO
  slot    : Option Nat        -- Answers.current_token
  r       : RPc
  served  : List Nat          -- tokens whose update pass finished (ghost)
deriving DecidableEq, Repr

def init (n : Nat) : St := ⟨List.replicate n .idle, [], none, .recv, []⟩

inductive Tid | caller (i : Nat) | reloader
deriving DecidableEq, Repr

def wakeAll (cs : List CPc) : List CPc := cs.map fun c => if c = .sleeping then .runnable else c
def wakeR (r : RPc) : RPc := match r with | .sleep t => .pub t | r => r

/-- `fixed = true` adds the notify_all after a caller empties the slot. -/
def step (fixed : Bool) (s : St) : Tid → Option St
  | .caller i =>
    match s.callers[i]? with
    | some .idle => some { s with callers := s.callers.set i .sent, queue := s.queue ++ [i] }
    | some .sent | some .runnable =>
        if s.slot = some i then
          let s' := { s with callers := s.callers.set i .done, slot := none }
          some (if fixed then { s' with callers := wakeAll s'.callers, r := wakeR s'.r } else s')
        else some { s with callers := s.callers.set i .sleeping }
    | _ => none
  | .reloader =>
    match s.r with
    | .recv => match s.queue with
        | t :: q => some { s with queue := q, r := .pub t, served := t :: s.served }
        | [] => none
    | .pub t =>
        if s.slot.isSome then some { s with r := .sleep t }
        else some { s with slot := some t, r := .recv, callers := wakeAll s.callers }
    | .sleep _ => none

def run (fixed : Bool) : St → List Tid → Option St
  | s, [] => some s
  | s, t :: ts => match step fixed s t with | some s' => run fixed s' ts | none => none

def allDone (s : St) : Bool := s.callers.all (· = .done)
def enabled (fixed : Bool) (s : St) (n : Nat) : Bool :=
  (step fixed s .reloader).isSome || (List.range n).any fun i => (step fixed s (.caller i)).isSome
def deadlocked (fixed : Bool) (s : St) (n : Nat) : Bool := !allDone s && !enabled fixed s n

open Tid in
/-- Lost wake-up in the current protocol: 2 callers, concrete schedule, kernel-checked. -/
theorem current_deadlocks :
    ∃ sched s, run false (init 2) sched = some s ∧ deadlocked false s 2 = true :=
  ⟨[caller 0, caller 1, reloader, reloader, reloader, reloader, caller 0, caller 1], _, rfl, by decide⟩

end Ans
