"""Configuration of the check for C13 (loaded by checklib/props.py; COMMON_TRUSTED / MODEL_TRUSTED are in scope)."""

PROP = {'modules': ['AmVerif.Props.C13'],
 'engines': [{'name': 'own', 'quick': 150, 'thorough': 4000},
             {'name': 'conc', 'quick': 8, 'thorough': 80},
             {'name': 'iso', 'tag': 'iso-guards', 'first': 2, 'quick': 4, 'thorough': 60, 'classes': ['guard-value-changed', 'torn-read', 'value-went-back']},
             {'name': 'cell', 'tag': 'cell-drops', 'first': 3, 'quick': 6, 'thorough': 200, 'classes': ['drop-ledger']}],
 'rule': 'own: operation histories over the whole map API (load / load_owned / get_or_insert on present and absent keys / remove / take / clear / directory loads) with script assets (nested, failing, panicking loads) and notified edits followed by hot_reload, on every front-end and constructor; every value produced by a loader or passed to get_or_insert carries a uid whose creation and drop are logged; after EVERY operation: no uid dropped twice, every dropped uid was created, created - dropped = number of live tracked entries; after dropping the cache: created = dropped; identity: a value seen through a handle (also by a loader; loaders may get_or_insert into the slot being loaded, script token @T:id:n) is neither dropped nor replaced while its key stays, outside reload passes (dropped-while-reachable / entry-replaced / handle-unstable). Every 6th case: values of 12 bytes/align 4, 13 bytes/align 1, 1 byte, zero-sized, align 64 and heap-owning are rewritten 3-40 times by reloads and read back; every 6th case: the full (stored type x requested type) matrix through downcast_ref / is / read().downcast. conc: racing creators (forced simultaneous misses): exactly one value survives per key, every loser is dropped once. non-trivial = every case; distinct = distinct transcripts',
 'assumptions': ['Drop of the tracked values is the only observer of destruction (leaks inside std are invisible)', 'RwLock gives mutual exclusion'],
 'trusted': COMMON_TRUSTED + MODEL_TRUSTED + ['partial: use-after-free that does not crash and memory-level effects of the lifetime-extending casts are outside the model; observed only through the drop ledger and the value self-checks']}

META = {'text': 'Proved for ALL histories (API operations, notifications, hot_reload, enhance, arbitrary environments between steps) and ALL loader programs '
         '(nested loads, load_owned, failures, panics, helper threads, no_record): the ownership ledger of the model (ghost state made / held / gone, '
         'updated exactly where the code creates, stores, swaps, drops or hands out a value) stays well-formed (LedgerOK: one entry per key, distinct entry '
         'addresses, holders = live entries, no value in two places or gone twice, only created values, none lost); hence every created value is in exactly '
         'one place (C13_one_place) and after the cache is dropped every value ever created has gone exactly once (C13_exactly_once). Type erasure: a view '
         'at type R of an entry stored at type S succeeds iff S = R (extracted facts: stored TypeId is that of the value, is::<T> compares it, both '
         'reinterpreting casts are under `if self.is::<T>()`, exactly two such cast sites, write asserts equal types); skeleton of UntypedEntry::write '
         '(swap inside the write-lock scope, old value dropped by the caller after the lock). The model ledger counts are compared with the real drop '
         'ledger after every operation of every explored history.',
 'design_ref': 'DESIGN.md §D C13',
 'note': 'Partial: memory-level behaviour (use-after-free that does not crash, allocator, the lifetime-extending casts) is outside any model; races of '
         'creators are single atomic steps in the model (lost insertion branch) and explored by the conc engine. Tie: regenerated cast-site facts and write '
         'skeleton + own engine (model ledger = real ledger after every op, independent exactly-once oracle; sizes/alignments under reload; type matrix).',
 'technique': 'Lean 4 proof (ledger invariant by induction over loader programs and histories) + extracted cast-site facts + differential ledger correspondence'}
