"""Configuration of the check for C16 (loaded by checklib/props.py; COMMON_TRUSTED / MODEL_TRUSTED are in scope)."""

PROP = {'modules': ['AmVerif.Props.C16'],
 'engines': [{'name': 'bytes', 'quick': 240, 'thorough': 6000},
             {'name': 'src', 'tag': 'src-loaded-bytes', 'first': 201, 'quick': 2, 'thorough': 120, 'classes': ['short-read-zero-filled', 'truncated-member-read-as-prefix']},
             {'name': 'cell', 'tag': 'cell-drops', 'first': 3, 'quick': 6, 'thorough': 200, 'classes': ['drop-ledger']}],
 'rule': 'case 0: every construction path (From<&[u8]>, from_slice, From<Vec>, from_vec, Box, Cow borrowed/owned, FromIterator with exact and '
         'unknown size hint, BytesLoader borrowed/owned) x lengths {0,1,7,8,9,33} x capacity {0 / exact, len+1, len+24}; case 1: every order of '
         'dropping three handles living on three threads for 4 paths x 2 capacities; case 2: all 256 single bytes, lead x continuation boundary '
         'pairs / triples / quadruples and a table of 34 valid / overlong / surrogate / >U+10FFFF / truncated fragments through from_utf8, '
         'StringLoader and the four serde visit_* paths, string comparisons, serde of SharedBytes; later cases cycle: 4 of 6 random forced schedules '
         '(clone / clone via From<&SharedBytes> / deref / move / drop / cmp / hash over 1-3 buffers of length 0..8192 (64 KiB, one 1 MiB per 97 '
         'cases in thorough), every op executed on the named one of 6 worker threads, ~8% ops on dead or unknown handles), 1 of 6 free-running '
         'stress (2-8 threads, search only, outcome compared with the schedule-independent model outcome), 1 of 6 random strings. A case is '
         'non-trivial when it builds at least one buffer or string; distinct = distinct op/result transcripts',
 'assumptions': ['64-bit target: usize / AtomicUsize / *const u8 are 8 bytes, 8-aligned; isize::MAX = 2^63-1',
                 "a handle is used only by code that owns it or holds a reference to it (Rust's ownership discipline; no unsafe duplication of a "
                 'SharedBytes), and from_utf8_unchecked callers respect its contract',
                 'the reference count does not overflow usize',
                 'atomics are sequentially consistent per location; Release/Acquire on the count suffices to order the last use before the free '
                 '(textbook argument, not proved)'],
 'trusted': COMMON_TRUSTED + ['modelled, not verified: the weak memory model (C16_orderings_ok checks the extracted orderings against the textbook Release-decrement / '
 'Acquire-before-free requirement, it does not prove that requirement sufficient); std::sync::atomic RMWs as single sequentially-consistent steps; '
 'usize as unbounded Nat (no count overflow)',
 'modelled, not verified: core::alloc::Layout::{new, extend, from_size_align} for a 64-bit target (Model/BytesBase.lean), Vec<u8> allocation '
 'behaviour (no block when capacity is 0; from_raw_parts/drop frees Layout(capacity,1)), the system allocator; observed on every run through the '
 'accounting allocator of the harness',
 "UTF-8 validity is Lean core's ByteArray.IsValidUTF8 (= being List.utf8Encode of some List Char); Rust's core::str::from_utf8 is tied to it by "
 'correspondence only',
 'amx/src/bytes.rs translation of bytes.rs / string.rs into Gen/Bytes.lean (refuses unknown shapes)']}

META = {'text': 'Theorems over definitions regenerated from src/utils/bytes.rs and string.rs: every construction path derefs to its input (any length, any '
         'Vec capacity incl. 0); for every list of atomic steps of any number of threads (clone, deref, move, drop, the three steps of drop_slow) no '
         'use-after-free / double free / layout or capacity mismatch / underflow occurs, count = live handles, every deref through any handle yields '
         'the source, each block is freed exactly once and only after the last drop, nothing leaks and the last drop always completes; dealloc '
         'layout = alloc layout on both branches (inline layout of 0 = header layout); clone/drop are single RMWs with Release decrement and Acquire '
         'before the free; from_utf8 accepts exactly valid UTF-8 and keeps the bytes, valid_up_to is the longest valid prefix; unchecked '
         'SharedString literals are fed str/String bytes only; comparisons and hashes go through the slices.',
 'design_ref': 'DESIGN.md §6 C16',
 'note': 'Partial by design: the weak memory model and the allocator are modelled, not proved (orderings are checked against the textbook table). '
         "Tie: Gen/Bytes.lean regenerated each run (RMW kinds + orderings, 'was last' test, drop_slow branch / layouts, constructor layouts + header "
         'literals, From dispatch, SharedString literal sites, comparison delegation); engine bytes diffs every public path, forced schedules on '
         'real threads, strings and the serde visit_* paths against the model, with an accounting global allocator (layout on free, double free, '
         'leaks) and an oracle written from the statement.',
 'technique': 'Lean 4 proof over model regenerated from source + differential correspondence with allocator accounting'}
