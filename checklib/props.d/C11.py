"""Configuration of the check for C11 (loaded by checklib/props.py; COMMON_TRUSTED / MODEL_TRUSTED are in scope)."""

PROP = {'modules': ['AmVerif.Props.C11'],
 'engines': [{'name': 'dir', 'quick': 300, 'thorough': 3000}],
 'rule': 'cases 0-79: the 20 small trees of C04 x the four source kinds (archives with a member per directory / with as few as possible), 10 loads each over 5 '
         'extension lists; later cases: random trees as in C04 through one source kind each, 1/4 with one or two unreadable directories (read_dir '
         'fails with PermissionDenied), 6-16 ops drawn from load_dir / load_rec_dir (plain and Arc<T>) / iter / iter_cached after loading a random '
         'asset, over 7 asset types with extension lists [], [""], [x], [a,b], [a,b,c], [x,""], [b,a,x], on random directories, the root, missing '
         'ids and file ids; a case is non-trivial when at least one load ran; distinct = distinct op transcripts',
 'assumptions': ['read_dir is deterministic for the lifetime of the cache (Directory and RecursiveDirectory read the same listing)',
                 'the directory graph is finite and acyclic (recLoad is fuelled; the driver uses fuel 64)'],
 'trusted': COMMON_TRUSTED + ["modelled, not verified: sort_unstable + dedup as insertion into a strictly sorted list, the asset cache as 'load succeeds iff some extension can "
 "be read' (loader = identity on bytes), the source views of C04"]}

META = {'text': "For every source view: load_dir ids are strictly sorted (no duplicates) and are exactly the files listed in d with one of T's extensions; "
         'load_rec_dir ids are exactly those of d and of every directory below it reachable through readable directories; a missing directory is an '
         "error; a failing child hides nothing but its own subtree (own ids and every loadable sibling's ids stay); iter = ids.map load, iter_cached "
         '= the cached ids in order. Unbounded in listing sizes, depth and extension lists.',
 'design_ref': 'DESIGN.md §6 C11',
 'note': 'Trusted: Lean kernel; sort+dedup, cache and source views modelled. Tie: the dir engine runs load_dir / load_rec_dir / iter / iter_cached '
         '(and Arc<T>) through AssetCache over the real FileSystem, Zip, Tar, Embedded and a wrapper with unreadable directories, diffs against the '
         'model and checks the generated tree as oracle. The two defects shared with C04 (F-C04 archive-implicit-dir-missing, '
         'archive-empty-root-missing) are repaired; their witnesses stay in corpus/ and pass.',
 'technique': 'Lean 4 proof over executable model + differential correspondence'}
