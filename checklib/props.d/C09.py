"""Configuration of the check for C09 (loaded by checklib/props.py; COMMON_TRUSTED / MODEL_TRUSTED are in scope)."""

PROP = {'modules': ['AmVerif.Props.C09', 'AmVerif.Lemmas.Fault'],
 'engines': [{'name': 'fault', 'quick': 120, 'thorough': 3000},
             {'name': 'hr', 'tag': 'hr-recovery', 'first': 7, 'quick': 1, 'thorough': 200, 'shrink': False, 'classes': ['stale-after-hot-reload', 'sync-timeout']},
             {'name': 'src', 'tag': 'src-truncated', 'first': 201, 'quick': 2, 'thorough': 120, 'classes': ['truncated-member-read-as-prefix', 'short-read-zero-filled']}],
 'rule': 'one case = one scenario: a source with a script DAG, setup loads and ONE probed operation; the scenario is first run without fault to count the '
         'source reads and loader checkpoints of the probed operation, then for EVERY read index (NotFound, PermissionDenied, InvalidData, Interrupted, '
         'Other) and EVERY loader checkpoint (error, panic) the world is rebuilt from scratch (`reset`), the setup replayed, the single fault injected, '
         'the operation run, the fault plan cleared and the operation retried (reloads: the notification is sent again); all lines are executed by '
         'the model driver too and diffed. Families by case index: 40% reload (edit + notify + hot_reload over a dependency CHAIN of 1-4 assets with '
         'side assets, nested fresh loads, rewiring, failing / panicking edited scripts, M20 leaf), 30% load (the cache engine\'s random source with '
         'every token kind incl. helper threads, no_record, catch_unwind, directories, multi-extension assets with defaults; load / load_owned on '
         'all front-ends with and without reloader), 10% small (seeded slice of the enumeration 7 link kinds x 7 inner assets on a two-level world), '
         '20% recording (a panic of an inner no_record load contained by the outer loader, scripted or injected, or a panic reaching the caller, '
         'then edits of what was read afterwards) incl. a malformed stream (1/40). Oracle from the statement: result is err / panic / tolerated ok, a '
         'fault in the probed asset\'s own loader is always reported, every entry cached before keeps value, handle and reload id (reloads: same '
         'handle, rewritten at most once and only with a reload-id bump, the asset whose own reload was hit keeps value and id), nothing appears '
         'under the probed key unless the call succeeded, hot_reload answers (a dead reloader thread is detected at once through /proc/self/task, a silent one after 8 s), the retry gives the fault-free outcome. non-trivial = at '
         'least one world with an injected fault (or a recording probe); distinct = distinct transcripts',
 'assumptions': ['loaders are deterministic functions of what they read and of the cache look-ups they make',
                 'a fault is a single io::Error returned by Source::read / read_dir, or a loader returning Err / panicking at its start (script assets pass one checkpoint per invocation); '
                 'panics inside Source implementations, allocation failure and aborts are out of scope',
                 'reload passes whose order is not determined by the dependencies (independent assets reloaded in hash-set order) are not generated: '
                 '"read index k" would not name the same read in the implementation and in the model',
                 'the recovery part of the oracle is not owed when a loader legitimately tolerated the fault and cached a degraded fresh entry (counted in the statistics)'],
 'trusted': COMMON_TRUSTED + MODEL_TRUSTED + ['modelled, not verified: unwinding as the outcome `panicked` that skips continuations and runs the pops of `withFrame` / `onFreshThread` (the drop guards); '
 'catch_unwind as `Prog.tryCatch` / the regenerated flag reloadCatchesPanic; std / parking_lot lock poisoning is not modelled (the crate\'s locks are taken '
 'only around map operations and `write`, never around a loader); the reloader thread as the function hotReload / handleEvents (its scheduling is C08)',
 'amx: reloadCatchesPanic / reloadSkipsStatic / failedReloadKeepsNewDeps are recognised textually in reload_untyped; the skeletons of record, no_record, '
 'CellGuard, add_asset, reload_untyped are regenerated and compared by `rfl`',
 'harness: WorldExec::reload_bounded runs hot_reload() on a helper thread and answers sync-timeout when the reloader thread has exited or after 8 s of silence (a stuck caller is leaked, not joined)']}

META = {'text': 'Theorems over the loader language (every Prog, so every user loader), every environment (the source is a function of the running read index '
         'and the loader fault plan a function of the running checkpoint index: every fault plan is an Env), every fuel and every state: entries cached '
         'before any evaluation are unchanged after it for every outcome (ok / err / panicked / diverged); the recording stack keeps its tail and depth, an '
         'idle thread stays idle, every frame pushed by record / no_record / a helper thread is popped exactly also on panic, and the regenerated '
         'skeletons say the restore is a drop guard installed before the closure runs; a load that does not return ok leaves for every key exactly what '
         'the loader body left (insert comes after `?`); load_owned caches nothing; a reload whose loader fails, panics or diverges changes no cached '
         'entry (write only in the Ok arm after catch_unwind), other keys are never touched by a reload; with reloadCatchesPanic = true (regenerated) a '
         'panicking reload returns None, run_update continues with the remaining keys and hot_reload leaves the thread alive for loaders that return, '
         'fail or panic; under an environment without fault plan an evaluation depends on the state only through map, address counter and recording '
         '(bisimulation over all Prog constructors), so the retry of a failed load is a first load from the map the failure left.',
 'design_ref': 'DESIGN.md §6 C09',
 'note': 'Trusted: Lean kernel; amx (flags + skeletons of records.rs / add_asset / reload_untyped); eval / reloadUntyped as transcriptions of anycache.rs, '
         'asset.rs, records.rs. Unwinding and catch_unwind are modelled. Tie: Gen regenerated each run; engine fault injects every single fault at '
         'every read / loader invocation of initial loads (caller thread, helper thread) and of reload passes (reloader thread) on the real crate, '
         'diffs every line against the model and evaluates an oracle written from the statement, with a bounded wait for hot_reload.',
 'technique': 'Lean 4 proof over executable model (all loaders, all fault plans) + skeleton facts + exhaustive single-fault injection with differential correspondence'}
