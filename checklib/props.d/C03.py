"""Configuration of the check for C03 (loaded by checklib/props.py; COMMON_TRUSTED / MODEL_TRUSTED are in scope)."""

PROP = {'modules': ['AmVerif.Props.C03'],
 'engines': [{'name': 'load', 'quick': 45, 'thorough': 1500},
             {'name': 'src', 'tag': 'src-small', 'first': 30, 'quick': 2, 'thorough': 170, 'classes': ['source-view-mismatch', 'listed-entry-unreadable']},
             {'name': 'src', 'tag': 'src-truncated', 'first': 201, 'quick': 12, 'thorough': 400, 'classes': ['truncated-member-read-as-prefix', 'source-view-mismatch', 'listed-entry-unreadable', 'short-read-zero-filled']}],
 'rule': 'cases 0-11 enumerate, for each of the 12 asset types M<e,d> (6 extension lists incl. [] and [""], default_value present or not), EVERY '
         'assignment of {absent, unreadable(kind), undecodable, ok} to the declared extensions, each followed by contains / get_cached / repair / '
         'retry; later cases: random blocks with odd ids (root, nested, unicode, spaces), compounds nested 1-4 deep over failing assets (error '
         'wrapping), source-read faults at each read index; contents delivered as Buffer / Owned / Slice; non-trivial = at least one load executed; '
         'distinct = distinct op/result transcripts',
 'assumptions': ['loaders are deterministic functions of the bytes and extension they are handed'],
 'trusted': COMMON_TRUSTED + MODEL_TRUSTED + ['not modelled: FileContent::with_cow (three variants hand over the same bytes) — exercised by the correspondence only']}

META = {'text': 'Theorems over the regenerated ErrorKind::or table and load_from_source loop: closed table, class precedence conv > io > not-found > '
         'no-default as rank(or a b) = max, or never invents an error, first readable+decodable extension wins for every extension list and every '
         'status of the others, the value is decode(stored bytes, that extension), default_value is handed the fold of all errors (class = highest, '
         'one of the actual errors), empty list hands NoDefaultValue; at cache level: a failed Compound::load is Error{own id, reason}, and a failed '
         'load of any loader without nested loads (every plain Asset, proved for load_from_source) leaves the cache exactly unchanged.',
 'design_ref': 'DESIGN.md §6 C03',
 'note': 'Trusted: Lean kernel; amx translation of ErrorKind::or (pattern arms → first-match function) and of load_from_source (shape-checked '
         'template in CPS); the World model eval as transcription of anycache.rs/asset.rs/key.rs. Tie: Gen/Tables.lean regenerated each run + `load` '
         'engine (exhaustive status space per asset type + random) diffed against the model + independent oracle from the status vector.',
 'technique': 'Lean 4 proof over definitions regenerated from source + differential correspondence'}
