"""Configuration of the check for C15 (loaded by checklib/props.py; COMMON_TRUSTED / MODEL_TRUSTED are in scope)."""

PROP = {'modules': ['AmVerif.Props.C15'],
 'engines': [{'name': 'idle', 'quick': 20, 'thorough': 60},
             {'name': 'hr', 'tag': 'hr-quiet', 'first': 2, 'quick': 1, 'thorough': 100, 'shrink': False, 'classes': ['rewritten-without-notification', 'sync-timeout']}],
 'rule': 'idle.run executes in a CHILD process: create 1-4 [thorough 8] caches over an in-memory source that keeps its EventSender / drops it at once / never stores it / drops it after use, or over '
         'FileSystem on a temp dir (real watcher), load, hot_reload, measure every assets_hot_reload thread while idle, drop the caches (idle / '
         'right after hot_reload / with 24 events just queued / with 24 loads just done), wait <= 400 ms, measure again. Measurement = scheduler '
         'state of /proc/self/task/<tid>/stat sampled 30x over 300 ms + utime+stime ticks: exited | asleep (all S, <= 1 tick) | spinning (>= 80% '
         'R); mixed readings re-measured over 3x / 9x longer windows. cases 0-11: mem-keep, mem-nosender, fs x every moment with one cache; cases 13-14: LIVE caches whose source never stored / later dropped the sender (must not spin while alive); case 12: '
         'Select::ready primitive conformance over all 16 input combinations; then random 70% idle.run, 20% idle.prim, 10% malformed. '
         'non-trivial = a child or the primitive was run; distinct = distinct (op, result) transcripts',
 'assumptions': ['crossbeam Select::ready: blocks while no operation is ready; an operation is ready when its channel holds a message or is disconnected; any ready operation may be returned (checked by idle.prim on the real primitive)',
                 'a thread blocked in Select::ready consumes no CPU; a thread that returned from its closure is removed from /proc/self/task (runtime)',
                 'the cache is the only sender of cache_msg (HotReloader is owned by the cache)'],
 'trusted': COMMON_TRUSTED + ['modelled, not verified: crossbeam channel + Select; OS scheduler, CPU accounting and thread teardown (observed through /proc, not proved)',
 'amx skeleton fact: genCfg.leavesOnDisconnect is computed in Lean from the regenerated skeleton of hot_reloading_thread (a labelled break out of '
 'the drain loop is emitted as break_outer)']}

META = {'text': 'Model of one iteration of hot_reloading_thread (blocked / continue / exit) from the regenerated skeleton, parametric in whether the drain '
         'loop leaves the thread on a disconnected cache channel and whether the events arm leaves it on a disconnected event channel (a live cache whose source released its sender must not keep a spinning thread: C15_quiet_without_sender, refuted for an events arm that ignores Disconnected). Proved for all states and all picks of Select::ready: idle (both channels '
         'connected and empty) blocks and the thread blocks only then; with the repaired fact the iteration after the drop exits for every queue '
         'content and every source kind, hence no thread survives any number of create/drop rounds; refutation for the defective fact: with an '
         'event sender alive every iteration continues for ever (spins), threads accumulate. C15_cfg_leavesOnDisconnect requires the repaired '
         "fact of today's source.",
 'design_ref': 'DESIGN.md section 6 C15',
 'note': 'Partial: CPU accounting and thread teardown are runtime; the model only yields blocked/continue/exit. Tie: skeleton equalities + genCfg '
         'regenerated each run; engine idle measures real reloader threads through /proc in child processes and diffs the verdict with the model; '
         'Select::ready semantics checked on the real primitive.',
 'technique': 'Lean 4 proof over loop model + skeleton-derived configuration + /proc observation of real threads'}
