"""Configuration of the check for C04 (loaded by checklib/props.py; COMMON_TRUSTED / MODEL_TRUSTED are in scope)."""

PROP = {'modules': ['AmVerif.Props.C04'],
 'engines': [{'name': 'src', 'quick': 360, 'thorough': 4000}],
 'rule': 'cases 0-199 are the bounded-exhaustive slice: the 20 closed subsets of {a.x, a, d/, d/b.x, d/e/} (empty tree included) x {FileSystem, '
         'Embedded, (Zip, Tar) x (every directory has a member, none has) x (directories before / after their content)}, each probed on every node '
         'plus a fixed list of absent / wrong-kind ids; later cases: random trees (depth <= 4, unicode / spaces / empty extension / one stem with '
         'several extensions / file and directory sharing an id / 200-byte names) through one source kind each (rotating), archive members in sorted '
         '/ reversed / files-first / shuffled order, all / none / some directory members, optional ./ prefix, stored or deflated, in memory or file '
         'backed, GNU long names, 1/8 with malformed members (.., absolute, dotted directory, duplicates, hidden, trailing dot); probes: read / '
         'read_dir / exists of every node, absent ids (wrong extension, directory as file, file as directory, below a file, empty components), '
         're-read of every listed entry, 1/6 with 4 (thorough 8) concurrent readers; a case is non-trivial when at least one probe ran; distinct = '
         'distinct op transcripts',
 'assumptions': ["tree names are valid: non-empty, no '.', no '/', no NUL; extensions contain no '.'; an extension-less file and a directory do not "
                 'share a name',
                 'probe ids for the oracle are well formed (no empty component); ids with empty components are compared against the model only',
                 'no sibling <root>.<ext> of the FileSystem root exists (read("", ext) leaves the root)'],
 'trusted': COMMON_TRUSTED + ['modelled, not verified: HashMap as a partial function, Vec as a list, Path::components / file_stem / extension (std) as splitSlash / splitExt, the '
 'zip and tar container decoders (the model starts at the member list: path, kind, bytes), the OS file system as a map from paths to file / '
 'directory nodes with ENOTDIR when a path goes through a file, IdBuilder as idPush / idPop',
 "the embed! macro's directory walk is modelled by its output tables only (RawEmbedded is built from the tree at run time by the harness)"]}

META = {'text': "Theorems over the executable source models the driver runs: archive index = fold of an interpreter of register_file's effect skeleton "
         '(skeletons of zip.rs and tar.rs extracted each run, proved equal to each other and to the interpreted one); for every valid tree and every '
         "archive of it (any member order, optional ./) with a member per directory and a non-empty tree the archive view equals the tree's "
         'specification view (read, read_dir up to order, exists) and is independent of member order; the full-strength statement is kept and '
         "refuted by kernel-checked witnesses (F-C04: d/e/f.x without directory members; the empty archive); Embedded::from over the macro's tables "
         'equals the specification; FileSystem view equals it except for kind confusion (refuted + partial); every listed entry is readable; reads '
         'do not change the index. Unbounded in tree size, depth, contents and member order.',
 'design_ref': 'DESIGN.md §6 C04',
 'note': 'Trusted: Lean kernel; amx skeleton extraction; HashMap/Path/zip/tar/OS modelled. Tie: Gen/Archive.lean regenerated each run (skeleton '
         'equality by decide; the driver indexes with the extracted skeletons) and the src engine diffs read/read_dir/exists of the real FileSystem, '
         'Zip, Tar, Embedded built from generated trees against the model, with the generated tree as independent oracle. Known failing classes on '
         'the current tree: archive-implicit-dir-missing (F-C04), archive-empty-root-missing, fs-kind-confusion.',
 'technique': 'Lean 4 proof over executable model + skeleton extraction + differential correspondence'}
