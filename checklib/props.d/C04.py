"""Configuration of the check for C04 (loaded by checklib/props.py; COMMON_TRUSTED / MODEL_TRUSTED are in scope)."""

PROP = {'modules': ['AmVerif.Props.C04'],
 'engines': [{'name': 'src', 'quick': 360, 'thorough': 4000}],
 'rule': 'cases 0-199 are the bounded-exhaustive slice: the 20 closed subsets of {a.x, a, d/, d/b.x, d/e/} (empty tree included) x {FileSystem, '
         'Embedded, (Zip, Tar) x (every directory has a member, only the directories no other member lies in or below) x (directories before / '
         'after their content)}, each probed on every node plus a fixed list of absent / wrong-kind ids; later cases: random trees (depth <= 4, '
         'unicode / spaces / empty extension / one stem with several extensions / file and directory sharing an id / 200-byte names) through one '
         'source kind each (rotating), archive members in sorted / reversed / files-first / shuffled order, all / as few as possible / some '
         'directory members, optional ./ prefix, stored or deflated, in memory or file backed, GNU long names, 1/8 with malformed members (.., '
         'absolute, dotted directory, duplicates, hidden, trailing dot); probes: read / read_dir / exists of every node, absent ids (wrong '
         'extension, directory as file, file as directory, below a file, empty components), re-read of every listed entry, 1/6 with 4 (thorough 8) '
         'concurrent readers; a case is non-trivial when at least one probe ran; distinct = distinct op transcripts',
 'assumptions': ["tree names are valid: non-empty, no '.', no '/', no NUL; extensions contain no '.'; an extension-less file and a directory do not "
                 'share a name',
                 'an archive of a tree contains the tree: a directory without a member of its own is on the path of some member (a file in or below '
                 'it, or the member of a directory below it) — an empty directory nothing mentions is not in the archive',
                 'probe ids for the oracle and for C04_fs are well formed (no empty component); ids with empty components are compared against the '
                 'model only (path_of_entry drops empty components: "d..b" is "d.b" for FileSystem)',
                 'no sibling <root>.<ext> of the FileSystem root exists (read("", ext) leaves the root)'],
 'trusted': COMMON_TRUSTED + ['modelled, not verified: HashMap as a partial function / association list, Vec as a list, Path::components / file_stem / extension (std) as '
 'splitSlash / splitExt, the zip and tar container decoders (the model starts at the member list: path, kind, bytes), the OS file system as a map '
 'from paths to file / directory nodes (is_file / is_dir / fs::read / fs::read_dir answer from it; going through a file is ENOTDIR), IdBuilder as '
 'idPush / idPop, DirEntry::parent_id as idPop',
 "the embed! macro's directory walk is modelled by its output tables only (RawEmbedded is built from the tree at run time by the harness)"]}

META = {'text': "Theorems over the executable source models the driver runs: archive index = root registration + fold of an interpreter of the effect "
         'skeletons of register_file and register_dir (extracted from zip.rs and tar.rs each run, proved equal to each other and to the interpreted '
         'ones, together with the root registration in create); FULL STRENGTH: for every valid tree and every archive of it (any member order, '
         'optional ./, directories with or without a member of their own, the empty archive included) the archive view equals the tree\'s '
         'specification view (read, read_dir up to order, exists) — C04_archive, by an invariant of the dirs map maintained by register_dir (each '
         'directory registered with all its ancestors and listed exactly once in its parent); member order and redundant directory members are '
         "irrelevant; Embedded::from over the macro's tables equals the specification; FULL STRENGTH on well-formed ids: the FileSystem view equals "
         'it (read, read_dir with the same listing, exists of both kinds, NotFound for everything absent or of the wrong kind) — C04_fs, with the '
         'kind tests of exists / read / read_dir extracted from filesystem.rs; all four sources agree (C04_sources_agree); every listed entry is '
         'readable; reads do not change the index. Unbounded in tree size, depth, contents and member order.',
 'design_ref': 'DESIGN.md §6 C04',
 'note': 'Trusted: Lean kernel; amx skeleton extraction; HashMap/Path/zip/tar/OS modelled. Tie: Gen/Archive.lean regenerated each run (skeleton '
         'and kind-test equalities by decide; the driver indexes with the extracted skeletons and answers with the extracted kind tests) and the '
         'src engine diffs read/read_dir/exists of the real FileSystem, Zip, Tar, Embedded built from generated trees against the model, with the '
         'generated tree as independent oracle. The three defects the check reproduced on the unrepaired tree (archive-implicit-dir-missing = '
         'F-C04, archive-empty-root-missing, fs-kind-confusion) are repaired (known_findings.json: fixed); their witnesses stay in corpus/C04 and '
         'pass, and reverting any of the repairs breaks C04_register_skeleton / C04_fs_kind_tests and the oracle again.',
 'technique': 'Lean 4 proof over executable model + skeleton extraction + differential correspondence'}
