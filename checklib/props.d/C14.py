"""Configuration of the check for C14 (loaded by checklib/props.py; COMMON_TRUSTED / MODEL_TRUSTED are in scope)."""

PROP = {'modules': ['AmVerif.Props.C14', 'AmVerif.Lemmas.Order'],
 'engines': [{'name': 'hr', 'quick': 160, 'thorough': 4000, 'shrink': False,
              'classes': ['wrong-attribution', 'sync-timeout']}],
 'rule': 'hr engine (see C05); the attribution family (every 8th case) builds an asset `a` with one look-up of each kind (+ load, = load ignoring errors, ? get_cached, ! load_owned, ~ load inside no_record, & load on a helper thread, ^ catch_unwind(no_record(load)), r raw read) on distinct leaves, then edits and notifies EVERY file of the tree one at a time and observes which reload ids moved; the oracle computes from the token kinds whether `a` must reload; the other families (nested DAGs to depth 6, N0 = not-reloaded types, directories) are compared entry by entry with the model, which records per frame',
 'assumptions': ['one cache per case (reads through a second cache are covered by the extracted reloader-identity guard only)'],
 'trusted': COMMON_TRUSTED + MODEL_TRUSTED + ['modelled: the thread-local RECORDING cell and the CellGuard drop guards as an explicit frame stack (withFrame); a helper thread as an empty stack']}

META = {'text': 'Theorems over the frame-stack model of records.rs for every loader program: a read touches the top frame only and only if it records; no_record, a nested load of a reloadable asset (on success and on panic) and a helper thread leave the enclosing frames EXACTLY as they were (so nothing they read is attributed to the outer asset) and recording resumes afterwards whatever the outcome (return, error, panic, fuel exhaustion: eval_shape by induction over all Prog constructors); the dependency set registered for a nested asset is exactly its own frame; a failed nested load hands its reads to the enclosing record; a type that is not reloaded runs under the enclosing frame; Record::insert_* are guarded by the reloader identity (extracted).',
 'design_ref': 'DESIGN.md §6 C14',
 'note': 'Trusted: Lean kernel; amx conditions (recordsAsset, recordsRead, failedLoadRecordsToParent, recordChecksReloaderIdentity); eval as transcription. Reads through a second cache are exercised by the `hr.cross` probe (a compound over two hot caches; oracle from the statement) and the identity guard is extracted. Tie: hr engine attribution probes with an oracle computed from token kinds + model diff.',
 'technique': 'Lean 4 proof (frame-stack invariants by induction over loader programs) + differential correspondence'}
