"""Configuration of the check for C01 (loaded by checklib/props.py; COMMON_TRUSTED / MODEL_TRUSTED are in scope)."""

PROP = {'modules': ['AmVerif.Props.C01'],
 'engines': [{'name': 'conc', 'quick': 12, 'thorough': 120},
             {'name': 'conc', 'tag': 'conc-3cpus', 'quick': 4, 'thorough': 40, 'cpus': 3},
             {'name': 'cache', 'quick': 60, 'thorough': 2000}],
 'rule': 'conc: free-running real threads (search only): `race` = 2-8 threads load / get_or_insert the same absent key, the loader waits until all '
         'racers are inside it (forced simultaneous misses), 60-300 rounds per case, every 16 rounds 2000 unrelated insertions then every earlier '
         'handle re-read; `probe` = 2-4 readers look up 32 stable entries (directly and through AnyCache) while 2-4 writers insert 30k-200k '
         'unrelated entries; also under taskset with 3 CPUs (other shard count). cache: sequential op sequences with handle identity (h<n> = n-th '
         'distinct entry) diffed against the model; the handles LOADERS are given (load / get_cached / get_or_insert from inside Compound::load, script token @T:id:n, '
         'also into the very slot being loaded: parent fills its own slot, child loads the parent back) are logged and must be the same entry as every later handle for the key (handle-unstable / entry-replaced). non-trivial = every case; distinct = distinct (parameters, outcome)',
 'assumptions': ['each of AssetMap::{get,insert,contains_key} is one atomic step (skeleton theorems: whole body inside one lock scope)',
                 'Box<CacheEntry> keeps its address when the HashMap grows'],
 'trusted': COMMON_TRUSTED + MODEL_TRUSTED + ['modelled, not verified: RwLock / RefCell give mutual exclusion for the extent of their guards; the lifetime-extending cast in '
 'AssetMap::{get,insert} is sound given C01_no_dangling (Box address stable, no removal through &self)']}

META = {'text': 'Skeleton theorems (regenerated effect order of AssetMap::{get,insert,contains_key} of both maps, load_entry, add_asset, '
         'get_cached_entry_inner, _get_or_insert, add_any: each map op is one lock scope, insert is entry().or_insert() under one write lock) reduce '
         'every interleaving of any number of threads to a sequence of atomic get/insert/contains steps; over ALL such sequences on the abstract map '
         '(to which the sharded map refines for every seed and shard count): presence and the stored cell never change once set, all handles '
         'reported for a key are equal, the first publish wins and every racer gets the winner, every reported handle is still stored at the end of '
         'the phase; phases between removals.',
 'design_ref': 'DESIGN.md §6 C01',
 'note': 'Partial: Box address stability and soundness of the lifetime extension are assumed (addr is a field of the model cell); lock '
         'implementations assumed. Tie: Gen/Skel.lean regenerated each run (lock-scope or or_insert changes break the rfl equalities) + free-running '
         'racing threads with forced simultaneous misses and unrelated growth + sequential handle-identity correspondence.',
 'technique': 'Lean 4 proof over all op sequences + skeleton extraction + differential/stress correspondence'}
