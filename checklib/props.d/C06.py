"""Configuration of the check for C06 (loaded by checklib/props.py; COMMON_TRUSTED / MODEL_TRUSTED are in scope)."""

PROP = {'modules': ['AmVerif.Props.C06'],
 'engines': [{'name': 'hr', 'quick': 160, 'thorough': 4000, 'shrink': False,
              'classes': ['reload-id-decreased', 'reloaded-twice-in-a-pass', 'rewrite-not-reported', 'rewritten-without-notification', 'watcher-wrong', 'reloaded-global-wrong', 'wrong-attribution', 'sync-timeout']},
             {'name': 'iso', 'quick': 12, 'thorough': 100, 'classes': ['guard-rid-changed', 'returned-before-update', 'guard-value-changed', 'reported-more-than-once']}],
 'rule': 'hot-reloading histories over the in-memory source, 8 families by case index (the same generator as C05); family `precision` (every 8th case): '
         'random script DAG over 8 ids, 4 loaded, two ReloadWatchers per asset on 3 assets, then 4-9 rounds of: hot_reload with nothing notified / an edit '
         'that is never notified / notifications for unknown entries only / a notified edit (single, or batched with a duplicate and noise), each followed '
         'by a dump of (value, reload id) of EVERY cached entry and random polls of the watchers and of reloaded_global; the attribution, convergence and '
         'static-mode families are dumped the same way. Every op line (including every poll result and reload id) is diffed against the model. Oracle '
         '(from the statement): between two dumps a reload id never decreases, grows by at most one per pass, a changed value has a changed id, no id grows '
         'when nothing / only unknown entries were notified; a watcher / reloaded_global answers true iff the id grew since it was last asked. '
         'non-trivial = at least one cache op; distinct = distinct transcripts',
 'assumptions': ['loaders are deterministic functions of what they read',
                 'notified = EventSender::send returned before hot_reload was called',
                 'the reload counter never wraps (2^64 reloads)',
                 'hypothesis `hnd` of C06_at_most_once*: the list returned by `topo` has no duplicates (graph theorem of the C05 module; to be discharged by the integrator)'],
 'trusted': COMMON_TRUSTED + MODEL_TRUSTED + ['modelled, not verified: HashMap / HashSet iteration order (any order), crossbeam channels as FIFO queues, the reloader thread as the atomic functions `hotReload` / `handleEvents` (its scheduling is C08); usize as unbounded Nat',
                                               'C06_read_after_report is NOT proved here: only its premise on the code (skeleton of UntypedEntry::write: increment inside the write-lock scope, after the swap) is an obligation; the interleaving theorem belongs to C07']}

META = {'text': 'For ALL environments, fuels, cache / reloader states: a reload_untyped that reports a reload wrote exactly its own key\'s dynamic cell '
         '(value of a successful evaluation, id = old + 1 by the regenerated AtomicReloadId::increment, flag set) and otherwise leaves every existing cell '
         'alone (errors, panics, divergence, static entries never bump the id); through reloadAll / run_update / handle_events / hot_reload / enhance and '
         'through every history not removing the key, ids never decrease and a cell that differs in any way has a strictly larger id and its flag set '
         '(unchanged id = unchanged cell); with a Nodup update list (named hypothesis hnd) every id is at most old + 1 after a pass, counting cells added '
         'during the pass from NEVER; only listed keys are touched; hot_reload with an empty changed set changes no cell and performs no source read, '
         'and is the identity without pending messages; events for entries unknown to the graph equal no events; static cells keep NEVER and a clear '
         'flag in every history; ReloadWatcher (ReloadId::update) over any nondecreasing id sequence answers true exactly when the id grew since the last '
         'poll, reloaded_global exactly when a write happened since; skeleton obligation: UntypedEntry::write increments after the swap inside the '
         'write lock.',
 'design_ref': 'DESIGN.md §6 C06',
 'note': 'Partial: which keys enter the update list (reachability from notified entries, Nodup) is the graph half proved with C05 and enters here as the '
         'named hypothesis `hnd`; C06_read_after_report (interleaving of a polling reader with the reloader) is C07\'s theorem, only its code premise is '
         'checked here. Trusted: Lean kernel; amx translation of entry.rs (Gen/Rid.lean), of the decision flags and of the write skeleton; the World / '
         'Reload models, tied by the hr correspondence (reload ids, watcher and reloaded_global answers are compared on every poll).',
 'technique': 'Lean 4 proof over executable model (regenerated ReloadId functions and skeleton) + differential correspondence'}
