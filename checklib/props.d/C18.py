"""Configuration of the check for C18 (loaded by checklib/props.py; COMMON_TRUSTED / MODEL_TRUSTED are in scope)."""

PROP = {'modules': ['AmVerif.Props.C18'],
 'engines': [{'name': 'rid', 'quick': 60, 'thorough': 2000},
             {'name': 'hr', 'tag': 'hr-ids', 'first': 0, 'quick': 24, 'thorough': 400, 'shrink': False, 'classes': ['reload-id-decreased', 'reloaded-twice-in-a-pass', 'rewrite-not-reported', 'rewritten-without-notification', 'watcher-wrong', 'reloaded-global-wrong', 'wrong-attribution', 'sync-timeout']}],
 'rule': 'cases 0-2 enumerate all (stored, offered) pairs over 9 boundary values for ReloadId::update and every AtomicReloadId op, and all length-3 '
         'update sequences over 4 values; later cases alternate random op sequences and free-running concurrent update() calls from 2-6 threads '
         '(validated against the linearisation model); a case is non-trivial when it executes at least one op; distinct = distinct op/result '
         'transcripts',
 'assumptions': ['AtomicUsize::{load,store,swap,fetch_add,fetch_max} are indivisible and sequentially consistent per location',
                 'the reload counter never wraps (2^64 reloads)'],
 'trusted': COMMON_TRUSTED + ['modelled, not verified: usize as unbounded Nat (no wrap-around), std::sync::atomic primitives as single sequentially-consistent steps']}

META = {'text': 'Theorems over the definitions regenerated from src/entry.rs: update = (max, grew) for ReloadId and AtomicReloadId, NEVER least, every '
         'atomic method is a single RMW primitive, and for every linearisation (= every schedule of any number of threads) final = max offered, '
         'told-true iff grew, each growth reported exactly once and never lost. Unbounded in values, number of calls and threads.',
 'design_ref': 'DESIGN.md §6 C18',
 'note': 'Trusted: Lean kernel; amx translation of the method bodies; SC atomics; usize as Nat. Tie: Gen/Rid.lean is regenerated from the source '
         'each run and the rid engine diffs the public API (sequential bounded-exhaustive + random + free-running threads) against the model.',
 'technique': 'Lean 4 proof over model regenerated from source + differential correspondence'}
