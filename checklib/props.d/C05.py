"""Configuration of the check for C05 (loaded by checklib/props.py; COMMON_TRUSTED / MODEL_TRUSTED are in scope)."""

PROP = {'modules': ['AmVerif.Props.C05'],
 'engines': [{'name': 'hr', 'quick': 160, 'thorough': 4000, 'shrink': False,
              'classes': ['stale-after-hot-reload', 'event-before-hot-reload-missed', 'stale-asset-first-loaded-during-reload', 'stale-asset-newly-depending-on-changed-asset', 'sync-timeout']},
             {'name': 'iso', 'tag': 'iso-parking_lot', 'features': 'parking_lot', 'first': 5, 'quick': 1, 'thorough': 30,
              'classes': ['returned-before-update', 'stress-hung', 'event-never-taken']},
             {'name': 'conc', 'tag': 'conc-lookups', 'quick': 4, 'thorough': 40, 'classes': ['presence-flipped', 'racers-diverge', 'harness-panic']},
             {'name': 'watch', 'tag': 'watch-events', 'quick': 60, 'thorough': 600}],
 'rule': 'hot-reloading histories over the in-memory source, 8 families by case index: single-edit attribution probes, non-reloadable entries under load/remove/take/clear/get_or_insert, precision with watchers / unnotified edits / noise, event sent right before hot_reload (no barrier), convergence over random script DAGs (value edits, rewiring, break / repair, file and directory creation and deletion, single / batched / duplicated events) in local and static mode; after every quiescence barrier the value and reload id of every cached entry is dumped and every cached reloadable asset is compared with a fresh load_owned; non-trivial = at least one cache op; distinct = distinct transcripts',
 'assumptions': ['loaders are deterministic functions of what they read', 'notified = EventSender::send returned before hot_reload was called'],
 'trusted': COMMON_TRUSTED + MODEL_TRUSTED + ['modelled, not verified: HashMap / HashSet iteration order (any order), crossbeam channels as FIFO queues, the reloader thread as the function `hotReload` / `handleEvents` (its scheduling is C08)']}

META = {'text': 'Proved for ALL graphs, changed sets, environments, states. (1) Structure: the graph of the reloader keeps rdeps the exact inverse of deps through '
         'insert / add_deps / message draining / passes / every history (GraphOK); the list a pass reloads is exactly the registered assets reachable from the '
         'changed entries through reverse dependencies, each once, every asset after every affected entry it depends on (acyclic look-ups); the sort returns on '
         'every graph; an event is kept iff the graph tracks the entry; a failed reload keeps value and reload id and keeps + extends its dependencies; barrier '
         'skeleton regenerated from hot_reloading/mod.rs. (2) Semantics: read-set determinacy (a tracked hit-only re-evaluation depends only on what it records); '
         'C05_pass_converges_partial / C05_hot_reload_converges_partial: if everything was settled before the edits, the graph is exact and acyclic, the source '
         'changed only on notified entries, then after one run_update / hot_reload every registered cached dynamic asset holds exactly what re-evaluating its '
         'loader against the new source and current cache returns (or that re-evaluation fails and the entry kept its value), and the graph holds exactly its '
         'reads -- under three NAMED hypotheses on the reloads of that pass: NoMissInPass (excludes known finding F-C05d), NoRewireOntoPending (excludes known '
         'finding F-C05e), ReloadsReturn (no panic / divergence). The full statement without them is refuted on concrete witnesses '
         '(C05_full_statement_false_miss, C05_full_statement_false_rewire), which are the two known findings reproduced on the real code by dedicated probes. '
         '(3) Loading establishes and preserves Settled (Lemmas/Settle.lean): C05_load_settles_partial -- after one API load (whatever it returns, no fuel hypothesis) '
         'and after the reloader has taken its AddAsset messages, every registered cached dynamic asset, those the load cached on the way included, holds what '
         're-evaluating its loader returns and its node holds exactly what that re-evaluation reads -- under the NAMED hypotheses CleanLoad (on the path taken: plain '
         'constructors, recorded look-ups, no nested load failure absorbed by a loader that then succeeds, no get_cached probe of a key that is cached before the load '
         'returns) and NoProbedKeyFilled; C05_history_settled_partial: the same after every hot_reload of a history of load / get_or_insert / get_cached / contains / '
         'remove / take (of a key nothing registered depends on: NoDependentOn, necessary by C05_remove_breaks_settled) / hot_reload steps from the empty cache; C05_load_edit_reload_converges_partial: load, edit, notify, hot_reload => settled under the new source. (4) Static mode (Lemmas/StaticMode.lean): C05_static_events_converge_partial (one batch of events handled by the reloader on its own), C05_enhance_converges_partial (the switch applies what was pending), C05_static_history_partial (Settled after EVERY reloader step of a history of load / get_or_insert / remove / take / look-ups / notify / hot_reload / enhance, registrations of loads waiting in the channel included), C05_hot_reload_static_idle (hot_reload is a no-op in static mode); histories with `clear` and top-level `load_owned` (Lemmas/HistMore.lean: C05_history_with_clear_partial, C05_history_with_load_owned_partial, C05_last_registration_wins -- stale registrations and Clear messages anywhere in the channel are harmless); both known findings also arise in static mode (C05_static_statement_false_rewire / _miss). The '
         'unrestricted load statement is refuted on concrete witnesses (C05_load_settles_false_absorbed, C05_load_settles_false_probe, C05_load_preserves_false_fill).',
 'design_ref': 'DESIGN.md §D C05, §E',
 'note': 'partial: convergence is proved per pass (the conclusion re-establishes the hypotheses for the next pass except the rank function); that loads establish Settled '
         'is proved under CleanLoad / NoProbedKeyFilled only (nested load_owned is outside `Settled` by definition: C05_nested_load_owned_never_settled); loadOwned edges, unrecorded reads (no_record / helper threads), cold types and static-mode '
         'handle_events are outside the semantic theorem and decided by the correspondence + fresh-load oracle; HashSet iteration order is modelled as any order.',
 'technique': 'Lean 4 proof (read-set determinacy + topological induction over one update pass; graph invariants over all histories) + differential correspondence + fresh-load oracle'}
