"""Configuration of the check for C05 (loaded by checklib/props.py; COMMON_TRUSTED / MODEL_TRUSTED are in scope)."""

PROP = {'modules': ['AmVerif.Props.C05'],
 'engines': [{'name': 'hr', 'quick': 160, 'thorough': 4000, 'shrink': False,
              'classes': ['stale-after-hot-reload', 'event-before-hot-reload-missed', 'stale-asset-first-loaded-during-reload', 'stale-asset-newly-depending-on-changed-asset', 'sync-timeout']}],
 'rule': 'hot-reloading histories over the in-memory source, 8 families by case index: single-edit attribution probes, non-reloadable entries under load/remove/take/clear/get_or_insert, precision with watchers / unnotified edits / noise, event sent right before hot_reload (no barrier), convergence over random script DAGs (value edits, rewiring, break / repair, file and directory creation and deletion, single / batched / duplicated events) in local and static mode; after every quiescence barrier the value and reload id of every cached entry is dumped and every cached reloadable asset is compared with a fresh load_owned; non-trivial = at least one cache op; distinct = distinct transcripts',
 'assumptions': ['loaders are deterministic functions of what they read', 'notified = EventSender::send returned before hot_reload was called'],
 'trusted': COMMON_TRUSTED + MODEL_TRUSTED + ['modelled, not verified: HashMap / HashSet iteration order (any order), crossbeam channels as FIFO queues, the reloader thread as the function `hotReload` / `handleEvents` (its scheduling is C08)']}

META = {'text': 'Proved for ALL graphs, changed sets, environments, states: the graph of the reloader keeps rdeps the exact inverse of deps through '
         'insert / add_deps / message draining (GraphOK); the list a pass reloads is exactly the registered assets reachable from the changed entries '
         'through reverse dependencies, each once, every asset after every affected entry it depends on (acyclic look-ups), and the sort returns on '
         'every graph (cycles included); an event is kept iff the graph tracks the entry; a failed reload keeps value and reload id and keeps + extends '
         'its dependencies; events sent before the request are taken before the update (barrier skeleton regenerated from hot_reloading/mod.rs). '
         'The semantic statement (cached value = fresh load after hot_reload) is decided by the correspondence with the executable model plus the '
         'fresh-load oracle after every quiescence barrier; it is FALSE of the code in two order-dependent situations recorded as known findings '
         '(F-C05d asset first loaded during a pass, F-C05e asset rewired onto an asset changed in the same pass), each with a dedicated reproducer.',
 'design_ref': 'DESIGN.md §D C05, §E',
 'note': 'partial: semantic convergence over histories is not a theorem (the full statement is false, see the two known findings); the structural '
         'theorems above are unbounded; HashSet iteration order is modelled as any order.',
 'technique': 'Lean 4 proof over executable model + differential correspondence'}
