"""Configuration of the check for C05 (loaded by checklib/props.py; COMMON_TRUSTED / MODEL_TRUSTED are in scope)."""

PROP = {'modules': ['AmVerif.Props.C05'],
 'engines': [{'name': 'hr', 'quick': 160, 'thorough': 4000, 'shrink': False,
              'classes': ['stale-after-hot-reload', 'event-before-hot-reload-missed', 'stale-asset-first-loaded-during-reload', 'sync-timeout']}],
 'rule': 'hot-reloading histories over the in-memory source, 8 families by case index: single-edit attribution probes, non-reloadable entries under load/remove/take/clear/get_or_insert, precision with watchers / unnotified edits / noise, event sent right before hot_reload (no barrier), convergence over random script DAGs (value edits, rewiring, break / repair, file and directory creation and deletion, single / batched / duplicated events) in local and static mode; after every quiescence barrier the value and reload id of every cached entry is dumped and every cached reloadable asset is compared with a fresh load_owned; non-trivial = at least one cache op; distinct = distinct transcripts',
 'assumptions': ['loaders are deterministic functions of what they read', 'notified = EventSender::send returned before hot_reload was called'],
 'trusted': COMMON_TRUSTED + MODEL_TRUSTED + ['modelled, not verified: HashMap / HashSet iteration order (any order), crossbeam channels as FIFO queues, the reloader thread as the function `hotReload` / `handleEvents` (its scheduling is C08)']}

META = {'text': 'TODO',
 'design_ref': 'DESIGN.md §6 C05',
 'note': 'TODO',
 'technique': 'Lean 4 proof over executable model + differential correspondence'}
