"""Configuration of the check for C12 (loaded by checklib/props.py; COMMON_TRUSTED / MODEL_TRUSTED are in scope)."""

PROP = {'modules': ['AmVerif.Props.C12'],
 'engines': [{'name': 'watch', 'quick': 120, 'thorough': 1500}],
 'rule': 'cases 0-5: one per notification kind (create, modify, rename, delete, any, access), every valid entry up to depth 3 (root, dir, file with '
         '/ without extension, non-ASCII) spelled plainly and with three `.` / `zz/..` detour patterns; case 6: three roots (disjoint, nested, '
         'dotted name) x all kinds x depth<=2; case 7: raw id_of_path / events over 12 not-expressible names (dotted, hidden, non-UTF-8, `..`) as '
         'inner and last component, paths at / above / beside the root, relative and literal roots; case 8: path_of over valid and odd ids and back; '
         'case 9: disconnected channel; later cases random mixes (60% scenarios, raw events, raw ids, path_of, Err events, receiver drop); thorough: '
         'every 8th case is a real create/modify/rename/delete history under the real FsWatcherBuilder with sentinel barriers. A case is non-trivial '
         'when it ran at least one id_of_path / event / path_of; distinct = distinct op transcripts',
 'assumptions': ['std::path parses a path into the component list the harness reports; Normal components are never empty, `.` or `..`',
                 'ids and extensions contain no path separator or NUL (path_of_entry is not modelled otherwise)',
                 'inotify delivers events in the order the operations happened (sentinel technique, real-watcher cases only)'],
 'trusted': COMMON_TRUSTED + ['modelled, not verified: std::path::Path::components() (the harness tokenises every path with it; parent / strip_prefix / file_name / file_stem / '
 'extension / == are re-implemented on component lists in the model), notify (event delivery; events are synthesised except in the real-watcher '
 'cases), the OS file system (is_dir is a parameter of the model, read from the real file system by the harness when the event is handled), '
 'crossbeam channel (connected / disconnected)']}

META = {'text': 'Theorems over a transcription of id_of_path / NotifyEventHandler::handle_event / path_of_entry whose decision tables (event kind -> {path, '
         'parent}; component kind -> push/pop/skip/fail) are regenerated from src/hot_reloading/watcher.rs: id_of_path inverts path_of for every '
         'valid non-root entry under every root (round trip, injectivity), `.` and `x/..` detours do not change the result, paths outside the root '
         'or with a non-UTF-8 / dotted component yield nothing, the handler loses its watcher only through a failed send, membership '
         'characterisation for several roots. Full-strength statements for the root directory and for the create/rename/delete table are stated and '
         'REFUTED with kernel-checked witnesses (F-C12a/b/c reproduced on the real code by the oracle with replays); the `_partial` theorems give '
         'the exact batch per kind and depth. Unbounded in depth, names, number of roots and events.',
 'design_ref': 'DESIGN.md section 6 C12',
 'note': 'Trusted: Lean kernel; amx (table extraction); std::path::components(); notify; the OS file system (is_dir is a model parameter). Tie: '
         'Gen/Watch.lean regenerated each run; the watch engine feeds the real handler (hook H1) synthetic notify events about real entries of a '
         'temp dir and diffs events, id_of_path and FileSystem::path_of against the model; independent oracle from the statement; thorough tier adds '
         'real inotify histories through the public FsWatcherBuilder.',
 'technique': 'Lean 4 proof over model with tables regenerated from source + differential correspondence'}
