"""Configuration of the check for C12 (loaded by checklib/props.py; COMMON_TRUSTED / MODEL_TRUSTED are in scope)."""

PROP = {'modules': ['AmVerif.Props.C12'],
 'engines': [{'name': 'watch', 'quick': 120, 'thorough': 1500}],
 'rule': 'cases 0-5: one per notification kind (create, modify, rename, delete, any, access), every valid entry up to depth 3 (root, dir, file with '
         '/ without extension, non-ASCII) spelled plainly and with three `.` / `zz/..` detour patterns (deletions carry RemoveKind::File / Folder '
         'after the kind of the entry); case 6: three roots (disjoint, nested, dotted name) x all kinds x depth<=2; case 7: raw id_of_path / events '
         'over 12 not-expressible names (dotted, hidden, trailing dot, non-UTF-8, `..`) as inner and last component, paths at / above / beside the '
         'root, relative and literal roots, all 8 raw kinds incl. Remove(Any); case 8: path_of over valid and odd ids and back; case 9: '
         'disconnected channel; later cases random mixes (60% scenarios, raw events, raw ids, path_of, Err events, receiver drop); thorough: every '
         '8th case is a real create/modify/rename/delete history under the real FsWatcherBuilder with sentinel barriers. A case is non-trivial when '
         'it ran at least one id_of_path / event / path_of; distinct = distinct op transcripts',
 'assumptions': ['std::path parses a path into the component list the harness reports; Normal components are never empty, `.` or `..`, and contain '
                 'no separator',
                 'ids and extensions contain no path separator or NUL (path_of_entry is not modelled otherwise)',
                 'a deletion notification tells what was deleted (RemoveKind::File / Folder, as inotify and FSEvents do); an untyped Remove(Any) '
                 'names the entry as the file system shows it — gone, hence as a file — and its parent (C12_batch_exact)',
                 'a notification is consistent with the file system: the parent of a notified path is a directory (the oracle does not judge the kind '
                 'of the parent for raw events about paths below a regular file)',
                 'inotify delivers events in the order the operations happened (sentinel technique, real-watcher cases only)'],
 'trusted': COMMON_TRUSTED + ['modelled, not verified: std::path::Path::components() (the harness tokenises every path with it; parent / strip_prefix / file_name / file_stem / '
 'extension / == are re-implemented on component lists in the model), notify (event delivery; events are synthesised except in the real-watcher '
 'cases), the OS file system (is_dir is a parameter of the model, read from the real file system by the harness when the event is handled), '
 'crossbeam channel (connected / disconnected), Iterator::size_hint of filter_map / flat_map (send_multiple sends nothing exactly when there is no root)']}

META = {'text': 'Theorems over a transcription of id_of_path / NotifyEventHandler::handle_event / path_of_entry whose decision tables (event kind -> '
         '(parent named too, kind given by the notification); component kind -> push/pop/skip/fail) and statement shape (root check, kind source, '
         'name part of directories / files, empty extension refused) are regenerated from src/hot_reloading/watcher.rs, the rest of the event loop '
         'being compared literally: id_of_path inverts path_of for every valid entry under every root, the root directory included (round trip, '
         'injectivity), `.` and `x/..` detours do not change the result, paths outside the root or with a non-UTF-8 / dotted component or last '
         'name yield nothing, the handler loses its watcher only through a failed send, membership characterisation for several roots. FULL '
         'STRENGTH, all proved: C12_root (the root is the directory ""), C12_table for create / modify / rename / delete at every depth (exactly '
         'the entry with its kind and, except for modifications, its parent directory — "" for children of the root), C12_expressible (whatever is '
         'named is the entry whose path_of is the notified path), C12_detour_events (a detour directly before the last component does not change '
         'the events), plus the exact batch for every notify kind. Unbounded in depth, names, number of roots and events.',
 'design_ref': 'DESIGN.md section 6 C12',
 'note': 'Trusted: Lean kernel; amx (table / shape extraction, literal comparison of the event loop); std::path::components(); notify; the OS file '
         'system (is_dir is a model parameter). Tie: Gen/Watch.lean regenerated each run; the watch engine feeds the real handler (hook H1) '
         'synthetic notify events about real entries of a temp dir and diffs events, id_of_path and FileSystem::path_of against the model; '
         'independent oracle from the statement; thorough tier adds real inotify histories through the public FsWatcherBuilder. The five defects the '
         'check reproduced on the unrepaired tree (F-C12a root-not-notified, F-C12b delete-entry-not-named, F-C12c rename-parent-not-named, F-C12d '
         'unexpressible-path-named, F-C12e detour-parent-not-named) are repaired (known_findings.json: fixed); their witnesses stay in corpus/C12 '
         'and pass; if one returns the table / shape theorems break and the oracle fails again.',
 'technique': 'Lean 4 proof over model with tables regenerated from source + differential correspondence'}
