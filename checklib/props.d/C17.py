"""Configuration of the check for C17 (loaded by checklib/props.py; COMMON_TRUSTED / MODEL_TRUSTED are in scope)."""

PROP = {'modules': ['AmVerif.Props.C17', 'AmVerif.Lemmas.Cell', 'AmVerif.Lemmas.CellStep', 'AmVerif.Lemmas.CellFail', 'AmVerif.Lemmas.CellLive'],
 'engines': [{'name': 'cell', 'quick': 400, 'thorough': 4000},
             {'name': 'conc', 'tag': 'conc-racers', 'quick': 4, 'thorough': 40, 'classes': ['racers-diverge', 'presence-flipped', 'harness-panic']}],
 'rule': 'get_or_init (infallible entry point: initialiser returns or panics) and get_or_try_init (Ok / Err / panic) are distinct call kinds everywhere; case 0 enumerates every call sequence of length 3 over {get, try-ok, try-err, try-panic, infallible-ok, infallible-panic} for the three seed kinds (no destructor / '
         'recorded destructor / panicking destructor) with the observable state after each call and the ledger at drop; case 1 every pair of '
         'single-call free-running threads per kind; case 2 every (held initialiser outcome x other call) forced overlap per kind plus the malformed '
         'op lines; later cases alternate random sequential cell lives, free-running 2-5 thread call lists (each distinct observed outcome '
         'validated: some schedule of the model must explain it) and forced overlaps (first initialiser parked inside the once-closure while get and '
         'the other calls are issued); a case is non-trivial when it performs at least one call on a cell; distinct = distinct op/result transcripts',
 'assumptions': ['once_cell::sync::OnceCell behaves as documented (DESIGN 4.2)',
                 'the initialiser is not re-entrant on the same cell (documented as unspecified by the crate)',
                 'Drop of the cell runs with no call in flight (guaranteed by &mut self)'],
 'trusted': COMMON_TRUSTED + ['modelled, not verified: once_cell::sync::OnceCell<()> (at most one closure runs at a time, other callers block until it returned, Err / panic '
 "leaves it empty, Ok makes it initialised for good; get never blocks), Rust's unwinding and scope-exit drop order for the locals of "
 'get_or_try_init_*, one statement of the function body = one atomic step under sequential consistency',
 'amx recognises the statements of src/utils/cell.rs by exact form; the meaning of each statement token is hand-written in Model/Cell.lean']}

META = {'text': 'Theorems over the interpreter of the step programs regenerated from src/utils/cell.rs (get_or_try_init_default / _no_drop, dispatch, Drop '
         'and get arm tables): for every number of threads, every list of calls with every initialiser outcome (ok / err / panic, mutating the '
         'seed), every seed kind (no destructor, destructor, panicking destructor) and every schedule: at most one initialiser succeeds and all '
         'references returned are to its value; a failed initialiser leaves the cell empty and still owning the (mutated) seed and a later attempt '
         'succeeds; get is one always-enabled step; the seed is owned by exactly one of cell / escaping local / ledger at every step and never '
         'touched on the dead union arm; Drop accounts for seed and value exactly once; a panicking seed destructor leaves the cell initialised; no '
         'deadlock.',
 'design_ref': 'DESIGN.md §6 C17',
 'note': 'Trusted: Lean kernel; amx statement recogniser; hand-written meaning of each statement token; once_cell as an assumed primitive; SC. Tie: '
         'Gen/Cell.lean regenerated from the source each run and interpreted by the model; the cell engine diffs sequential lives of real '
         "OnceInitCell<u64|TSeed|BSeed, Val> against the model, validates free-running and forced-overlap concurrent outcomes against the model's "
         'schedules, and checks call counts / addresses / drop ledger with an oracle written from the statement.',
 'technique': 'Lean 4 proof over model regenerated from source + differential correspondence'}
