"""Configuration of the check for C02 (loaded by checklib/props.py; COMMON_TRUSTED / MODEL_TRUSTED are in scope)."""

PROP = {'modules': ['AmVerif.Props.C02'],
 'engines': [{'name': 'cache', 'quick': 150, 'thorough': 5000}, {'name': 'cache', 'tag': 'cache-3cpus', 'quick': 40, 'thorough': 1000, 'cpus': 3},
             {'name': 'conc', 'quick': 6, 'thorough': 60}],
 'rule': 'random operation sequences (5-60 ops) over load / load_owned / get_cached / get_or_insert / contains / remove / take / clear / directory '
         'loads on all front-ends (AssetCache, LocalAssetCache, AnyCache views; with reloader, without_hot_reloading, source without hot-reloading '
         'support), ids drawn 80% from a 7-id tree whose script assets load / look up / load_owned / get_or_insert each other (nested, failing, panicking loads; a share of scripts call get_or_insert, one case in five has a parent that fills ITS OWN slot and a child that loads the parent back), a '
         'malformed stream (absent ids, empty id, unicode, spaces, 70-char ids, wrong type for id); every 7th case is a seeded slice of the '
         'bounded-exhaustive enumeration of all length-3 sequences over 2 ids x 2 types x 8 ops; second run under taskset with 3 CPUs (different '
         "shard count); oracle = C02's statement on snapshots of the whole key universe after every op; non-trivial = executed a cache op; distinct "
         '= distinct transcripts',
 'assumptions': ['std HashMap behaves as a map (keep-first association list in the model)', 'loaders are deterministic'],
 'trusted': COMMON_TRUSTED + MODEL_TRUSTED + []}

META = {'text': 'Refinement theorems: the sharded map (any hasher/seed, any shard count, shard index expressions regenerated from get_shard/get_shard_mut) '
         'and the flat map both return, on EVERY operation sequence, what the abstract map Key -> Option Cell returns; hence the front-ends agree. '
         'One-line laws of the abstract map (independence of other keys, insert never overwrites, remove/take exact, clear empties) and their lift '
         'to the cache front-end model: hits change nothing, get_or_insert keeps/adds exactly, lookups are read-only, every evaluation of every '
         'loader program only adds entries (eval_mono, by induction over fuel and all Prog constructors), a failed load / load_owned adds nothing of '
         'its own, a successful load caches.',
 'design_ref': 'DESIGN.md §6 C02',
 'note': 'Trusted: Lean kernel; amx (shard index/count expressions, entry/record conditions); eval as transcription of anycache.rs. HashMap modelled '
         'as keep-first association list. Tie: regenerated Gen/Tables.lean + `cache` engine diffed op-by-op against the model on 4 front-ends x 3 '
         'constructors, also with 3 CPUs (16 vs 64 shards), + snapshot oracle.',
 'technique': 'Lean 4 refinement proof (sharded/flat -> abstract map; eval monotonicity) + differential correspondence'}
