"""Configuration of the check for C07 (loaded by checklib/props.py; COMMON_TRUSTED / MODEL_TRUSTED are in scope)."""

PROP = {'modules': ['AmVerif.Props.C07'],
 'engines': [{'name': 'iso', 'quick': 36, 'thorough': 300},
             {'name': 'iso', 'tag': 'iso-parking_lot', 'features': 'parking_lot', 'first': 5, 'quick': 1, 'thorough': 150},
             {'name': 'conc', 'tag': 'conc-racers', 'quick': 4, 'thorough': 40, 'classes': ['racers-diverge', 'presence-flipped', 'harness-panic']},
             {'name': 'hr', 'tag': 'hr-two-changes', 'first': 7, 'quick': 1, 'thorough': 100, 'shrink': False, 'classes': ['stale-after-hot-reload', 'sync-timeout']},
             {'name': 'hr', 'tag': 'hr-barrier', 'first': 3, 'quick': 1, 'thorough': 40, 'shrink': False, 'classes': ['event-before-hot-reload-missed', 'sync-timeout']}],
 'rule': 'value type Big<N> (N in {1,2,16,64,512} words, all equal to the version + checksum) loaded from a MemSource file so that every reload '
         'swaps it in place. case 0: fixed scenario (guard, edit, reload blocked behind the guard, re-read, map, drop, reload returns, new value); '
         'case 1: malformed stream; 2 of 3 later cases: random scripts (guards taken / re-read / mapped with map and try_map / dropped on the main '
         'thread, hot_reload on a helper thread, returned-or-blocked observed; a correct implementation always waits the whole 25 ms grace there) '
         'diffed against the forced schedule of the Lean model (same step function as the theorems, configuration compiled from the regenerated '
         'skeletons); 1 of 3: free-running stress (search only): 1-6 (thorough 1-12) reader threads mixing short reads, long-held guards, map and '
         'try_map guards against one thread looping edit / notify / event barrier / hot_reload for 220 ms (thorough 1.5 s); the model side answers '
         'with its own pseudo-random schedule search (6000 steps) over the extracted configuration. thorough tier: the same engine again on a harness '
         'built with the parking_lot feature. A case is non-trivial when it creates the cache and loads the value; distinct = distinct op/result '
         'transcripts',
 'assumptions': ['one hot_reload caller at a time in the correspondence runs (concurrent callers can deadlock: finding F-C08a, property C08); the theorems '
                 'allow any number of callers',
                 'local mode only (enhance_hot_reloading not called), as in the statement',
                 'the entry is written only through UntypedEntry::write, called only by the reloader thread (call chain theorem C07_skel_update_chain)'],
 'trusted': COMMON_TRUSTED + ['modelled, not verified: RwLock (std and parking_lot) by its specification (write excludes everybody, read excludes write; a reader may '
 'additionally be queued behind a waiting writer, which only removes behaviours); the Answers mailbox abstracted to the set of posted answers '
 '(safety only, its liveness is C08); crossbeam channel as a FIFO of tokens; sequentially consistent atomics',
 'partial by design: tearing by the compiler or hardware inside one modelled word copy / word read, and the lock implementations themselves, are '
 'outside the model; the stress runs with self-checking values under both lock implementations are the only observation of the real thing',
 'amx skeleton rules for guard extents (let-bound guard lives to the end of the block, `guard: this.guard` = guard moved)']}

META = {'text': 'Reader/writer model of one dynamic entry at word granularity (k words with versions, any number of readers with arbitrary read / map / '
         'release choices, the reloader thread, any number of hot_reload callers) whose writer program, reader lock, map/try_map behaviour, '
         'update-then-answer order and send-then-wait order are compiled from the regenerated skeletons of UntypedEntry::write, EntryStorage::read, '
         'AssetReadGuard::{map,try_map}, hot_reloading_thread and HotReloader::reload. For every k, every number of readers and every schedule: while '
         'any guard is alive no step changes a word or the reload id and everything observed under it still holds (C07_guard_pins, _view); all words '
         'observed under one guard carry one version (C07_no_torn_read); the id is never ahead of the value; every change happens while a caller '
         'that sent the Ptr of the pass has not returned (C07_changes_only_inside_hot_reload, state and trace form); no write of a pass follows its '
         "caller's return (C07_returns_after_writes). C07_code_wf is the obligation on the source: write lock kind, swap and increment inside the "
         'guard extent, increment after the swap, answer after the update.',
 'design_ref': 'DESIGN.md §6 C07',
 'note': 'Partial by design: hardware/compiler tearing inside a word and the lock implementations are outside the model (stress with self-checking '
         'values under std and parking_lot locks is search only). Tie: Gen/Skel.lean regenerated each run and compiled into the model configuration '
         '(lock.write -> lock.read, effects moved out of the guard, answer before update, guard dropped in map all break C07_code_wf); scripted '
         'schedules on the real crate (hot_reload blocked behind a live guard, values and ids under guards) diffed against the model driver; '
         'independent oracle written from the statement.',
 'technique': 'Lean 4 proof over all schedules of a model compiled from extracted skeletons + differential forced-schedule correspondence + stress search'}
