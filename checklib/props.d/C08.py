"""Configuration of the check for C08 (loaded by checklib/props.py; COMMON_TRUSTED / MODEL_TRUSTED are in scope)."""

PROP = {'modules': ['AmVerif.Props.C08'],
 'engines': [{'name': 'hrlive', 'quick': 30, 'thorough': 90},
             {'name': 'iso', 'tag': 'iso-parking_lot', 'features': 'parking_lot', 'first': 5, 'quick': 1, 'thorough': 30, 'classes': ['stress-hung', 'event-never-taken']}],
 'rule': 'every case = one op executed in a CHILD process (re-exec of amh) under a watchdog: blocked = every thread in scheduler state S, no '
         'progress-counter movement and no CPU tick for 2 s; death by signal reported with the signal. cases 0-15: all 16 look-up graphs on two '
         'script assets (self and mutual get_cached look-ups), file of a0 edited + notified, one hot_reload(); case 16: 4 threads x 400 '
         'hot_reload(); case 17: loader panic in a dependent during the reload; case 18: hr.bulk 300 (one reload pass that loads 300 never-cached assets: the reloader thread sends 300 AddAsset messages on the channel it alone consumes); later cases random: 1/12 hr.bulk (40 / 300; thorough 1-3000), else 40% hr.update (1-6 assets [thorough 10], '
         'random load DAG + random look-ups incl. cycles, random changed files, 1/6 with a panicking loader), 50% hr.conc (1-8 [16] threads x '
         '5-3000 [20000] hot_reload() calls (threads x calls <= 50000), 0-2 loader threads doing load/get_or_insert, 0-1 threads editing + notifying), 10% malformed lines '
         '(both sides must answer bad-op). Free-running threads are a SEARCH: the model is asked whether some schedule explains the outcome. '
         'non-trivial = a child was run; distinct = distinct (op, outcome) transcripts',
 'assumptions': ['std / parking_lot Mutex + Condvar: mutual exclusion, wait = atomic release-and-sleep, notify_all wakes every waiter; spurious wake-ups allowed',
                 'crossbeam unbounded channel: FIFO, send NEVER blocks (the model has no blocking send: skel_start_unbounded_channel pins channel::unbounded() in HotReloader::start, hr.bulk exercises the reloader sending to itself), send fails once the receiver is gone',
                 'fairness of the OS scheduler and of the lock implementations (a thread that stays enabled is eventually run)',
                 'the stack of the reloader thread holds #graph-nodes + 1 frames of DepsGraph::visit (stack overflow is modelled as exhaustion of every fuel)',
                 'loaders return or panic (a loader that never returns blocks hot_reload by design)'],
 'trusted': COMMON_TRUSTED + ['modelled, not verified: Mutex/Condvar, crossbeam channel, thread spawn/unwind, HashMap/HashSet of DepsGraph as lists; sequential '
 'consistency; the update pass as an arbitrary function token -> ok | panics | overflow',
 'amx skeleton facts: genCfg (waitNotifies, marksFirst, catchesPanic) is computed in Lean from the regenerated effect skeletons of '
 'Answers::wait_for_answer, DepsGraph::visit, AnyCache::reload_untyped']}

META = {'text': 'One interleaving model of the Answers mailbox + cache_msg channel + reloader thread, parametric in the source facts computed from the '
         'regenerated skeletons (does wait_for_answer notify after emptying the slot; does visit mark before recursing; is the reload under '
         'catch_unwind). Proved for EVERY number of callers, every schedule (spurious wake-ups included), every update-pass outcome function: no '
         'reachable deadlock (repaired facts; invariant: token in exactly one of queue / hand / slot iff its call is in flight, slot owner not '
         'asleep, reloader asleep => slot full), a call returns only after its own token was served, every non-spurious step decreases a rank '
         '(<= 6n(n+2) steps), the repaired DFS returns on every finite graph incl. cyclic look-ups within #nodes+1 frames, never aborted, thread '
         'never dies. Kernel-checked refutations for the defective facts (2-caller lost wake-up schedule, self-loop divergence for every fuel, '
         'uncaught panic strands the caller) + _partial theorems (one caller; acyclic graphs). C08_cfg_* require the repaired facts of '
         "today's source.",
 'design_ref': 'DESIGN.md section 6 C08',
 'note': 'Liveness half partial: scheduler / lock fairness assumed. Tie: Gen/Skel.lean regenerated each run (skeleton equalities + genCfg); engine '
         'hrlive runs the real crate with real threads in child processes under a blocked-vs-slow watchdog and reports deadlock / abort / '
         'stranded caller with distinct class tokens; reload sets diffed against the model, oracle = reverse-dependency closure.',
 'technique': 'Lean 4 proof over all schedules + skeleton-derived configuration + child-process stress search'}
