#!/usr/bin/env python3
"""Regenerates MANIFEST.json from checklib/props.py + checklib/manifest_meta.py (single source of truth)."""
import json, sys
from pathlib import Path
ROOT = Path(__file__).resolve().parent.parent
sys.path.insert(0, str(ROOT / "checklib"))
from props import PROPS, META
from manifest_meta import NOT_YET, HOOK_COMMITS

checks = []
for pid, cfg in PROPS.items():
    m = META[pid]
    checks.append({
        "property_id": pid,
        "quick_cmd": f"./check {pid} --tier quick",
        "thorough_cmd": f"./check {pid} --tier thorough",
        "evidence_file": f"/verif/evidence/{pid}.json",
        "replay_cmd_template": "./check replay {path}",
        "engine": ",".join(e["name"] for e in cfg["engines"]),
        "level_claimed": {"category": "proof", "text": m["text"], "design_ref": m["design_ref"]},
        "level_note": m["note"],
        "technique": m["technique"],
    })
all_ids = [f"C{i:02d}" for i in range(1, 19)]
na = [{"property_id": p, "reason": NOT_YET.get(p, "check not built yet in this round (work in progress; see DESIGN.md section 6 for the plan)")} for p in all_ids if p not in PROPS]
man = {
    "version": 1,
    "setup_cmd": "./check setup",
    "hooks": {
        "guard": "--cfg assets_manager_verif",
        "enable": "RUSTFLAGS='--cfg assets_manager_verif' (set by ./check and by harness/.cargo/config.toml when building /verif/harness against /repo)",
        "baseline_off_cmd": "cd /repo && cargo test --workspace --no-fail-fast --offline",
        "source_commits": HOOK_COMMITS,
        "add_only": True,
    },
    "engines": [
        {"name": "lean", "path": "/verif/lean", "serves_properties": list(PROPS), "kind_free_text": "Lean 4 project AmVerif: executable models (Model/), definitions regenerated from /repo by amx (Gen/), property theorems (Props/), axiom audit (Audit/, generated), model driver amdrv (Driver/)"},
        {"name": "amx", "path": "/verif/amx", "serves_properties": list(PROPS), "kind_free_text": "syn-based translator: decision tables, small function bodies and lock/atomic skeletons of /repo -> Lean"},
        {"name": "amh", "path": "/verif/harness", "serves_properties": list(PROPS), "kind_free_text": "Rust harness linking /repo (hooks on): seeded generators, executes cases on the implementation, independent oracle; output diffed against amdrv"},
    ],
    "checks": checks,
    "not_applicable": na,
    "notes": "Technique: machine-checked proof in Lean 4 over executable models, tied to /repo by (1) regeneration of model definitions from source (amx) and (2) differential correspondence runs (amh vs amdrv) with an independent oracle. See DESIGN.md.",
}
(ROOT / "MANIFEST.json").write_text(json.dumps(man, indent=1) + "\n")
print("MANIFEST.json:", len(checks), "checks,", len(na), "not_applicable")
