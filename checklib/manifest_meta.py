HOOK_COMMITS = ["4e6fe67", "2b7356b"]
NOT_YET = {}
META = {
    "C17": {
        "text": "Theorems over the interpreter of the step programs regenerated from src/utils/cell.rs (get_or_try_init_default / _no_drop, dispatch, Drop and get arm tables): for every number of threads, every list of calls with every initialiser outcome (ok / err / panic, mutating the seed), every seed kind (no destructor, destructor, panicking destructor) and every schedule: at most one initialiser succeeds and all references returned are to its value; a failed initialiser leaves the cell empty and still owning the (mutated) seed and a later attempt succeeds; get is one always-enabled step; the seed is owned by exactly one of cell / escaping local / ledger at every step and never touched on the dead union arm; Drop accounts for seed and value exactly once; a panicking seed destructor leaves the cell initialised; no deadlock.",
        "design_ref": "DESIGN.md §6 C17",
        "note": "Trusted: Lean kernel; amx statement recogniser; hand-written meaning of each statement token; once_cell as an assumed primitive; SC. Tie: Gen/Cell.lean regenerated from the source each run and interpreted by the model; the cell engine diffs sequential lives of real OnceInitCell<u64|TSeed|BSeed, Val> against the model, validates free-running and forced-overlap concurrent outcomes against the model's schedules, and checks call counts / addresses / drop ledger with an oracle written from the statement.",
        "technique": "Lean 4 proof over model regenerated from source + differential correspondence",
    },
    "C18": {
        "text": "Theorems over the definitions regenerated from src/entry.rs: update = (max, grew) for ReloadId and AtomicReloadId, NEVER least, every atomic method is a single RMW primitive, and for every linearisation (= every schedule of any number of threads) final = max offered, told-true iff grew, each growth reported exactly once and never lost. Unbounded in values, number of calls and threads.",
        "design_ref": "DESIGN.md §6 C18",
        "note": "Trusted: Lean kernel; amx translation of the method bodies; SC atomics; usize as Nat. Tie: Gen/Rid.lean is regenerated from the source each run and the rid engine diffs the public API (sequential bounded-exhaustive + random + free-running threads) against the model.",
        "technique": "Lean 4 proof over model regenerated from source + differential correspondence",
    },
}
