HOOK_COMMITS = ["4e6fe67", "2b7356b"]
NOT_YET = {}
META = {
    "C18": {
        "text": "Theorems over the definitions regenerated from src/entry.rs: update = (max, grew) for ReloadId and AtomicReloadId, NEVER least, every atomic method is a single RMW primitive, and for every linearisation (= every schedule of any number of threads) final = max offered, told-true iff grew, each growth reported exactly once and never lost. Unbounded in values, number of calls and threads.",
        "design_ref": "DESIGN.md §6 C18",
        "note": "Trusted: Lean kernel; amx translation of the method bodies; SC atomics; usize as Nat. Tie: Gen/Rid.lean is regenerated from the source each run and the rid engine diffs the public API (sequential bounded-exhaustive + random + free-running threads) against the model.",
        "technique": "Lean 4 proof over model regenerated from source + differential correspondence",
    },
    "C12": {
        "text": "Theorems over a transcription of id_of_path / NotifyEventHandler::handle_event / path_of_entry whose decision tables (event kind -> {path, parent}; component kind -> push/pop/skip/fail) are regenerated from src/hot_reloading/watcher.rs: id_of_path inverts path_of for every valid non-root entry under every root (round trip, injectivity), `.` and `x/..` detours do not change the result, paths outside the root or with a non-UTF-8 / dotted component yield nothing, the handler loses its watcher only through a failed send, membership characterisation for several roots. Full-strength statements for the root directory and for the create/rename/delete table are stated and REFUTED with kernel-checked witnesses (F-C12a/b/c reproduced on the real code by the oracle with replays); the `_partial` theorems give the exact batch per kind and depth. Unbounded in depth, names, number of roots and events.",
        "design_ref": "DESIGN.md section 6 C12",
        "note": "Trusted: Lean kernel; amx (table extraction); std::path::components(); notify; the OS file system (is_dir is a model parameter). Tie: Gen/Watch.lean regenerated each run; the watch engine feeds the real handler (hook H1) synthetic notify events about real entries of a temp dir and diffs events, id_of_path and FileSystem::path_of against the model; independent oracle from the statement; thorough tier adds real inotify histories through the public FsWatcherBuilder.",
        "technique": "Lean 4 proof over model with tables regenerated from source + differential correspondence",
    },
}

