HOOK_COMMITS = ["4e6fe67", "2b7356b"]
NOT_YET = {}
META = {
    "C18": {
        "text": "Theorems over the definitions regenerated from src/entry.rs: update = (max, grew) for ReloadId and AtomicReloadId, NEVER least, every atomic method is a single RMW primitive, and for every linearisation (= every schedule of any number of threads) final = max offered, told-true iff grew, each growth reported exactly once and never lost. Unbounded in values, number of calls and threads.",
        "design_ref": "DESIGN.md §6 C18",
        "note": "Trusted: Lean kernel; amx translation of the method bodies; SC atomics; usize as Nat. Tie: Gen/Rid.lean is regenerated from the source each run and the rid engine diffs the public API (sequential bounded-exhaustive + random + free-running threads) against the model.",
        "technique": "Lean 4 proof over model regenerated from source + differential correspondence",
    },
    "C04": {
        "text": "Theorems over the executable source models the driver runs: archive index = fold of an interpreter of register_file's effect skeleton (skeletons of zip.rs and tar.rs extracted each run, proved equal to each other and to the interpreted one); for every valid tree and every archive of it (any member order, optional ./) with a member per directory and a non-empty tree the archive view equals the tree's specification view (read, read_dir up to order, exists) and is independent of member order; the full-strength statement is kept and refuted by kernel-checked witnesses (F-C04: d/e/f.x without directory members; the empty archive); Embedded::from over the macro's tables equals the specification; FileSystem view equals it except for kind confusion (refuted + partial); every listed entry is readable; reads do not change the index. Unbounded in tree size, depth, contents and member order.",
        "design_ref": "DESIGN.md §6 C04",
        "note": "Trusted: Lean kernel; amx skeleton extraction; HashMap/Path/zip/tar/OS modelled. Tie: Gen/Archive.lean regenerated each run (skeleton equality by decide; the driver indexes with the extracted skeletons) and the src engine diffs read/read_dir/exists of the real FileSystem, Zip, Tar, Embedded built from generated trees against the model, with the generated tree as independent oracle. Known failing classes on the current tree: archive-implicit-dir-missing (F-C04), archive-empty-root-missing, fs-kind-confusion.",
        "technique": "Lean 4 proof over executable model + skeleton extraction + differential correspondence",
    },
    "C11": {
        "text": "For every source view: load_dir ids are strictly sorted (no duplicates) and are exactly the files listed in d with one of T's extensions; load_rec_dir ids are exactly those of d and of every directory below it reachable through readable directories; a missing directory is an error; a failing child hides nothing but its own subtree (own ids and every loadable sibling's ids stay); iter = ids.map load, iter_cached = the cached ids in order. Unbounded in listing sizes, depth and extension lists.",
        "design_ref": "DESIGN.md §6 C11",
        "note": "Trusted: Lean kernel; sort+dedup, cache and source views modelled. Tie: the dir engine runs load_dir / load_rec_dir / iter / iter_cached (and Arc<T>) through AssetCache over the real FileSystem, Zip, Tar, Embedded and a wrapper with unreadable directories, diffs against the model and checks the generated tree as oracle. Shares F-C04 and the empty-archive root with C04.",
        "technique": "Lean 4 proof over executable model + differential correspondence",
    },
}
