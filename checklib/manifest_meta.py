HOOK_COMMITS = ["4e6fe67", "2b7356b"]
NOT_YET = {}
META = {
    "C01": {
        "text": "Skeleton theorems (regenerated effect order of AssetMap::{get,insert,contains_key} of both maps, load_entry, add_asset, get_cached_entry_inner, _get_or_insert, add_any: each map op is one lock scope, insert is entry().or_insert() under one write lock) reduce every interleaving of any number of threads to a sequence of atomic get/insert/contains steps; over ALL such sequences on the abstract map (to which the sharded map refines for every seed and shard count): presence and the stored cell never change once set, all handles reported for a key are equal, the first publish wins and every racer gets the winner, every reported handle is still stored at the end of the phase; phases between removals.",
        "design_ref": "DESIGN.md §6 C01",
        "note": "Partial: Box address stability and soundness of the lifetime extension are assumed (addr is a field of the model cell); lock implementations assumed. Tie: Gen/Skel.lean regenerated each run (lock-scope or or_insert changes break the rfl equalities) + free-running racing threads with forced simultaneous misses and unrelated growth + sequential handle-identity correspondence.",
        "technique": "Lean 4 proof over all op sequences + skeleton extraction + differential/stress correspondence",
    },
    "C02": {
        "text": "Refinement theorems: the sharded map (any hasher/seed, any shard count, shard index expressions regenerated from get_shard/get_shard_mut) and the flat map both return, on EVERY operation sequence, what the abstract map Key -> Option Cell returns; hence the front-ends agree. One-line laws of the abstract map (independence of other keys, insert never overwrites, remove/take exact, clear empties) and their lift to the cache front-end model: hits change nothing, get_or_insert keeps/adds exactly, lookups are read-only, every evaluation of every loader program only adds entries (eval_mono, by induction over fuel and all Prog constructors), a failed load / load_owned adds nothing of its own, a successful load caches.",
        "design_ref": "DESIGN.md §6 C02",
        "note": "Trusted: Lean kernel; amx (shard index/count expressions, entry/record conditions); eval as transcription of anycache.rs. HashMap modelled as keep-first association list. Tie: regenerated Gen/Tables.lean + `cache` engine diffed op-by-op against the model on 4 front-ends x 3 constructors, also with 3 CPUs (16 vs 64 shards), + snapshot oracle.",
        "technique": "Lean 4 refinement proof (sharded/flat -> abstract map; eval monotonicity) + differential correspondence",
    },
    "C03": {
        "text": "Theorems over the regenerated ErrorKind::or table and load_from_source loop: closed table, class precedence conv > io > not-found > no-default as rank(or a b) = max, or never invents an error, first readable+decodable extension wins for every extension list and every status of the others, the value is decode(stored bytes, that extension), default_value is handed the fold of all errors (class = highest, one of the actual errors), empty list hands NoDefaultValue; at cache level: a failed Compound::load is Error{own id, reason}, and a failed load of any loader without nested loads (every plain Asset, proved for load_from_source) leaves the cache exactly unchanged.",
        "design_ref": "DESIGN.md §6 C03",
        "note": "Trusted: Lean kernel; amx translation of ErrorKind::or (pattern arms → first-match function) and of load_from_source (shape-checked template in CPS); the World model eval as transcription of anycache.rs/asset.rs/key.rs. Tie: Gen/Tables.lean regenerated each run + `load` engine (exhaustive status space per asset type + random) diffed against the model + independent oracle from the status vector.",
        "technique": "Lean 4 proof over definitions regenerated from source + differential correspondence",
    },
    "C16": {
        "text": "Theorems over definitions regenerated from src/utils/bytes.rs and string.rs: every construction path derefs to its input (any length, any Vec capacity incl. 0); for every list of atomic steps of any number of threads (clone, deref, move, drop, the three steps of drop_slow) no use-after-free / double free / layout or capacity mismatch / underflow occurs, count = live handles, every deref through any handle yields the source, each block is freed exactly once and only after the last drop, nothing leaks and the last drop always completes; dealloc layout = alloc layout on both branches (inline layout of 0 = header layout); clone/drop are single RMWs with Release decrement and Acquire before the free; from_utf8 accepts exactly valid UTF-8 and keeps the bytes, valid_up_to is the longest valid prefix; unchecked SharedString literals are fed str/String bytes only; comparisons and hashes go through the slices.",
        "design_ref": "DESIGN.md §6 C16",
        "note": "Partial by design: the weak memory model and the allocator are modelled, not proved (orderings are checked against the textbook table). Tie: Gen/Bytes.lean regenerated each run (RMW kinds + orderings, 'was last' test, drop_slow branch / layouts, constructor layouts + header literals, From dispatch, SharedString literal sites, comparison delegation); engine bytes diffs every public path, forced schedules on real threads, strings and the serde visit_* paths against the model, with an accounting global allocator (layout on free, double free, leaks) and an oracle written from the statement.",
        "technique": "Lean 4 proof over model regenerated from source + differential correspondence with allocator accounting",
    },
    "C18": {
        "text": "Theorems over the definitions regenerated from src/entry.rs: update = (max, grew) for ReloadId and AtomicReloadId, NEVER least, every atomic method is a single RMW primitive, and for every linearisation (= every schedule of any number of threads) final = max offered, told-true iff grew, each growth reported exactly once and never lost. Unbounded in values, number of calls and threads.",
        "design_ref": "DESIGN.md §6 C18",
        "note": "Trusted: Lean kernel; amx translation of the method bodies; SC atomics; usize as Nat. Tie: Gen/Rid.lean is regenerated from the source each run and the rid engine diffs the public API (sequential bounded-exhaustive + random + free-running threads) against the model.",
        "technique": "Lean 4 proof over model regenerated from source + differential correspondence",
    },
    "C12": {
        "text": "Theorems over a transcription of id_of_path / NotifyEventHandler::handle_event / path_of_entry whose decision tables (event kind -> {path, parent}; component kind -> push/pop/skip/fail) are regenerated from src/hot_reloading/watcher.rs: id_of_path inverts path_of for every valid non-root entry under every root (round trip, injectivity), `.` and `x/..` detours do not change the result, paths outside the root or with a non-UTF-8 / dotted component yield nothing, the handler loses its watcher only through a failed send, membership characterisation for several roots. Full-strength statements for the root directory and for the create/rename/delete table are stated and REFUTED with kernel-checked witnesses (F-C12a/b/c reproduced on the real code by the oracle with replays); the `_partial` theorems give the exact batch per kind and depth. Unbounded in depth, names, number of roots and events.",
        "design_ref": "DESIGN.md section 6 C12",
        "note": "Trusted: Lean kernel; amx (table extraction); std::path::components(); notify; the OS file system (is_dir is a model parameter). Tie: Gen/Watch.lean regenerated each run; the watch engine feeds the real handler (hook H1) synthetic notify events about real entries of a temp dir and diffs events, id_of_path and FileSystem::path_of against the model; independent oracle from the statement; thorough tier adds real inotify histories through the public FsWatcherBuilder.",
        "technique": "Lean 4 proof over model with tables regenerated from source + differential correspondence",
    },
}

