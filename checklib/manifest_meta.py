HOOK_COMMITS = ["4e6fe67", "2b7356b"]
NOT_YET = {}
META = {
    "C18": {
        "text": "Theorems over the definitions regenerated from src/entry.rs: update = (max, grew) for ReloadId and AtomicReloadId, NEVER least, every atomic method is a single RMW primitive, and for every linearisation (= every schedule of any number of threads) final = max offered, told-true iff grew, each growth reported exactly once and never lost. Unbounded in values, number of calls and threads.",
        "design_ref": "DESIGN.md §6 C18",
        "note": "Trusted: Lean kernel; amx translation of the method bodies; SC atomics; usize as Nat. Tie: Gen/Rid.lean is regenerated from the source each run and the rid engine diffs the public API (sequential bounded-exhaustive + random + free-running threads) against the model.",
        "technique": "Lean 4 proof over model regenerated from source + differential correspondence",
    },
}
