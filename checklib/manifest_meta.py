HOOK_COMMITS = ["4e6fe67", "2b7356b"]
NOT_YET = {}
META = {
    "C03": {
        "text": "Theorems over the regenerated ErrorKind::or table and load_from_source loop: closed table, class precedence conv > io > not-found > no-default as rank(or a b) = max, or never invents an error, first readable+decodable extension wins for every extension list and every status of the others, the value is decode(stored bytes, that extension), default_value is handed the fold of all errors (class = highest, one of the actual errors), empty list hands NoDefaultValue; at cache level: a failed Compound::load is Error{own id, reason}, and a failed load of any loader without nested loads (every plain Asset, proved for load_from_source) leaves the cache exactly unchanged.",
        "design_ref": "DESIGN.md §6 C03",
        "note": "Trusted: Lean kernel; amx translation of ErrorKind::or (pattern arms → first-match function) and of load_from_source (shape-checked template in CPS); the World model eval as transcription of anycache.rs/asset.rs/key.rs. Tie: Gen/Tables.lean regenerated each run + `load` engine (exhaustive status space per asset type + random) diffed against the model + independent oracle from the status vector.",
        "technique": "Lean 4 proof over definitions regenerated from source + differential correspondence",
    },
    "C18": {
        "text": "Theorems over the definitions regenerated from src/entry.rs: update = (max, grew) for ReloadId and AtomicReloadId, NEVER least, every atomic method is a single RMW primitive, and for every linearisation (= every schedule of any number of threads) final = max offered, told-true iff grew, each growth reported exactly once and never lost. Unbounded in values, number of calls and threads.",
        "design_ref": "DESIGN.md §6 C18",
        "note": "Trusted: Lean kernel; amx translation of the method bodies; SC atomics; usize as Nat. Tie: Gen/Rid.lean is regenerated from the source each run and the rid engine diffs the public API (sequential bounded-exhaustive + random + free-running threads) against the model.",
        "technique": "Lean 4 proof over model regenerated from source + differential correspondence",
    },
}
