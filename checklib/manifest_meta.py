HOOK_COMMITS = ["4e6fe67", "2b7356b"]
NOT_YET = {}
META = {
    "C16": {
        "text": "Theorems over definitions regenerated from src/utils/bytes.rs and string.rs: every construction path derefs to its input (any length, any Vec capacity incl. 0); for every list of atomic steps of any number of threads (clone, deref, move, drop, the three steps of drop_slow) no use-after-free / double free / layout or capacity mismatch / underflow occurs, count = live handles, every deref through any handle yields the source, each block is freed exactly once and only after the last drop, nothing leaks and the last drop always completes; dealloc layout = alloc layout on both branches (inline layout of 0 = header layout); clone/drop are single RMWs with Release decrement and Acquire before the free; from_utf8 accepts exactly valid UTF-8 and keeps the bytes, valid_up_to is the longest valid prefix; unchecked SharedString literals are fed str/String bytes only; comparisons and hashes go through the slices.",
        "design_ref": "DESIGN.md §6 C16",
        "note": "Partial by design: the weak memory model and the allocator are modelled, not proved (orderings are checked against the textbook table). Tie: Gen/Bytes.lean regenerated each run (RMW kinds + orderings, 'was last' test, drop_slow branch / layouts, constructor layouts + header literals, From dispatch, SharedString literal sites, comparison delegation); engine bytes diffs every public path, forced schedules on real threads, strings and the serde visit_* paths against the model, with an accounting global allocator (layout on free, double free, leaks) and an oracle written from the statement.",
        "technique": "Lean 4 proof over model regenerated from source + differential correspondence with allocator accounting",
    },
    "C18": {
        "text": "Theorems over the definitions regenerated from src/entry.rs: update = (max, grew) for ReloadId and AtomicReloadId, NEVER least, every atomic method is a single RMW primitive, and for every linearisation (= every schedule of any number of threads) final = max offered, told-true iff grew, each growth reported exactly once and never lost. Unbounded in values, number of calls and threads.",
        "design_ref": "DESIGN.md §6 C18",
        "note": "Trusted: Lean kernel; amx translation of the method bodies; SC atomics; usize as Nat. Tie: Gen/Rid.lean is regenerated from the source each run and the rid engine diffs the public API (sequential bounded-exhaustive + random + free-running threads) against the model.",
        "technique": "Lean 4 proof over model regenerated from source + differential correspondence",
    },
}
