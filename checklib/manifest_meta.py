"""Hook commits in /repo and reasons for unclaimed properties (per-property texts live in props.d/)."""
HOOK_COMMITS = ["4e6fe67", "2b7356b", "9e7c37a","a482f71"]
NOT_YET = {}
