"""Per-property configuration of `check`.

modules : Lean modules holding the property's theorems (every `theorem` in them is an obligation
          and is axiom-audited);
engines : correspondence engines of the harness with the number of fresh cases per tier;
trusted / assumptions / rule : copied into the evidence file.
"""

COMMON_TRUSTED = [
    "amx (syn-based extractor /verif/amx): regenerates lean/AmVerif/Gen/*.lean from /repo's source on every run",
    "amh + check (harness, canonicalisation, differ, oracle) — /verif/harness, /verif/check",
]

MODEL_TRUSTED = [
    "modelled, not verified: std HashMap as a keep-first association list; Box address stability (addr is a field of the cell); user loaders as deterministic Prog terms; the harness's MemSource as Model/MemSource.lean",
]

PROPS = {
    "C01": {
        "modules": ["AmVerif.Props.C01"],
        "engines": [{"name": "conc", "quick": 12, "thorough": 120},
                    {"name": "conc", "tag": "conc-3cpus", "quick": 4, "thorough": 40, "cpus": 3},
                    {"name": "cache", "quick": 60, "thorough": 2000}],
        "rule": "conc: free-running real threads (search only): `race` = 2-8 threads load / get_or_insert the same absent key, the loader waits until all racers are inside it (forced simultaneous misses), 60-300 rounds per case, every 16 rounds 2000 unrelated insertions then every earlier handle re-read; `probe` = 2-4 readers look up 32 stable entries (directly and through AnyCache) while 2-4 writers insert 30k-200k unrelated entries; also under taskset with 3 CPUs (other shard count). cache: sequential op sequences with handle identity (h<n> = n-th distinct entry) diffed against the model. non-trivial = every case; distinct = distinct (parameters, outcome)",
        "trusted": COMMON_TRUSTED + MODEL_TRUSTED + ["modelled, not verified: RwLock / RefCell give mutual exclusion for the extent of their guards; the lifetime-extending cast in AssetMap::{get,insert} is sound given C01_no_dangling (Box address stable, no removal through &self)"],
        "assumptions": ["each of AssetMap::{get,insert,contains_key} is one atomic step (skeleton theorems: whole body inside one lock scope)", "Box<CacheEntry> keeps its address when the HashMap grows"],
    },
    "C02": {
        "modules": ["AmVerif.Props.C02"],
        "engines": [{"name": "cache", "quick": 150, "thorough": 5000},
                    {"name": "cache", "tag": "cache-3cpus", "quick": 40, "thorough": 1000, "cpus": 3}],
        "rule": "random operation sequences (5-60 ops) over load / load_owned / get_cached / get_or_insert / contains / remove / take / clear / directory loads on all front-ends (AssetCache, LocalAssetCache, AnyCache views; with reloader, without_hot_reloading, source without hot-reloading support), ids drawn 80% from a 7-id tree whose script assets load / look up / load_owned each other (nested, failing, panicking loads), a malformed stream (absent ids, empty id, unicode, spaces, 70-char ids, wrong type for id); every 7th case is a seeded slice of the bounded-exhaustive enumeration of all length-3 sequences over 2 ids x 2 types x 8 ops; second run under taskset with 3 CPUs (different shard count); oracle = C02's statement on snapshots of the whole key universe after every op; non-trivial = executed a cache op; distinct = distinct transcripts",
        "trusted": COMMON_TRUSTED + MODEL_TRUSTED,
        "assumptions": ["std HashMap behaves as a map (keep-first association list in the model)", "loaders are deterministic"],
    },
    "C03": {
        "modules": ["AmVerif.Props.C03"],
        "engines": [{"name": "load", "quick": 45, "thorough": 1500}],
        "rule": "cases 0-11 enumerate, for each of the 12 asset types M<e,d> (6 extension lists incl. [] and [\"\"], default_value present or not), EVERY assignment of {absent, unreadable(kind), undecodable, ok} to the declared extensions, each followed by contains / get_cached / repair / retry; later cases: random blocks with odd ids (root, nested, unicode, spaces), compounds nested 1-4 deep over failing assets (error wrapping), source-read faults at each read index; contents delivered as Buffer / Owned / Slice; non-trivial = at least one load executed; distinct = distinct op/result transcripts",
        "trusted": COMMON_TRUSTED + MODEL_TRUSTED + ["not modelled: FileContent::with_cow (three variants hand over the same bytes) — exercised by the correspondence only"],
        "assumptions": ["loaders are deterministic functions of the bytes and extension they are handed"],
    },
    "C16": {
        "modules": ["AmVerif.Props.C16"],
        "engines": [{"name": "bytes", "quick": 240, "thorough": 6000}],
        "rule": "case 0: every construction path (From<&[u8]>, from_slice, From<Vec>, from_vec, Box, Cow borrowed/owned, FromIterator with exact and unknown size hint, BytesLoader borrowed/owned) x lengths {0,1,7,8,9,33} x capacity {0 / exact, len+1, len+24}; case 1: every order of dropping three handles living on three threads for 4 paths x 2 capacities; case 2: all 256 single bytes, lead x continuation boundary pairs / triples / quadruples and a table of 34 valid / overlong / surrogate / >U+10FFFF / truncated fragments through from_utf8, StringLoader and the four serde visit_* paths, string comparisons, serde of SharedBytes; later cases cycle: 4 of 6 random forced schedules (clone / clone via From<&SharedBytes> / deref / move / drop / cmp / hash over 1-3 buffers of length 0..8192 (64 KiB, one 1 MiB per 97 cases in thorough), every op executed on the named one of 6 worker threads, ~8% ops on dead or unknown handles), 1 of 6 free-running stress (2-8 threads, search only, outcome compared with the schedule-independent model outcome), 1 of 6 random strings. A case is non-trivial when it builds at least one buffer or string; distinct = distinct op/result transcripts",
        "trusted": COMMON_TRUSTED + [
            "modelled, not verified: the weak memory model (C16_orderings_ok checks the extracted orderings against the textbook Release-decrement / Acquire-before-free requirement, it does not prove that requirement sufficient); std::sync::atomic RMWs as single sequentially-consistent steps; usize as unbounded Nat (no count overflow)",
            "modelled, not verified: core::alloc::Layout::{new, extend, from_size_align} for a 64-bit target (Model/BytesBase.lean), Vec<u8> allocation behaviour (no block when capacity is 0; from_raw_parts/drop frees Layout(capacity,1)), the system allocator; observed on every run through the accounting allocator of the harness",
            "UTF-8 validity is Lean core's ByteArray.IsValidUTF8 (= being List.utf8Encode of some List Char); Rust's core::str::from_utf8 is tied to it by correspondence only",
            "amx/src/bytes.rs translation of bytes.rs / string.rs into Gen/Bytes.lean (refuses unknown shapes)",
        ],
        "assumptions": [
            "64-bit target: usize / AtomicUsize / *const u8 are 8 bytes, 8-aligned; isize::MAX = 2^63-1",
            "a handle is used only by code that owns it or holds a reference to it (Rust's ownership discipline; no unsafe duplication of a SharedBytes), and from_utf8_unchecked callers respect its contract",
            "the reference count does not overflow usize",
            "atomics are sequentially consistent per location; Release/Acquire on the count suffices to order the last use before the free (textbook argument, not proved)",
        ],
    },
    "C18": {
        "modules": ["AmVerif.Props.C18"],
        "engines": [{"name": "rid", "quick": 60, "thorough": 2000}],
        "rule": "cases 0-2 enumerate all (stored, offered) pairs over 9 boundary values for ReloadId::update and every AtomicReloadId op, and all length-3 update sequences over 4 values; later cases alternate random op sequences and free-running concurrent update() calls from 2-6 threads (validated against the linearisation model); a case is non-trivial when it executes at least one op; distinct = distinct op/result transcripts",
        "trusted": COMMON_TRUSTED + [
            "modelled, not verified: usize as unbounded Nat (no wrap-around), std::sync::atomic primitives as single sequentially-consistent steps",
        ],
        "assumptions": [
            "AtomicUsize::{load,store,swap,fetch_add,fetch_max} are indivisible and sequentially consistent per location",
            "the reload counter never wraps (2^64 reloads)",
        ],
    },
    "C12": {
        "modules": ["AmVerif.Props.C12"],
        "engines": [{"name": "watch", "quick": 120, "thorough": 1500}],
        "rule": "cases 0-5: one per notification kind (create, modify, rename, delete, any, access), every valid entry up to depth 3 (root, dir, file with / without extension, non-ASCII) spelled plainly and with three `.` / `zz/..` detour patterns; case 6: three roots (disjoint, nested, dotted name) x all kinds x depth<=2; case 7: raw id_of_path / events over 12 not-expressible names (dotted, hidden, non-UTF-8, `..`) as inner and last component, paths at / above / beside the root, relative and literal roots; case 8: path_of over valid and odd ids and back; case 9: disconnected channel; later cases random mixes (60% scenarios, raw events, raw ids, path_of, Err events, receiver drop); thorough: every 8th case is a real create/modify/rename/delete history under the real FsWatcherBuilder with sentinel barriers. A case is non-trivial when it ran at least one id_of_path / event / path_of; distinct = distinct op transcripts",
        "trusted": COMMON_TRUSTED + [
            "modelled, not verified: std::path::Path::components() (the harness tokenises every path with it; parent / strip_prefix / file_name / file_stem / extension / == are re-implemented on component lists in the model), notify (event delivery; events are synthesised except in the real-watcher cases), the OS file system (is_dir is a parameter of the model, read from the real file system by the harness when the event is handled), crossbeam channel (connected / disconnected)",
        ],
        "assumptions": [
            "std::path parses a path into the component list the harness reports; Normal components are never empty, `.` or `..`",
            "ids and extensions contain no path separator or NUL (path_of_entry is not modelled otherwise)",
            "inotify delivers events in the order the operations happened (sentinel technique, real-watcher cases only)",
        ],
    },
    "C04": {
        "modules": ["AmVerif.Props.C04"],
        "engines": [{"name": "src", "quick": 360, "thorough": 4000}],
        "rule": "cases 0-199 are the bounded-exhaustive slice: the 20 closed subsets of {a.x, a, d/, d/b.x, d/e/} (empty tree included) x {FileSystem, Embedded, (Zip, Tar) x (every directory has a member, none has) x (directories before / after their content)}, each probed on every node plus a fixed list of absent / wrong-kind ids; later cases: random trees (depth <= 4, unicode / spaces / empty extension / one stem with several extensions / file and directory sharing an id / 200-byte names) through one source kind each (rotating), archive members in sorted / reversed / files-first / shuffled order, all / none / some directory members, optional ./ prefix, stored or deflated, in memory or file backed, GNU long names, 1/8 with malformed members (.., absolute, dotted directory, duplicates, hidden, trailing dot); probes: read / read_dir / exists of every node, absent ids (wrong extension, directory as file, file as directory, below a file, empty components), re-read of every listed entry, 1/6 with 4 (thorough 8) concurrent readers; a case is non-trivial when at least one probe ran; distinct = distinct op transcripts",
        "trusted": COMMON_TRUSTED + [
            "modelled, not verified: HashMap as a partial function, Vec as a list, Path::components / file_stem / extension (std) as splitSlash / splitExt, the zip and tar container decoders (the model starts at the member list: path, kind, bytes), the OS file system as a map from paths to file / directory nodes with ENOTDIR when a path goes through a file, IdBuilder as idPush / idPop",
            "the embed! macro's directory walk is modelled by its output tables only (RawEmbedded is built from the tree at run time by the harness)",
        ],
        "assumptions": [
            "tree names are valid: non-empty, no '.', no '/', no NUL; extensions contain no '.'; an extension-less file and a directory do not share a name",
            "probe ids for the oracle are well formed (no empty component); ids with empty components are compared against the model only",
            "no sibling <root>.<ext> of the FileSystem root exists (read(\"\", ext) leaves the root)",
        ],
    },
    "C11": {
        "modules": ["AmVerif.Props.C11"],
        "engines": [{"name": "dir", "quick": 300, "thorough": 3000}],
        "rule": "cases 0-79: the 20 small trees of C04 x the four source kinds (archives with and without directory members), 10 loads each over 5 extension lists; later cases: random trees as in C04 through one source kind each, 1/4 with one or two unreadable directories (read_dir fails with PermissionDenied), 6-16 ops drawn from load_dir / load_rec_dir (plain and Arc<T>) / iter / iter_cached after loading a random asset, over 7 asset types with extension lists [], [\"\"], [x], [a,b], [a,b,c], [x,\"\"], [b,a,x], on random directories, the root, missing ids and file ids; a case is non-trivial when at least one load ran; distinct = distinct op transcripts",
        "trusted": COMMON_TRUSTED + [
            "modelled, not verified: sort_unstable + dedup as insertion into a strictly sorted list, the asset cache as 'load succeeds iff some extension can be read' (loader = identity on bytes), the source views of C04",
        ],
        "assumptions": [
            "read_dir is deterministic for the lifetime of the cache (Directory and RecursiveDirectory read the same listing)",
            "the directory graph is finite and acyclic (recLoad is fuelled; the driver uses fuel 64)",
        ],
    },
}
