"""Per-property configuration of `check`.

modules : Lean modules holding the property's theorems (every `theorem` in them is an obligation
          and is axiom-audited);
engines : correspondence engines of the harness with the number of fresh cases per tier;
trusted / assumptions / rule : copied into the evidence file.
"""

COMMON_TRUSTED = [
    "amx (syn-based extractor /verif/amx): regenerates lean/AmVerif/Gen/*.lean from /repo's source on every run",
    "amh + check (harness, canonicalisation, differ, oracle) — /verif/harness, /verif/check",
]

PROPS = {
    "C18": {
        "modules": ["AmVerif.Props.C18"],
        "engines": [{"name": "rid", "quick": 60, "thorough": 2000}],
        "rule": "cases 0-2 enumerate all (stored, offered) pairs over 9 boundary values for ReloadId::update and every AtomicReloadId op, and all length-3 update sequences over 4 values; later cases alternate random op sequences and free-running concurrent update() calls from 2-6 threads (validated against the linearisation model); a case is non-trivial when it executes at least one op; distinct = distinct op/result transcripts",
        "trusted": COMMON_TRUSTED + [
            "modelled, not verified: usize as unbounded Nat (no wrap-around), std::sync::atomic primitives as single sequentially-consistent steps",
        ],
        "assumptions": [
            "AtomicUsize::{load,store,swap,fetch_add,fetch_max} are indivisible and sequentially consistent per location",
            "the reload counter never wraps (2^64 reloads)",
        ],
    },
    "C04": {
        "modules": ["AmVerif.Props.C04"],
        "engines": [{"name": "src", "quick": 360, "thorough": 4000}],
        "rule": "cases 0-199 are the bounded-exhaustive slice: the 20 closed subsets of {a.x, a, d/, d/b.x, d/e/} (empty tree included) x {FileSystem, Embedded, (Zip, Tar) x (every directory has a member, none has) x (directories before / after their content)}, each probed on every node plus a fixed list of absent / wrong-kind ids; later cases: random trees (depth <= 4, unicode / spaces / empty extension / one stem with several extensions / file and directory sharing an id / 200-byte names) through one source kind each (rotating), archive members in sorted / reversed / files-first / shuffled order, all / none / some directory members, optional ./ prefix, stored or deflated, in memory or file backed, GNU long names, 1/8 with malformed members (.., absolute, dotted directory, duplicates, hidden, trailing dot); probes: read / read_dir / exists of every node, absent ids (wrong extension, directory as file, file as directory, below a file, empty components), re-read of every listed entry, 1/6 with 4 (thorough 8) concurrent readers; a case is non-trivial when at least one probe ran; distinct = distinct op transcripts",
        "trusted": COMMON_TRUSTED + [
            "modelled, not verified: HashMap as a partial function, Vec as a list, Path::components / file_stem / extension (std) as splitSlash / splitExt, the zip and tar container decoders (the model starts at the member list: path, kind, bytes), the OS file system as a map from paths to file / directory nodes with ENOTDIR when a path goes through a file, IdBuilder as idPush / idPop",
            "the embed! macro's directory walk is modelled by its output tables only (RawEmbedded is built from the tree at run time by the harness)",
        ],
        "assumptions": [
            "tree names are valid: non-empty, no '.', no '/', no NUL; extensions contain no '.'; an extension-less file and a directory do not share a name",
            "probe ids for the oracle are well formed (no empty component); ids with empty components are compared against the model only",
            "no sibling <root>.<ext> of the FileSystem root exists (read(\"\", ext) leaves the root)",
        ],
    },
    "C11": {
        "modules": ["AmVerif.Props.C11"],
        "engines": [{"name": "dir", "quick": 300, "thorough": 3000}],
        "rule": "cases 0-79: the 20 small trees of C04 x the four source kinds (archives with and without directory members), 10 loads each over 5 extension lists; later cases: random trees as in C04 through one source kind each, 1/4 with one or two unreadable directories (read_dir fails with PermissionDenied), 6-16 ops drawn from load_dir / load_rec_dir (plain and Arc<T>) / iter / iter_cached after loading a random asset, over 7 asset types with extension lists [], [\"\"], [x], [a,b], [a,b,c], [x,\"\"], [b,a,x], on random directories, the root, missing ids and file ids; a case is non-trivial when at least one load ran; distinct = distinct op transcripts",
        "trusted": COMMON_TRUSTED + [
            "modelled, not verified: sort_unstable + dedup as insertion into a strictly sorted list, the asset cache as 'load succeeds iff some extension can be read' (loader = identity on bytes), the source views of C04",
        ],
        "assumptions": [
            "read_dir is deterministic for the lifetime of the cache (Directory and RecursiveDirectory read the same listing)",
            "the directory graph is finite and acyclic (recLoad is fuelled; the driver uses fuel 64)",
        ],
    },
}
