"""Per-property configuration of `check`: one file per property in checklib/props.d/.

PROP: modules (Lean modules holding the property's theorems; every `theorem` in them is an obligation
and is axiom-audited), engines (correspondence engines of the harness with the number of fresh
cases per tier; optional tag / cpus), rule / trusted / assumptions (copied into the evidence file).
META: texts for MANIFEST.json (run `python3 checklib/mkmanifest.py` after editing).
"""
from pathlib import Path

COMMON_TRUSTED = [
    "amx (syn-based extractor /verif/amx): regenerates lean/AmVerif/Gen/*.lean from /repo's source on every run",
    "amh + check (harness, canonicalisation, differ, oracle) — /verif/harness, /verif/check",
]

MODEL_TRUSTED = [
    "modelled, not verified: std HashMap as a keep-first association list; Box address stability (addr is a field of the cell); user loaders as deterministic Prog terms; the harness's MemSource as Model/MemSource.lean",
]

PROPS, META = {}, {}
for _f in sorted((Path(__file__).parent / "props.d").glob("C*.py")):
    _ns = {"COMMON_TRUSTED": COMMON_TRUSTED, "MODEL_TRUSTED": MODEL_TRUSTED}
    exec(compile(_f.read_text(), str(_f), "exec"), _ns)
    PROPS[_f.stem] = _ns["PROP"]
    META[_f.stem] = _ns["META"]
