"""Per-property configuration of `check`.

modules : Lean modules holding the property's theorems (every `theorem` in them is an obligation
          and is axiom-audited);
engines : correspondence engines of the harness with the number of fresh cases per tier;
trusted / assumptions / rule : copied into the evidence file.
"""

COMMON_TRUSTED = [
    "amx (syn-based extractor /verif/amx): regenerates lean/AmVerif/Gen/*.lean from /repo's source on every run",
    "amh + check (harness, canonicalisation, differ, oracle) — /verif/harness, /verif/check",
]

MODEL_TRUSTED = [
    "modelled, not verified: std HashMap as a keep-first association list; Box address stability (addr is a field of the cell); user loaders as deterministic Prog terms; the harness's MemSource as Model/MemSource.lean",
]

PROPS = {
    "C01": {
        "modules": ["AmVerif.Props.C01"],
        "engines": [{"name": "conc", "quick": 12, "thorough": 120},
                    {"name": "conc", "tag": "conc-3cpus", "quick": 4, "thorough": 40, "cpus": 3},
                    {"name": "cache", "quick": 60, "thorough": 2000}],
        "rule": "conc: free-running real threads (search only): `race` = 2-8 threads load / get_or_insert the same absent key, the loader waits until all racers are inside it (forced simultaneous misses), 60-300 rounds per case, every 16 rounds 2000 unrelated insertions then every earlier handle re-read; `probe` = 2-4 readers look up 32 stable entries (directly and through AnyCache) while 2-4 writers insert 30k-200k unrelated entries; also under taskset with 3 CPUs (other shard count). cache: sequential op sequences with handle identity (h<n> = n-th distinct entry) diffed against the model. non-trivial = every case; distinct = distinct (parameters, outcome)",
        "trusted": COMMON_TRUSTED + MODEL_TRUSTED + ["modelled, not verified: RwLock / RefCell give mutual exclusion for the extent of their guards; the lifetime-extending cast in AssetMap::{get,insert} is sound given C01_no_dangling (Box address stable, no removal through &self)"],
        "assumptions": ["each of AssetMap::{get,insert,contains_key} is one atomic step (skeleton theorems: whole body inside one lock scope)", "Box<CacheEntry> keeps its address when the HashMap grows"],
    },
    "C02": {
        "modules": ["AmVerif.Props.C02"],
        "engines": [{"name": "cache", "quick": 150, "thorough": 5000},
                    {"name": "cache", "tag": "cache-3cpus", "quick": 40, "thorough": 1000, "cpus": 3}],
        "rule": "random operation sequences (5-60 ops) over load / load_owned / get_cached / get_or_insert / contains / remove / take / clear / directory loads on all front-ends (AssetCache, LocalAssetCache, AnyCache views; with reloader, without_hot_reloading, source without hot-reloading support), ids drawn 80% from a 7-id tree whose script assets load / look up / load_owned each other (nested, failing, panicking loads), a malformed stream (absent ids, empty id, unicode, spaces, 70-char ids, wrong type for id); every 7th case is a seeded slice of the bounded-exhaustive enumeration of all length-3 sequences over 2 ids x 2 types x 8 ops; second run under taskset with 3 CPUs (different shard count); oracle = C02's statement on snapshots of the whole key universe after every op; non-trivial = executed a cache op; distinct = distinct transcripts",
        "trusted": COMMON_TRUSTED + MODEL_TRUSTED,
        "assumptions": ["std HashMap behaves as a map (keep-first association list in the model)", "loaders are deterministic"],
    },
    "C03": {
        "modules": ["AmVerif.Props.C03"],
        "engines": [{"name": "load", "quick": 45, "thorough": 1500}],
        "rule": "cases 0-11 enumerate, for each of the 12 asset types M<e,d> (6 extension lists incl. [] and [\"\"], default_value present or not), EVERY assignment of {absent, unreadable(kind), undecodable, ok} to the declared extensions, each followed by contains / get_cached / repair / retry; later cases: random blocks with odd ids (root, nested, unicode, spaces), compounds nested 1-4 deep over failing assets (error wrapping), source-read faults at each read index; contents delivered as Buffer / Owned / Slice; non-trivial = at least one load executed; distinct = distinct op/result transcripts",
        "trusted": COMMON_TRUSTED + MODEL_TRUSTED + ["not modelled: FileContent::with_cow (three variants hand over the same bytes) — exercised by the correspondence only"],
        "assumptions": ["loaders are deterministic functions of the bytes and extension they are handed"],
    },
    "C18": {
        "modules": ["AmVerif.Props.C18"],
        "engines": [{"name": "rid", "quick": 60, "thorough": 2000}],
        "rule": "cases 0-2 enumerate all (stored, offered) pairs over 9 boundary values for ReloadId::update and every AtomicReloadId op, and all length-3 update sequences over 4 values; later cases alternate random op sequences and free-running concurrent update() calls from 2-6 threads (validated against the linearisation model); a case is non-trivial when it executes at least one op; distinct = distinct op/result transcripts",
        "trusted": COMMON_TRUSTED + [
            "modelled, not verified: usize as unbounded Nat (no wrap-around), std::sync::atomic primitives as single sequentially-consistent steps",
        ],
        "assumptions": [
            "AtomicUsize::{load,store,swap,fetch_add,fetch_max} are indivisible and sequentially consistent per location",
            "the reload counter never wraps (2^64 reloads)",
        ],
    },
}
