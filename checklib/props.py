"""Per-property configuration of `check`.

modules : Lean modules holding the property's theorems (every `theorem` in them is an obligation
          and is axiom-audited);
engines : correspondence engines of the harness with the number of fresh cases per tier;
trusted / assumptions / rule : copied into the evidence file.
"""

COMMON_TRUSTED = [
    "amx (syn-based extractor /verif/amx): regenerates lean/AmVerif/Gen/*.lean from /repo's source on every run",
    "amh + check (harness, canonicalisation, differ, oracle) — /verif/harness, /verif/check",
]

PROPS = {
    "C17": {
        "modules": ["AmVerif.Props.C17", "AmVerif.Lemmas.Cell", "AmVerif.Lemmas.CellStep", "AmVerif.Lemmas.CellFail", "AmVerif.Lemmas.CellLive"],
        "engines": [{"name": "cell", "quick": 400, "thorough": 4000}],
        "rule": "case 0 enumerates every call sequence of length 3 over {get, init-ok, init-err, init-panic} for the three seed kinds (no destructor / recorded destructor / panicking destructor) with the observable state after each call and the ledger at drop; case 1 every pair of single-call free-running threads per kind; case 2 every (held initialiser outcome x other call) forced overlap per kind plus the malformed op lines; later cases alternate random sequential cell lives, free-running 2-5 thread call lists (each distinct observed outcome validated: some schedule of the model must explain it) and forced overlaps (first initialiser parked inside the once-closure while get and the other calls are issued); a case is non-trivial when it performs at least one call on a cell; distinct = distinct op/result transcripts",
        "trusted": COMMON_TRUSTED + [
            "modelled, not verified: once_cell::sync::OnceCell<()> (at most one closure runs at a time, other callers block until it returned, Err / panic leaves it empty, Ok makes it initialised for good; get never blocks), Rust's unwinding and scope-exit drop order for the locals of get_or_try_init_*, one statement of the function body = one atomic step under sequential consistency",
            "amx recognises the statements of src/utils/cell.rs by exact form; the meaning of each statement token is hand-written in Model/Cell.lean",
        ],
        "assumptions": [
            "once_cell::sync::OnceCell behaves as documented (DESIGN 4.2)",
            "the initialiser is not re-entrant on the same cell (documented as unspecified by the crate)",
            "Drop of the cell runs with no call in flight (guaranteed by &mut self)",
        ],
    },
    "C18": {
        "modules": ["AmVerif.Props.C18"],
        "engines": [{"name": "rid", "quick": 60, "thorough": 2000}],
        "rule": "cases 0-2 enumerate all (stored, offered) pairs over 9 boundary values for ReloadId::update and every AtomicReloadId op, and all length-3 update sequences over 4 values; later cases alternate random op sequences and free-running concurrent update() calls from 2-6 threads (validated against the linearisation model); a case is non-trivial when it executes at least one op; distinct = distinct op/result transcripts",
        "trusted": COMMON_TRUSTED + [
            "modelled, not verified: usize as unbounded Nat (no wrap-around), std::sync::atomic primitives as single sequentially-consistent steps",
        ],
        "assumptions": [
            "AtomicUsize::{load,store,swap,fetch_add,fetch_max} are indivisible and sequentially consistent per location",
            "the reload counter never wraps (2^64 reloads)",
        ],
    },
}
