"""Per-property configuration of `check`.

modules : Lean modules holding the property's theorems (every `theorem` in them is an obligation
          and is axiom-audited);
engines : correspondence engines of the harness with the number of fresh cases per tier;
trusted / assumptions / rule : copied into the evidence file.
"""

COMMON_TRUSTED = [
    "amx (syn-based extractor /verif/amx): regenerates lean/AmVerif/Gen/*.lean from /repo's source on every run",
    "amh + check (harness, canonicalisation, differ, oracle) — /verif/harness, /verif/check",
]

PROPS = {
    "C18": {
        "modules": ["AmVerif.Props.C18"],
        "engines": [{"name": "rid", "quick": 60, "thorough": 2000}],
        "rule": "cases 0-2 enumerate all (stored, offered) pairs over 9 boundary values for ReloadId::update and every AtomicReloadId op, and all length-3 update sequences over 4 values; later cases alternate random op sequences and free-running concurrent update() calls from 2-6 threads (validated against the linearisation model); a case is non-trivial when it executes at least one op; distinct = distinct op/result transcripts",
        "trusted": COMMON_TRUSTED + [
            "modelled, not verified: usize as unbounded Nat (no wrap-around), std::sync::atomic primitives as single sequentially-consistent steps",
        ],
        "assumptions": [
            "AtomicUsize::{load,store,swap,fetch_add,fetch_max} are indivisible and sequentially consistent per location",
            "the reload counter never wraps (2^64 reloads)",
        ],
    },
    "C12": {
        "modules": ["AmVerif.Props.C12"],
        "engines": [{"name": "watch", "quick": 120, "thorough": 1500}],
        "rule": "cases 0-5: one per notification kind (create, modify, rename, delete, any, access), every valid entry up to depth 3 (root, dir, file with / without extension, non-ASCII) spelled plainly and with three `.` / `zz/..` detour patterns; case 6: three roots (disjoint, nested, dotted name) x all kinds x depth<=2; case 7: raw id_of_path / events over 12 not-expressible names (dotted, hidden, non-UTF-8, `..`) as inner and last component, paths at / above / beside the root, relative and literal roots; case 8: path_of over valid and odd ids and back; case 9: disconnected channel; later cases random mixes (60% scenarios, raw events, raw ids, path_of, Err events, receiver drop); thorough: every 8th case is a real create/modify/rename/delete history under the real FsWatcherBuilder with sentinel barriers. A case is non-trivial when it ran at least one id_of_path / event / path_of; distinct = distinct op transcripts",
        "trusted": COMMON_TRUSTED + [
            "modelled, not verified: std::path::Path::components() (the harness tokenises every path with it; parent / strip_prefix / file_name / file_stem / extension / == are re-implemented on component lists in the model), notify (event delivery; events are synthesised except in the real-watcher cases), the OS file system (is_dir is a parameter of the model, read from the real file system by the harness when the event is handled), crossbeam channel (connected / disconnected)",
        ],
        "assumptions": [
            "std::path parses a path into the component list the harness reports; Normal components are never empty, `.` or `..`",
            "ids and extensions contain no path separator or NUL (path_of_entry is not modelled otherwise)",
            "inotify delivers events in the order the operations happened (sentinel technique, real-watcher cases only)",
        ],
    },
}
