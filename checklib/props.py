"""Per-property configuration of `check`.

modules : Lean modules holding the property's theorems (every `theorem` in them is an obligation
          and is axiom-audited);
engines : correspondence engines of the harness with the number of fresh cases per tier;
trusted / assumptions / rule : copied into the evidence file.
"""

COMMON_TRUSTED = [
    "amx (syn-based extractor /verif/amx): regenerates lean/AmVerif/Gen/*.lean from /repo's source on every run",
    "amh + check (harness, canonicalisation, differ, oracle) — /verif/harness, /verif/check",
]

MODEL_TRUSTED = [
    "modelled, not verified: std HashMap as a keep-first association list; Box address stability (addr is a field of the cell); user loaders as deterministic Prog terms; the harness's MemSource as Model/MemSource.lean",
]

PROPS = {
    "C03": {
        "modules": ["AmVerif.Props.C03"],
        "engines": [{"name": "load", "quick": 45, "thorough": 1500}],
        "rule": "cases 0-11 enumerate, for each of the 12 asset types M<e,d> (6 extension lists incl. [] and [\"\"], default_value present or not), EVERY assignment of {absent, unreadable(kind), undecodable, ok} to the declared extensions, each followed by contains / get_cached / repair / retry; later cases: random blocks with odd ids (root, nested, unicode, spaces), compounds nested 1-4 deep over failing assets (error wrapping), source-read faults at each read index; contents delivered as Buffer / Owned / Slice; non-trivial = at least one load executed; distinct = distinct op/result transcripts",
        "trusted": COMMON_TRUSTED + MODEL_TRUSTED + ["not modelled: FileContent::with_cow (three variants hand over the same bytes) — exercised by the correspondence only"],
        "assumptions": ["loaders are deterministic functions of the bytes and extension they are handed"],
    },
    "C18": {
        "modules": ["AmVerif.Props.C18"],
        "engines": [{"name": "rid", "quick": 60, "thorough": 2000}],
        "rule": "cases 0-2 enumerate all (stored, offered) pairs over 9 boundary values for ReloadId::update and every AtomicReloadId op, and all length-3 update sequences over 4 values; later cases alternate random op sequences and free-running concurrent update() calls from 2-6 threads (validated against the linearisation model); a case is non-trivial when it executes at least one op; distinct = distinct op/result transcripts",
        "trusted": COMMON_TRUSTED + [
            "modelled, not verified: usize as unbounded Nat (no wrap-around), std::sync::atomic primitives as single sequentially-consistent steps",
        ],
        "assumptions": [
            "AtomicUsize::{load,store,swap,fetch_add,fetch_max} are indivisible and sequentially consistent per location",
            "the reload counter never wraps (2^64 reloads)",
        ],
    },
}
