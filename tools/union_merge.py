#!/usr/bin/env python3
"""Resolve additive merge conflicts by keeping both sides (ours first)."""
import re, sys
for p in sys.argv[1:]:
    s = open(p).read()
    s = re.sub(r"<<<<<<< [^\n]*\n(.*?)=======\n(.*?)>>>>>>> [^\n]*\n", lambda m: m.group(1) + m.group(2), s, flags=re.S)
    open(p, "w").write(s)
