#!/usr/bin/env python3
"""Prints the per-property status table (markdown) from checklib/props.d and evidence/*.json, and the seeded-change table
from seeded/*/meta.json. Used to refresh the tables in DESIGN.md."""
import json, sys, glob, os
sys.path.insert(0, '/verif/checklib')
from props import PROPS, META
print("| id | theorems (audited) | engines (quick cases) | technique |")
print("|---|---|---|---|")
for pid in sorted(PROPS):
    ev = {}
    try: ev = json.load(open(f'/verif/evidence/{pid}.json'))
    except Exception: pass
    cov = ev.get('coverage', {})
    engs = ", ".join(f"{e.get('tag', e['name'])} ({e['quick']})" for e in PROPS[pid]['engines'])
    print(f"| {pid} | {cov.get('discharged','?')}/{cov.get('obligations','?')} | {engs} | {META[pid]['technique']} |")
print()
n_all = n_caught = n_conc = 0
print("| seeded change | what it does | needs | caught by | concrete input |")
print("|---|---|---|---|---|")
for d in sorted(glob.glob('/verif/seeded/*/meta.json')):
    m = json.load(open(d)); name = os.path.basename(os.path.dirname(d))
    cr = m.get('check_result', {})
    lines = cr.get('lines', [])
    caught = cr.get('caught')
    how = "NEEDS-PORT" if 'note' in cr else ("`./check %s`" % m['property'] if caught else "**missed** by `./check %s`" % m['property'])
    conc = "yes" if cr.get('with_concrete_input') else ("—" if not caught else "no (broken obligation only)")
    if m.get('moot_after_fix') and not caught:
        how = "not a violation any more (%s); `./check %s` rightly quiet" % (m['moot_after_fix']['fix'].split(' ')[0], m['property']); conc = "n/a"
    n_all += 1; n_caught += 1 if caught else 0; n_conc += 1 if cr.get('with_concrete_input') else 0
    port = " (ported)" if m.get('patch_used_for_check') == 'patch.ported.diff' else ""
    print(f"| {name}{port} | {(m.get('summary') or '')[:110].replace('|','/')} | {(m.get('needs_to_manifest') or '')[:90].replace('|','/')} | {how} | {conc} |")
print()
print(f"{n_all} seeded changes: {n_caught} reported by the check of their property, {n_conc} of them with a concrete failing input.")
