#!/usr/bin/env python3
"""Pretty-print one case of an engine run directory (decodes hex arguments). tools/showcase.py DIR CASE [--all]"""
import re, sys
d, n = sys.argv[1], sys.argv[2]
def unhex(h): return bytes.fromhex(h).decode('utf8', 'replace')
def pretty(line):
    out = []
    for x in line.split():
        parts = re.split(r'([:,/=@])', x)
        dec = []
        for p in parts:
            if re.fullmatch(r'[0-9a-f]{2,}', p) and len(p) % 2 == 0 and not re.fullmatch(r'\d{1,3}', p):
                try: dec.append('"' + unhex(p) + '"'); continue
                except Exception: pass
            dec.append(p)
        out.append(''.join(dec))
    return ' '.join(out)
ops = open(f'{d}/ops.txt').read().split('\n'); imp = open(f'{d}/impl.txt').read().split('\n')
s = ops.index(f'case {n}')
i = s
while ops[i] != 'end':
    print(pretty(ops[i])[:160], ' => ', pretty(imp[i])[:260]); i += 1
print('\n'.join(l for l in open(f'{d}/oracle.txt') if l.startswith(f'case {n} ')))
