#!/usr/bin/env python3
"""Resolve the additive conflicts a builder branch leaves in the three registry files."""
import re, sys
CONF = re.compile(r"<<<<<<< [^\n]*\n(.*?)=======\n(.*?)>>>>>>> [^\n]*\n", re.S)

def fix_main_rs(p):
    s = open(p).read()
    def r(m):
        ours, theirs = m.group(1), m.group(2)
        if ours.lstrip().startswith("mod "):
            new = [l for l in theirs.splitlines() if l.strip() and l not in ours]
            return ours + "".join(l + "\n" for l in new)
        # engines(): ours is the push-list; add a push per engine of theirs that we do not have
        engs = re.findall(r"Box::new\((eng_\w+::\w+)::default\(\)\)", theirs)
        add = "".join(f"    v.push(Box::new({e}::default()));\n" for e in engs if e not in ours)
        return ours.replace("    v\n", add + "    v\n")
    open(p, "w").write(CONF.sub(r, s))

def fix_driver(p):
    s = open(p).read()
    def r(m):
        ours, theirs = m.group(1), m.group(2)
        if "else" in ours and "Driver.Cache.step" in ours:
            new = [l for l in theirs.split("    else (e, \"bad-op\")")[0].splitlines(True)]
            new = "".join(new)
            head, tail = ours.rsplit("    else\n", 1)
            return head + new + "    else\n" + tail
        new = [l for l in theirs.splitlines() if l.strip() and l not in ours]
        return ours + "".join(l + "\n" for l in new)
    open(p, "w").write(CONF.sub(r, s))

def union(p):
    s = open(p).read()
    def r(m):
        ours, theirs = m.group(1), m.group(2)
        new = [l for l in theirs.splitlines() if l.strip() and l not in ours]
        return ours + "".join(l + "\n" for l in new)
    open(p, "w").write(CONF.sub(r, s))

fix_main_rs("harness/src/main.rs")
fix_driver("lean/Driver/Main.lean")
union("lean/AmVerif.lean")
