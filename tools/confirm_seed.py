#!/usr/bin/env python3
"""Developer tool (not a registered command): confirm a seeded mutation in its scratch worktree and
file it under /verif/seeded/<ID>-<x>/.

  tools/confirm_seed.py C18 a      # uses /tmp/mut/C18 (worktree) and /tmp/mut/out/C18/a (agent output)

Confirms: patch applies; crate builds; pinned suite passes with the patch; the demonstration passes
without the patch and fails with it. Then runs ./check <ID> against /repo with the patch applied
(and undoes it) and records everything in meta.json.
"""
import json, os, shutil, subprocess, sys, time
from pathlib import Path

pid, x = sys.argv[1], sys.argv[2]
run_check = "--no-check" not in sys.argv
wt = Path(f"/tmp/mut/{pid}")
src = Path(f"/tmp/mut/out/{pid}/{x}")
dst = Path(f"/verif/seeded/{pid}-{x}")
FEATS = "hot-reloading,zip,zip-deflate,tar,embedded,utils"
env = dict(os.environ, CARGO_NET_OFFLINE="true", CARGO_TARGET_DIR=str(wt / "target"))


def sh(cmd, cwd=wt, timeout=1800):
    t = time.time()
    try:
        p = subprocess.run(cmd, cwd=cwd, env=env, shell=True, stdout=subprocess.PIPE, stderr=subprocess.STDOUT, text=True, timeout=timeout)
        return p.returncode, p.stdout, time.time() - t
    except subprocess.TimeoutExpired as e:
        return 124, (e.stdout or b"").decode(errors="replace") if isinstance(e.stdout, bytes) else (e.stdout or ""), time.time() - t


def passed_count(out):
    import re
    return sum(int(m) for m in re.findall(r"test result: ok\. (\d+) passed", out)), len(re.findall(r"test result: FAILED", out))


# demos may need extra cargo features (recorded by the agent in meta.json, e.g. parking_lot)
try:
    _am = json.loads((src / "meta.json").read_text())
    _need = str(_am.get("features_needed_for_demo", ""))
    for extra in ["parking_lot"]:
        if extra in _need and extra not in FEATS.split(","):
            FEATS += "," + extra
except Exception:
    pass
check_only = "--check-only" in sys.argv
res = {}
if not check_only:
  sh("git checkout -- . && rm -rf tests/verif_demo.rs")
  (wt / "tests").mkdir(exist_ok=True)
  shutil.copy(src / "demo.rs", wt / "tests" / "verif_demo.rs")
  rc, out, t = sh(f"cargo test --offline --features {FEATS} --test verif_demo -- --test-threads 1", timeout=900)
  res["demo_without_patch"] = {"rc": rc, "wall_s": round(t, 1), "tail": out[-600:]}
  rc, out, t = sh(f"git apply {src/'patch.diff'}")
  res["apply"] = rc
  rc, out, t = sh("cargo test --workspace --offline --lib --no-fail-fast 2>&1 | tail -15")
  res["pinned_suite_with_patch"] = {"rc": rc, "passed_failed": passed_count(out), "tail": out[-400:]}
  rc, out, t = sh(f"cargo build --offline --features {FEATS} 2>&1 | tail -3")
  res["feature_build_with_patch"] = rc
  rc, out, t = sh(f"cargo test --offline --features {FEATS} --test verif_demo -- --test-threads 1", timeout=900)
  res["demo_with_patch"] = {"rc": rc, "wall_s": round(t, 1), "tail": out[-1200:]}
  sh("git checkout -- . && rm -rf tests")

  ok = (res["demo_without_patch"]["rc"] == 0 and res["apply"] == 0 and res["pinned_suite_with_patch"]["passed_failed"][0] >= 30
        and res["pinned_suite_with_patch"]["passed_failed"][1] == 0 and res["feature_build_with_patch"] == 0 and res["demo_with_patch"]["rc"] != 0)
  res["confirmed"] = ok
  print(json.dumps({k: (v if not isinstance(v, dict) else {kk: vv for kk, vv in v.items() if kk != "tail"}) for k, v in res.items()}, indent=1))
  if not ok:
      print("NOT CONFIRMED", pid, x)
      print(res["demo_without_patch"]["tail"][-500:]); print(res["demo_with_patch"]["tail"][-500:])
      sys.exit(1)

if check_only:
    # re-run only the check against the filed seed (regression run of the whole collection): keep everything else of meta.json
    meta = json.loads((dst / "meta.json").read_text())
    for k in ("moot_after_fix",):
        pass
else:
  dst.mkdir(parents=True, exist_ok=True)
  shutil.copy(src / "patch.diff", dst / "patch.diff")
  shutil.copy(src / "demo.rs", dst / "demo.rs")
  agent_meta = json.loads((src / "meta.json").read_text())
  meta = {"property": pid, "variant": x,
          "summary": agent_meta.get("summary"), "why_it_breaks": agent_meta.get("why_it_breaks"),
          "needs_to_manifest": agent_meta.get("needs_to_manifest"), "features_needed_for_demo": agent_meta.get("features_needed_for_demo"),
          "confirmed_by": {"what_was_run": [
              f"cargo test --offline --features {FEATS} --test verif_demo (demo, without patch) -> rc {res['demo_without_patch']['rc']}",
              f"git apply patch.diff; cargo test --workspace --offline --lib -> {res['pinned_suite_with_patch']['passed_failed']} (passed, failed suites)",
              f"cargo build --offline --features {FEATS} -> rc {res['feature_build_with_patch']}",
              f"demo with patch -> rc {res['demo_with_patch']['rc']}"],
              "demo_failure_tail": res["demo_with_patch"]["tail"][-500:]}}
if run_check:
    # the checks run against a scratch clone of /repo's HEAD with the patch applied (VERIF_REPO), so that /repo's
    # working tree is never disturbed while other work uses it
    seedrepo = "/tmp/seedrepo"
    if not Path(seedrepo).exists():
        subprocess.run(["git", "clone", "-q", "/repo", seedrepo], check=True)
    subprocess.run(f"git -C {seedrepo} fetch -q /repo HEAD && git -C {seedrepo} reset -q --hard FETCH_HEAD && git -C {seedrepo} clean -qfd", shell=True, check=True)
    # the patch was written against the pinned commit; /repo has since received `fix:` commits. If it no longer applies,
    # a hand-ported equivalent (seeded/<id>/patch.ported.diff, same mutation on the repaired code) is used when present.
    ported = dst / "patch.ported.diff"
    use = ported if ported.exists() else dst / "patch.diff"
    ap = subprocess.run(["git", "-C", seedrepo, "apply", str(use)], stdout=subprocess.PIPE, stderr=subprocess.STDOUT, text=True)
    meta["applies_to_current_head"] = ap.returncode == 0
    meta["patch_used_for_check"] = use.name
    if ap.returncode != 0:
        meta["check_result"] = {"note": "patch.diff does not apply to the repaired /repo HEAD; needs a hand-ported patch.ported.diff", "git_apply": ap.stdout[-400:]}
        (dst / "meta.json").write_text(json.dumps(meta, indent=1))
        print("NEEDS-PORT", pid, x)
        sys.exit(0)
    try:
        p = subprocess.run(["./check", pid, "--tier", "quick"], cwd="/verif", env=dict(os.environ, VERIF_REPO=seedrepo), stdout=subprocess.PIPE, stderr=subprocess.STDOUT, text=True, timeout=3000)
        lines = [l for l in p.stdout.splitlines() if l.startswith(("VIOLATION", "KNOWN", "OK"))]
        meta["check_result"] = {"cmd": f"VERIF_REPO=<clone of /repo HEAD + patch.diff> ./check {pid} --tier quick", "rc": p.returncode, "lines": lines,
                                "caught": p.returncode == 1, "with_concrete_input": any(l.startswith("VIOLATION") and "no-failing-input-found" not in l for l in lines)}
        # keep one replay for the record
        for l in lines:
            if l.startswith("VIOLATION"):
                rp = l.split("replay=")[1].split()[0]
                try:
                    meta["check_result"]["first_replay"] = json.loads(Path(rp).read_text())
                except Exception:
                    pass
                break
    finally:
        subprocess.run(f"git -C {seedrepo} reset -q --hard && git -C {seedrepo} clean -qfd", shell=True, check=True)
(dst / "meta.json").write_text(json.dumps(meta, indent=1))
print("CONFIRMED", pid, x, meta.get("check_result", {}).get("lines"))
