-- Root of the `AmVerif` library: models, generated definitions, property theorems, audit.
import AmVerif.Props.C18
import AmVerif.Props.C03
import AmVerif.Props.C02
import AmVerif.Props.C01
import AmVerif.Props.C16
import AmVerif.Props.C12
import AmVerif.Props.C04
import AmVerif.Props.C11
import AmVerif.Props.C05
import AmVerif.Props.C17
-- AmVerif.Props.C08 / AmVerif.Props.C15: import here once the `fix:` commits F-C08a/b, F-C09, F-C15 are in /repo. Their `*_cfg_*`
-- theorems are false of the defective source on purpose, which would make `./check setup` fail; `./check C08|C15` builds them directly.
