-- Root of the `AmVerif` library: models, generated definitions, property theorems, audit.
import AmVerif.Props.C18
import AmVerif.Props.C17
