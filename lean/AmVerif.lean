-- Root of the `AmVerif` library: models, generated definitions, property theorems, audit.
import AmVerif.Props.C18
import AmVerif.Props.C03
import AmVerif.Props.C02
import AmVerif.Props.C01
import AmVerif.Props.C16
import AmVerif.Props.C12
import AmVerif.Props.C04
import AmVerif.Props.C11
import AmVerif.Props.C05
import AmVerif.Props.C17
import AmVerif.Props.C08
import AmVerif.Props.C15
import AmVerif.Props.C09
