import Driver.Loop
import Driver.Rid
/-! `amdrv-rid`: the model driver of one engine family (a refused extraction elsewhere does not take it down). -/
def main : IO Unit := Driver.run ({} : Driver.Rid.St) Driver.Rid.step
