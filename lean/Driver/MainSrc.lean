import Driver.Loop
import Driver.Src
/-! `amdrv-src`: the model driver of one engine family (a refused extraction elsewhere does not take it down). -/
def main : IO Unit := Driver.run ({} : Driver.Src.St) Driver.Src.stepAll
