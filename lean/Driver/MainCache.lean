import Driver.Loop
import Driver.Cache
/-! `amdrv-cache`: the model driver of one engine family (a refused extraction elsewhere does not take it down). -/
def main : IO Unit := Driver.run ({} : Driver.Cache.St) Driver.Cache.step
