import AmVerif.Model.Bytes
import Driver.Util
/-! Engine `bytes` (C16): buffers built through every public path, forced schedules of
clone / deref / move / drop over named threads, comparison / hash, `SharedString` construction. -/
namespace Driver.Bytes
open AmVerif.Model AmVerif.Model.Bytes AmVerif.Gen Driver

structure St where
  bufs : List (String × Sys) := []

def parsePath : String → Option BytesSrc
  | "slice" => some .slice | "vec" => some .vec | "boxed" => some .boxed
  | "cowb" => some .cowBorrowed | "cowo" => some .cowOwned | "iter" => some .iter
  | _ => none

def showLayout (l : Layout) : String := s!"{l.size}/{l.align}"

def showBlocks (o : Obj) : String :=
  s!"hdr={showLayout o.hdrLayout} vec={if o.vecLive then toString o.vecCap else "-"}"

def showOrd : Ordering → String
  | .lt => "lt" | .eq => "eq" | .gt => "gt"

def showTok : HashTok → String
  | .lenPrefix n => s!"len:{n}"
  | .bytes b => s!"bytes:{hex b}"
  | .u8 b => s!"u8:{b}"

def setBuf (st : St) (b : String) (s : Sys) : St :=
  { st with bufs := (b, s) :: st.bufs.filter (·.1 != b) }

def mstep := AmVerif.Model.Bytes.step
def mrun := AmVerif.Model.Bytes.run

def showFaults (o : Obj) : String :=
  if o.faults.isEmpty then "" else " FAULT:" ++ String.intercalate "," (o.faults.map fun f => reprStr f)

/-- `drop` as the implementation performs it: the decrement and, if it was the last, the whole of
`drop_slow` (three model steps) — reports what was freed. -/
def dropAll (s : Sys) (h : Nat) : Sys × String :=
  match ownerOf s h with
  | none => (s, "no-handle")
  | some t =>
    let s1 := mstep s (.drop h)
    if s1.slow.any (·.1 == t) then
      let s2 := mrun s1 [.cont t, .cont t, .cont t]
      let o := s2.obj
      let hdr := if o.hdrFrees > s.obj.hdrFrees then showLayout o.hdrLayout else "-"
      let vec := if o.vecFrees > s.obj.vecFrees then toString o.vecCap else "-"
      (s2, s!"freed hdr={hdr} vec={vec}{showFaults o}")
    else (s1, s!"kept{showFaults s1.obj}")

def derefOf (st : St) (b : String) (h : String) : Option (List Byte) := do
  let s ← st.bufs.lookup b
  let hn ← h.toNat?
  if hasHandle s hn then s.obj.deref else none

def strKinds : List String :=
  ["from_utf8", "from_str", "from_string", "cow_b", "cow_o", "loader_b", "loader_o",
   "de_str", "de_string", "de_bytes", "de_bytebuf"]

/-- kinds whose input type is `&str` / `String`: the harness cannot even build invalid input -/
def strTyped : List String := ["from_str", "from_string", "cow_b", "cow_o", "de_str", "de_string"]

def step (st : St) : List String → St × String
  | ["by.new", b, path, cap, content] =>
    match parsePath path, cap.toNat?, unhex content with
    | some p, some c, some src =>
      match construct p c src with
      | none => (st, "panic")
      | some o =>
        let s := init o 0
        (setBuf st b s, s!"ok {match o.deref with | some d => hex d | none => "!"} {showBlocks o}")
    | _, _, _ => (st, "bad-op")
  | ["by.clone", b, h, t] =>
    match st.bufs.lookup b, h.toNat?, t.toNat? with
    | some s, some hn, some tn =>
      if hasHandle s hn then
        let s' := mstep s (.clone hn tn)
        (setBuf st b s', s!"ok {s.next}{showFaults s'.obj}")
      else (st, "no-handle")
    | _, _, _ => (st, "bad-op")
  | ["by.deref", b, h, t] =>
    match st.bufs.lookup b, h.toNat?, t.toNat? with
    | some s, some hn, some tn =>
      if hasHandle s hn then
        let s' := mstep s (.deref hn tn)
        (setBuf st b s', match s'.reads.head? with | some (some d) => hex d | _ => "freed!")
      else (st, "no-handle")
    | _, _, _ => (st, "bad-op")
  | ["by.move", b, h, t] =>
    match st.bufs.lookup b, h.toNat?, t.toNat? with
    | some s, some hn, some tn =>
      if hasHandle s hn then (setBuf st b (mstep s (.move hn tn)), "ok") else (st, "no-handle")
    | _, _, _ => (st, "bad-op")
  | ["by.drop", b, h] =>
    match st.bufs.lookup b, h.toNat? with
    | some s, some hn => let (s', o) := dropAll s hn; (setBuf st b s', o)
    | _, _ => (st, "bad-op")
  | ["by.cmp", b1, h1, b2, h2] =>
    match derefOf st b1 h1, derefOf st b2 h2 with
    | some x, some y => (st, s!"eq={showBool (decide (x = y))} cmp={showOrd (lexCmp x y)}")
    | _, _ => (st, "no-handle")
  | ["by.hash", b, h] =>
    match derefOf st b h with
    | some x => (st, " ".intercalate ((hashSlice x).map showTok))
    | none => (st, "no-handle")
  | ["by.live"] =>
    (st, toString ((st.bufs.map fun p => (if p.2.obj.hdrLive then 1 else 0) + (if p.2.obj.vecLive then 1 else 0)).sum))
  | ["by.final", path, cap, content] =>
    -- outcome of ANY complete execution (theorem `C16_freed_once_after_last`): run the shortest one
    match parsePath path, cap.toNat?, unhex content with
    | some p, some c, some src =>
      match construct p c src with
      | none => (st, "panic")
      | some o => (st, (dropAll (init o 0) 0).2)
    | _, _, _ => (st, "bad-op")
  | ["by.str", kind, content] =>
    match unhex content with
    | none => (st, "bad-op")
    | some b =>
      if !strKinds.contains kind then (st, "bad-op") else
      match fromUtf8 b with
      | some s => (st, s!"ok {hex s}")
      | none =>
        if strTyped.contains kind then (st, "bad-op")
        else if kind == "from_utf8" then (st, s!"err {validUpTo b}") else (st, "err")
  | ["by.scmp", x, y] =>
    match (unhex x).bind fromUtf8, (unhex y).bind fromUtf8 with
    | some a, some b =>
      (st, s!"eq={showBool (decide (a = b))} cmp={showOrd (lexCmp a b)} hash={" ".intercalate ((hashStr a).map showTok)}")
    | _, _ => (st, "bad-op")
  | ["by.debytes", kind, content] =>
    -- serde `Deserialize for SharedBytes`: every `visit_*` wraps the bytes unchanged
    match unhex content with
    | none => (st, "bad-op")
    | some b =>
      if kind == "de_bytes" || kind == "de_bytebuf" then (st, s!"ok {hex b}")
      else if kind == "de_str" || kind == "de_string" then
        match fromUtf8 b with | some s => (st, s!"ok {hex s}") | none => (st, "bad-op")
      else (st, "bad-op")
  | _ => (st, "bad-op")

end Driver.Bytes
