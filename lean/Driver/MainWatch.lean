import Driver.Loop
import Driver.Watch
/-! `amdrv-watch`: the model driver of one engine family (a refused extraction elsewhere does not take it down). -/
def main : IO Unit := Driver.run ({} : Driver.Watch.St) Driver.Watch.step
