import Driver.Loop
import Driver.Reloader
/-! `amdrv-reloader`: engines `hrlive` / `idle` (C08 / C15). -/
def main : IO Unit := Driver.run () (fun _ ws => ((), Driver.Reloader.step ws))
