import AmVerif.Model.ReloaderFacts
import Driver.Util
/-! Engines `hrlive` (C08, ops `hr.*`) and `idle` (C15, ops `idle.*`): the model side.

The model is run with `genCfg`, the configuration computed from the skeletons regenerated from
today's source, so its predictions follow the source (defective or repaired). -/
namespace Driver.Reloader
open AmVerif.Model.Reloader Driver

def splitSlash : List String → List (List String)
  | [] => [[]]
  | "/" :: rest => [] :: splitSlash rest
  | w :: rest => match splitSlash rest with
    | g :: gs => (w :: g) :: gs
    | [] => [[w]]

def parseNats : List String → Option (List Nat)
  | [] => some []
  | w :: ws => do let n ← w.toNat?; let r ← parseNats ws; pure (n :: r)

def parseEdges : List String → Option (List (Nat × Nat))
  | [] => some []
  | w :: ws => do
    let e ← match w.splitOn ">" with
      | [a, b] => do pure ((← a.toNat?), (← b.toNat?))
      | _ => none
    let r ← parseEdges ws
    pure (e :: r)

/-- Nodes `0..n-1` are the assets, node `n+i` is the file of asset `i`. An edge `(i, j)` means "asset
`i` loads / looks up asset `j`", i.e. `i` is a reverse dependency of `j`. -/
def graphOf (n : Nat) (edges : List (Nat × Nat)) : Nat → Option (List Nat) := fun k =>
  if k < n then some ((edges.filter (·.2 == k)).map (·.1))
  else if k < 2 * n then some [k - n]
  else none

def showVerdictList (l : List Nat) : String :=
  if l.isEmpty then "-" else ",".intercalate ((l.mergeSort (· ≤ ·)).map toString)

/-- one `hot_reload` call whose update pass runs over the given graph -/
def update (n : Nat) (edges : List (Nat × Nat)) (changed pan : List Nat) : String :=
  let g := graphOf n edges
  let isAsset := fun k => decide (k < n)
  let fuel := 2 * n + 2
  let ch := changed.map (· + n)
  let u := updatePass g isAsset genCfg.marksFirst fuel ch (fun a => pan.contains a)
  let env : Env := ⟨genCfg.waitNotifies, genCfg.catchesPanic, fun _ => u⟩
  let s := run env (init 1) [.caller 0, .reloader, .reloader, .reloader, .caller 0]
  if s.r == .aborted then "aborted"
  else if deadlocked env s 1 then "blocked"
  else if allDone s 1 then
    match topo g isAsset genCfg.marksFirst fuel ch with
    | some o => s!"reloaded {showVerdictList o}"
    | none => "model-inconsistent"
  else "model-inconsistent"

/-- all callers send; the reloader answers call 0 and goes to sleep holding the answer to call 1;
call 0 consumes its answer; everybody else re-checks -/
def lostWakeupSchedule (t : Nat) : List Tid :=
  (List.range t).map .caller ++ List.replicate 6 .reloader ++ (List.range t).map .caller

def sequentialSchedule (t : Nat) : List Tid :=
  (List.range t).flatMap fun i => [.caller i, .reloader, .reloader, .reloader, .caller i]

/-- does some schedule of the model explain the observed outcome of `t` concurrent callers? -/
def conc (t : Nat) (outcome : String) : String :=
  let env : Env := ⟨genCfg.waitNotifies, genCfg.catchesPanic, fun _ => .ok⟩
  if outcome == "returned" then
    if allDone (run env (init t) (sequentialSchedule t)) t then "admissible" else "inadmissible"
  else if outcome == "blocked" then
    if deadlocked env (run env (init t) (lostWakeupSchedule t)) t then "admissible" else "inadmissible"
  else if outcome == "aborted" then "inadmissible"
  else "bad-op"

def showVerdict : Verdict → String
  | .exited => "exited" | .asleep => "asleep" | .spinning => "spinning"

def step (ws : List String) : String :=
  match ws with
  | "hr.update" :: nS :: rest =>
    match nS.toNat?, splitSlash rest with
    | some n, [es, cs, ps] =>
      match parseEdges es, parseNats cs, parseNats ps with
      | some edges, some changed, some pan =>
        if n == 0 || n > 64 then "bad-op"
        else if edges.all (fun e => e.1 < n && e.2 < n) && changed.all (· < n) && pan.all (· < n) then update n edges changed pan
        else "bad-op"
      | _, _, _ => "bad-op"
    | _, _ => "bad-op"
  | ["hr.bulk", nS] =>
    -- one caller; its update pass loads `n` never-cached assets: `send` never blocks in the model
    match nS.toNat? with
    | some n =>
      if n == 0 || n > 5000 then "bad-op" else
      let env : Env := ⟨genCfg.waitNotifies, genCfg.catchesPanic, fun _ => .ok⟩
      if allDone (run env (init 1) (sequentialSchedule 1)) 1 then s!"returned {n}" else "blocked"
    | none => "bad-op"
  | ["hr.fsodd", kS] =>
    -- `k` hot_reload() calls on a cache over a directory tree in which hidden entries keep appearing: every request is answered
    match kS.toNat? with
    | some k =>
      if k == 0 || k > 8 then "bad-op" else
      let env : Env := ⟨genCfg.waitNotifies, genCfg.catchesPanic, fun _ => .ok⟩
      if allDone (run env (init 1) (sequentialSchedule 1)) 1 then s!"returned {k}" else "blocked"
    | none => "bad-op"
  | ["hr.static", kS] =>
    -- `k` sequential hot_reload() calls by one caller on a cache in static mode: every request is answered
    match kS.toNat? with
    | some k =>
      if k == 0 || k > 64 then "bad-op" else
      let env : Env := ⟨genCfg.waitNotifies, genCfg.catchesPanic, fun _ => .ok⟩
      if allDone (run env (init 1) (sequentialSchedule 1)) 1 then s!"returned {k}" else "blocked"
    | none => "bad-op"
  | ["hr.conc", tS, _calls, _loaders, _events, outcome] =>
    match tS.toNat?, _calls.toNat?, _loaders.toNat?, _events.toNat? with
    | some t, some _, some _, some _ => if t == 0 || t > 64 then "bad-op" else conc t outcome
    | _, _, _, _ => "bad-op"
  | ["idle.rootgone", kS] =>
    -- hot-reloading cannot start (the source's directory is gone): no thread exists, nothing is left behind
    match kS.toNat? with
    | some k => if k == 0 || k > 16 then "bad-op" else "released"
    | none => "bad-op"
  | ["idle.run", kind, when_, kS, mS, eS] =>
    match kS.toNat?, mS.toNat?, eS.toNat? with
    | some k, some m, some ev =>
      if !(["mem-keep", "mem-nosender", "mem-neversender", "mem-latedrop", "fs"].contains kind) || !(["idle", "after-reload", "queued-events", "after-loads", "burst-then-reload"].contains when_) || k == 0 || k > 16 then "bad-op" else
      let evConn := kind == "mem-keep" || kind == "fs"
      let before := verdict genCfg.loop ⟨0, 0, true, evConn⟩
      let after := if before == .exited then .exited else verdict genCfg.loop ⟨m, ev, false, evConn⟩
      s!"before={showVerdict before} after={showVerdict after} left={if after == .exited then 0 else k}"
    | _, _, _ => "bad-op"
  | ["idle.prim", mS, eS, mcS, ecS] =>
    match mS.toNat?, eS.toNat?, parseBool? mcS, parseBool? ecS with
    | some m, some ev, some mc, some ec =>
      match iter genCfg.loop false ⟨m, ev, mc, ec⟩ with
      | .blocked => "blocked"
      | _ => "ready"
    | _, _, _, _ => "bad-op"
  | _ => "bad-op"

end Driver.Reloader
