/-! Line-protocol helpers for the model driver (core only). -/
namespace Driver

def hexDigit (c : Char) : Option Nat :=
  if '0' ≤ c ∧ c ≤ '9' then some (c.toNat - '0'.toNat)
  else if 'a' ≤ c ∧ c ≤ 'f' then some (c.toNat - 'a'.toNat + 10)
  else none

/-- Decode a hex string into bytes; `-` denotes the empty byte string. -/
def unhex (s : String) : Option (List UInt8) :=
  if s == "-" then some [] else
  let rec go : List Char → List UInt8 → Option (List UInt8)
    | [], acc => some acc.reverse
    | [_], _ => none
    | a :: b :: rest, acc =>
      match hexDigit a, hexDigit b with
      | some x, some y => go rest (UInt8.ofNat (16 * x + y) :: acc)
      | _, _ => none
  go s.toList []

def hexChar (n : Nat) : Char := if n < 10 then Char.ofNat (48 + n) else Char.ofNat (87 + n)

def hex (bs : List UInt8) : String :=
  if bs.isEmpty then "-" else
  String.ofList (bs.flatMap fun b => [hexChar (b.toNat / 16), hexChar (b.toNat % 16)])

/-- Decode a hex-encoded UTF-8 string. -/
def unhexStr (s : String) : Option String := do
  let bs ← unhex s
  String.fromUTF8? (ByteArray.mk bs.toArray)

def hexStr (s : String) : String := hex s.toUTF8.toList

def showBool (b : Bool) : String := if b then "true" else "false"

def parseBool? (s : String) : Option Bool :=
  if s == "true" then some true else if s == "false" then some false else none

def words (line : String) : List String :=
  (line.trimAscii.toString.splitOn " ").filter (· ≠ "")

end Driver
