import Driver.Util
import Driver.Rid
import Driver.Cache
import Driver.Bytes
import Driver.Watch
import Driver.Src
import Driver.Cell
import Driver.Reloader
import Driver.Iso
/-!
# amdrv — the model driver

One operation per input line, one canonical result line per operation. A case is
`case <n>` … `end`; all engine states are reset at `case`.
-/
open Driver

structure Engines where
  rid : Driver.Rid.St := {}
  cache : Driver.Cache.St := {}
  bytes : Driver.Bytes.St := {}
  watch : Driver.Watch.St := {}
  src : Driver.Src.St := {}
  cell : Driver.Cell.St := {}
  iso : Driver.Iso.St := {}

def dispatch (e : Engines) (ws : List String) : Engines × String :=
  match ws with
  | [] => (e, "bad-op")
  | w :: _ =>
    if w.startsWith "rid." || w.startsWith "at." then
      let (s, o) := Driver.Rid.step e.rid ws; ({ e with rid := s }, o)
    else if w == "conc.race" then (e, "one-handle")   -- C01_unique_handle / C01_one_winner: every interleaving
    else if w == "conc.keys" then (e, "distinct")     -- C01/C02: a key is the whole id and the type (oracle only; per-cache hash seeds)
    else if w == "conc.probe" then (e, "stable")      -- C01_presence_monotone
    else if w == "src.shortread" then (e, "same")     -- C03/C04/C16: a reader may return short reads; the member's bytes are what was packed (oracle only)
    else if w == "src.trunc" then (e, "err-or-refused") -- C03/C04: a truncated tar member is an error, never a prefix (oracle only)
    else if w == "src.embfix" then (e, "agree")       -- C04: the embed! macro's table against FileSystem over the same fixture (oracle only)
    else if w == "dir.cust" then (e, "agree")         -- C11: a custom DirLoadable and its Arc wrapper list alike (oracle against the tree)
    else if w == "hr.order" then (e, "kept")          -- C14/C05: a load's registration is taken before a later event (oracle only)
    else if w == "hr.cross" then (e, "isolated")      -- C14: loads through a second cache are not attributed (oracle only)
    else if w == "hr.rewire" then (e, "observed")     -- same ordering question for an already cached asset; oracle only
    else if w == "hr.newdep" then (e, "observed")     -- known finding F-C05d: the outcome depends on a hash-set order; oracle only
    else if w == "own.sizes" then (e, "intact")       -- C13: a reload swaps the whole value, whatever its size and alignment
    else if w == "by.iterlie" then (e, "same")        -- C16: the bytes are the iterator's items, whatever its size hint claims (oracle only)
    else if w.startsWith "by." then let (s, o) := Driver.Bytes.step e.bytes ws; ({ e with bytes := s }, o)
    else if w.startsWith "watch." then
      let (s, o) := Driver.Watch.step e.watch ws; ({ e with watch := s }, o)
    else if w.startsWith "hr." || w.startsWith "idle." then (e, Driver.Reloader.step ws)   -- C08 / C15
    else if w.startsWith "iso." then let (s, o) := Driver.Iso.step e.iso ws; ({ e with iso := s }, o)
    else if w.startsWith "s." then let (s, o) := Driver.Src.stepAll e.src ws; ({ e with src := s }, o)
    else if w.startsWith "cell." then let (s, o) := Driver.Cell.step e.cell ws; ({ e with cell := s }, o)
    else
      let (s, o) := Driver.Cache.step e.cache ws; ({ e with cache := s }, o)

partial def loop (h : IO.FS.Stream) (out : IO.FS.Stream) (e : Engines) : IO Unit := do
  let line ← h.getLine
  if line.isEmpty then return ()
  let ws := words line
  match ws with
  | [] => loop h out e
  | ["case", n] => out.putStrLn s!"case {n}"; loop h out {}
  | ["end"] => out.putStrLn "end"; loop h out e
  | _ =>
    let (e', o) := dispatch e ws
    out.putStrLn o
    loop h out e'

def main : IO Unit := do
  let out ← IO.getStdout
  loop (← IO.getStdin) out {}
  out.flush
