import AmVerif.Model.Rid
import Driver.Util
/-! Engine `rid` (C18): sequential ops on one `ReloadId` and one `AtomicReloadId`, and
validation of free-running concurrent observations against the linearisation model. -/
namespace Driver.Rid
open AmVerif.Model.Rid AmVerif.Gen Driver

structure St where
  rid : Nat := ReloadId_NEVER
  cell : Nat := AtomicReloadId_new

def showRet : Ret → String
  | .told b => showBool b
  | .prev n => toString n
  | .unit => "-"

def parsePairs : List String → Option (List (Nat × Bool))
  | [] => some []
  | a :: b :: rest => do
    let n ← a.toNat?
    let t ← parseBool? b
    let r ← parsePairs rest
    pure ((n, t) :: r)
  | _ => none

def step (s : St) : List String → St × String
  | ["rid.set", v] => match v.toNat? with
    | some n => ({ s with rid := n }, "ok")
    | none => (s, "bad-op")
  | ["rid.update", v] => match v.toNat? with
    | some n => let (r, b) := ReloadId_update s.rid n; ({ s with rid := r }, s!"{showBool b} {r}")
    | none => (s, "bad-op")
  | ["rid.never"] => (s, toString ReloadId_NEVER)
  | ["at.new"] => ({ s with cell := AtomicReloadId_new }, toString AtomicReloadId_new)
  | ["at.with", v] => match v.toNat? with
    | some n => ({ s with cell := AtomicReloadId_with_value n }, toString (AtomicReloadId_with_value n))
    | none => (s, "bad-op")
  | "at.conc" :: init :: final :: obs =>
    match init.toNat?, final.toNat?, parsePairs obs with
    | some i, some f, some o =>
      (s, if admitsLinearisation i f o then "lin-ok" else "lin-bad")
    | _, _, _ => (s, "bad-op")
  | [op, v] =>
    match v.toNat? with
    | none => (s, "bad-op")
    | some n =>
      let call? : Option Call := match op with
        | "at.update" => some (.update n) | "at.fetch_max" => some (.fetchMax n)
        | "at.swap" => some (.swap n) | "at.store" => some (.store n) | _ => none
      match call? with
      | none => (s, "bad-op")
      | some c => let (r, cell) := AmVerif.Model.Rid.step s.cell c; ({ s with cell }, s!"{showRet r} {cell}")
  | ["at.load"] => let (r, cell) := AmVerif.Model.Rid.step s.cell .load; ({ s with cell }, s!"{showRet r} {cell}")
  | _ => (s, "bad-op")

end Driver.Rid
