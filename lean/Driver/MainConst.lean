import Driver.Loop
/-! `amdrv-const`: engines whose lines are all oracle-only probes (`conc`). -/
def main : IO Unit := Driver.run () (fun _ _ => ((), "bad-op"))
