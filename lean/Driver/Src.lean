import AmVerif.Model.Source
import AmVerif.Gen.Archive
import Driver.Util
/-! Engines `src` (C04) and `dir` (C11): a tree, an archive member list, one opened source view,
probes (`read`, `read_dir`, `exists`) and directory-asset loads. Zip and tar are indexed with the
skeletons (`register_file`, `register_dir`, root registration) extracted from the current source,
the file system answers with the extracted kind tests (`Gen.Archive`). -/
namespace Driver.Src
open AmVerif.Model.Source AmVerif.Model.ArchiveSkel AmVerif.Gen.Archive Driver

structure St where
  tree : Tree := ⟨[], []⟩
  members : List Member := []
  view : Option View := none
  denied : List Id := []
  cached : List (List Name × Id) := []

def unhexName (s : String) : Option Name := (unhexStr s).map String.toList
def hexName (n : Name) : String := hexStr (String.ofList n)

def unhexNames : List String → Option (List Name)
  | [] => some []
  | a :: as => do
    let x ← unhexName a
    let xs ← unhexNames as
    pure (x :: xs)

def showErr : Err → String
  | .notFound => "err nf"
  | .isDir => "err isdir"
  | .notDir => "err notdir"
  | .other => "err other"

def showEntry : Entry → String
  | .file id ext => s!"f:{hexName id}:{hexName ext}"
  | .dir id => s!"d:{hexName id}"

def sortStrings (l : List String) : List String := (l.toArray.qsort (· < ·)).toList

/-- `sorted`: the order across sub-directories of a recursive listing is not constrained by the
property (it follows `read_dir`'s order), so both sides sort it. -/
def showIds (ids : List Id) (sorted : Bool := false) : String :=
  let l := ids.map hexName
  String.intercalate " " ("ok" :: (if sorted then sortStrings l else l))

def showLoaded : Option (Name × Bytes) → String
  | some (e, b) => s!"{hexName e}:{hex b}"
  | none => "err"

def curView (s : St) : Option View := s.view.map fun v => denyDirs v s.denied

def step (s : St) (ws : List String) : St × String :=
  match ws with
  | "s.dir" :: comps =>
    match unhexNames comps with
    | some q => if q.isEmpty then (s, "bad-op") else ({ s with tree := { s.tree with dirs := s.tree.dirs ++ [q] } }, "ok")
    | none => (s, "bad-op")
  | "s.file" :: ext :: bytes :: comps =>
    match unhexName ext, unhex bytes, unhexNames comps with
    | some e, some b, some cs =>
      match cs.getLast? with
      | none => (s, "bad-op")
      | some stem => ({ s with tree := { s.tree with files := s.tree.files ++ [{ dir := cs.dropLast, stem, ext := e, bytes := b }] } }, "ok")
    | _, _, _ => (s, "bad-op")
  | ["s.m", kind, path, bytes] =>
    match unhexName path, unhex bytes with
    | some p, some b =>
      if kind == "f" then ({ s with members := s.members ++ [Member.ofPath p true b] }, "ok")
      else if kind == "d" then ({ s with members := s.members ++ [Member.ofPath p false []] }, "ok")
      else (s, "bad-op")
    | _, _ => (s, "bad-op")
  | "s.deny" :: ids =>
    match unhexNames ids with
    | some l => ({ s with denied := l }, "ok")
    | none => (s, "bad-op")
  | "s.open" :: kind :: _ =>
    let v? : Option View :=
      if kind == "fs" then some (fsViewWith ⟨fsExistsChecksKind, fsReadNonFileNotFound, fsReadDirNonDirNotFound⟩ s.tree)
      else if kind == "emb" then some (viewOfIdx (embeddedFrom (embedTables s.tree)))
      else if kind == "zip" then some (viewOfIdx (indexWith zipRegister zipRegisterDir zipCreateRegistersRoot s.members))
      else if kind == "tar" then some (viewOfIdx (indexWith tarRegister tarRegisterDir tarCreateRegistersRoot s.members))
      else none
    match v? with
    | some v => ({ s with view := some v, cached := [] }, "ok")
    | none => (s, "bad-op")
  | op :: args =>
    match curView s with
    | none => (s, "bad-op")
    | some v =>
      match op, args with
      | "s.rd", [id, ext] =>
        match unhexName id, unhexName ext with
        | some i, some e => (s, match v.read i e with | .ok b => s!"ok {hex b}" | .err x => showErr x)
        | _, _ => (s, "bad-op")
      | "s.ls", [id] =>
        match unhexName id with
        | some i => (s, match v.readDir i with
          | .ok es => String.intercalate " " ("ok" :: sortStrings (es.map showEntry))
          | .err x => showErr x)
        | none => (s, "bad-op")
      | "s.exf", [id, ext] =>
        match unhexName id, unhexName ext with
        | some i, some e => (s, showBool (v.exist (.file i e)))
        | _, _ => (s, "bad-op")
      | "s.exd", [id] =>
        match unhexName id with
        | some i => (s, showBool (v.exist (.dir i)))
        | none => (s, "bad-op")
      | _, mode :: id :: exts =>
        match unhexName id, unhexNames exts with
        | some i, some es =>
          let ids? : Option (Option (Res (List Id))) :=
            if mode == "d" then some (some (dirLoad v es i))
            else if mode == "r" then some (recLoad 64 v es i)
            else none
          match ids? with
          | none => (s, "bad-op")
          | some none => (s, "diverged")
          | some (some (.err x)) =>
            if op == "s.ld" || op == "s.it" || op == "s.ic" then (s, showErr x) else (s, "bad-op")
          | some (some (.ok ids)) =>
            if op == "s.ld" then (s, showIds ids (mode == "r"))
            else if op == "s.it" then
              let rs := iter ids (fun x => (x, loadAsset v es x))
              let cached := s.cached ++ (rs.filterMap fun (x, r) => r.map fun _ => (es, x))
              let shown := rs.map fun (x, r) => s!"{hexName x}={showLoaded r}"
              ({ s with cached }, String.intercalate " " ("ok" :: (if mode == "r" then sortStrings shown else shown)))
            else if op == "s.ic" then
              (s, showIds (iterCached ids (fun x => if (es, x) ∈ s.cached then some x else none)) (mode == "r"))
            else (s, "bad-op")
        | _, _ => (s, "bad-op")
      | _, _ => (s, "bad-op")
  | _ => (s, "bad-op")

/-- `s.get <id> <exts..>`: load one asset (marks it cached on success). -/
def stepGet (s : St) (ws : List String) : St × String :=
  match ws, curView s with
  | "s.get" :: id :: exts, some v =>
    match unhexName id, unhexNames exts with
    | some i, some es =>
      match loadAsset v es i with
      | some r => ({ s with cached := s.cached ++ [(es, i)] }, s!"ok {showLoaded (some r)}")
      | none => (s, "err")
    | _, _ => (s, "bad-op")
  | _, _ => (s, "bad-op")

def stepAll (s : St) (ws : List String) : St × String :=
  match ws with
  | "s.get" :: _ => stepGet s ws
  | _ => step s ws

end Driver.Src
