import AmVerif.Model.Cell
import Driver.Util
/-! Engine `cell` (C17): sequential calls on one `OnceInitCell` (thread 0 of the interleaving model,
run call by call), and validation of observed concurrent outcomes ("does some schedule of the model
explain what the threads saw"). -/
namespace Driver.Cell
open AmVerif.Model.Cell Driver

structure St where
  sys : Option Sys := none

def parseKind? : String → Option Kind
  | "plain" => some .plain | "tracked" => some .tracked | "bomb" => some .bomb | _ => none

def parseOKind? : String → Option OKind
  | "ok" => some .ok | "err" => some .err | "panic" => some .panic | _ => none

def showRes : Res → String
  | .none => "none" | .ref v => s!"ref:{v}" | .err e => s!"err:{e}" | .panicF => "panicF"
  | .panicDrop => "panicDrop" | .ub => "ub"

def parseRes? (s : String) : Option Res :=
  match s.splitOn ":" with
  | ["none"] => some .none
  | ["panicF"] => some .panicF
  | ["panicDrop"] => some .panicDrop
  | ["ref", v] => v.toNat?.map .ref
  | ["err", v] => v.toNat?.map .err
  | _ => none

/-- `g` = get, `o<d>` / `e<d>` / `p<d>` = get_or_try_init whose initialiser adds `d` and returns Ok / Err / panics,
`O<d>` / `P<d>` = get_or_init whose initialiser adds `d` and returns / panics -/
def parseCall? (s : String) : Option Call :=
  match s.toList with
  | ['g'] => some .get
  | c :: ds =>
    match (String.ofList ds).toNat? with
    | none => none
    | some d =>
      if c = 'o' then some (.init ⟨.ok, d⟩) else if c = 'e' then some (.init ⟨.err, d⟩)
      else if c = 'p' then some (.init ⟨.panic, d⟩)
      else if c = 'O' then Call.infallible ⟨.ok, d⟩ else if c = 'P' then Call.infallible ⟨.panic, d⟩
      else none
  | [] => none

/-- run one call on thread 0 -/
def call (s : Sys) (c : Call) : Sys × String :=
  let s0 : Sys := ⟨s.sh, upd s.ths 0 { (s.ths 0) with calls := [c] }⟩
  let s' := runCall s0 0 64
  match (s'.ths 0).act, (s'.ths 0).calls, (s'.ths 0).results with
  | none, [], r :: _ => (s', showRes r)
  | _, _, _ => (s', "stuck")

def showState (sh : Sh) : String :=
  s!"init={showBool (decide (sh.once = .done))} seed_drops={sh.seedDrops} vals={sh.inits} ub={showBool sh.ub}"

/-- threads: `T <calls…> R <results…>` repeated, then `F <init> <seedDrops> <vals>` -/
partial def parseThreads (ws : List String) (acc : List (List Call × List Res)) :
    Option (List (List Call × List Res) × List String) :=
  match ws with
  | "T" :: rest =>
    let cs := rest.takeWhile (· ≠ "R")
    match rest.dropWhile (· ≠ "R") with
    | "R" :: rest2 =>
      let rs := rest2.takeWhile (fun w => w ≠ "T" ∧ w ≠ "F")
      let rest3 := rest2.dropWhile (fun w => w ≠ "T" ∧ w ≠ "F")
      match cs.mapM parseCall?, rs.mapM parseRes? with
      | some cs', some rs' => parseThreads rest3 ((cs', rs') :: acc)
      | _, _ => none
    | _ => none
  | _ => some (acc.reverse, ws)

def step (st : St) : List String → St × String
  | ["cell.new", k, c] =>
    match parseKind? k, c.toNat? with
    | some k, some c => ({ sys := some (init k c fun _ => []) }, "ok")
    | _, _ => (st, "bad-op")
  | ["cell.get"] =>
    match st.sys with
    | some s => let (s', o) := call s .get; ({ sys := some s' }, o)
    | none => (st, "bad-op")
  | ["cell.init", k, d] =>
    match st.sys, parseOKind? k, d.toNat? with
    | some s, some k, some d => let (s', o) := call s (.init ⟨k, d⟩); ({ sys := some s' }, o)
    | _, _, _ => (st, "bad-op")
  | ["cell.initinf", k, d] =>
    match st.sys, parseOKind? k, d.toNat? with
    | some s, some k, some d =>
      match Call.infallible ⟨k, d⟩ with
      | some c => let (s', o) := call s c; ({ sys := some s' }, o)
      | none => if k = .err then (st, "bad-op") else (st, "unmodelled")
    | _, _, _ => (st, "bad-op")
  | ["cell.state"] =>
    match st.sys with
    | some s => (st, showState s.sh)
    | none => (st, "bad-op")
  | ["cell.drop"] =>
    match st.sys with
    | some s =>
      let f := dropCell s.sh
      ({ sys := none }, s!"dropped seed_drops={f.seedDrops} val_drops={f.valDrops} panicked={showBool f.panicked} ub={showBool f.ub}")
    | none => (st, "bad-op")
  | "cell.conc" :: k :: c :: rest =>
    match parseKind? k, c.toNat?, parseThreads rest [] with
    | some k, some c, some (ths, ["F", i, sd, vals]) =>
      match parseBool? i, sd.toNat?, vals.toNat? with
      | some i, some sd, some vals =>
        let n := ths.length
        let calls := fun t => (ths[t]?.map (·.1)).getD []
        let want := fun t => (ths[t]?.map (·.2)).getD []
        let total := (ths.map (·.1.length)).sum
        if ths.any (fun p => p.1.length ≠ p.2.length) then (st, "bad-op") else
        let final := fun (sh : Sh) => decide (sh.once = .done) == i && sh.seedDrops == sd && sh.inits == vals && !sh.ub
        (st, if explain n want final (total + 1) (init k c calls) then "lin-ok" else "lin-bad")
      | _, _, _ => (st, "bad-op")
    | _, _, _ => (st, "bad-op")
  | _ => (st, "bad-op")

end Driver.Cell
