import Driver.Loop
import Driver.Cell
/-! `amdrv-cell`: the model driver of one engine family (a refused extraction elsewhere does not take it down). -/
def main : IO Unit := Driver.run ({} : Driver.Cell.St) Driver.Cell.step
