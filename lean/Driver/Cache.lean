import AmVerif.Model.Types
import AmVerif.Model.MemSource
import AmVerif.Model.Reload
import AmVerif.Gen.Skel
import Driver.Util
/-! Engine `cache`: the op vocabulary of `harness/src/exec_world.rs` on the model. -/
namespace Driver.Cache
open AmVerif.Model AmVerif.Gen Driver

structure St where
  src : Src := {}
  w : AmVerif.Model.St := {}
  hasReloader : Bool := false
  /-- addresses in order of first appearance in an output line -/
  handles : List Nat := []
  loaderFaults : List (Nat × Bool) := []
  r : RSt := {}
  watchers : List (String × Key × Nat) := []
  deriving Repr

def env (s : St) : Env :=
  { read := s.src.read, readDir := s.src.readDir, types := types, hasReloader := s.hasReloader,
    loaderFault := fun k => (s.loaderFaults.find? (·.1 = k)).map (·.2) }

def canonVal : Val → String
  | .int i => s!"v:{i}"
  | .asset v ext bytes => s!"m:{v}:{hexString ext}:{hexBytes bytes}"
  | .ids l => "ids:" ++ ",".intercalate (l.map hexString)

def handle (s : St) (addr : Nat) : St × String :=
  match s.handles.findIdx? (· == addr) with
  | some i => (s, s!"h{i}")
  | none => ({ s with handles := s.handles ++ [addr] }, s!"h{s.handles.length}")

def showRes (s : St) : Res → St × String
  | .handle a v => let (s, h) := handle s a; (s, s!"{h} {canonVal v}")
  | .value v => (s, canonVal v)
  | .none => (s, "none")
  | .bool b => (s, showBool b)
  | .err e => (s, s!"err {canonErr e}")
  | .panicked => (s, "panic")
  | .diverged => (s, "diverged")
  | .unit => (s, "ok")

def keyOf (ty id : String) : Option Key := do
  let t ← tyOfName ty
  let i ← unhexStr id
  pure ⟨t, i⟩

def isCompound (k : Key) : Bool := k.ty < 50

def nameOfTy (ty : Nat) : String :=
  if ty < 3 then s!"S{ty}" else if ty = 3 then "N0" else if ty = 4 then "AN" else if ty = 5 then "AS"
  else if 10 ≤ ty ∧ ty < 22 then s!"M{(ty - 10) / 2}{(ty - 10) % 2}"
  else if 30 ≤ ty ∧ ty < 36 then s!"D{ty - 30}"
  else if 40 ≤ ty ∧ ty < 46 then s!"R{ty - 40}"
  else if ty = 50 then "I" else s!"?{ty}"

def dumpLine (s : St) : String :=
  let ents := s.w.map.map fun (k, c) => ((nameOfTy k.ty, k.id), s!"{nameOfTy k.ty}/{hexString k.id}={canonVal c.val}@{c.rid}")
  let sorted := sortBy (fun a b => pairLt a.1 b.1) ents
  "dump " ++ " ".intercalate (sorted.map (·.2))

def parseEvents : List String → Option (List Dep)
  | [] => some []
  | e :: rest => do
    let r ← parseEvents rest
    match e.splitOn ":" with
    | ["f", id, ext] => do let i ← unhexStr id; let x ← unhexStr ext; pure (Dep.file i x :: r)
    | ["d", id] => do let i ← unhexStr id; pure (Dep.dir i :: r)
    | _ => none

def runOp (s : St) (op : Op) : St × Res :=
  let (w, r) := step (env s) fuelDefault s.w op
  ({ s with w }, r)

def step (s : St) : List String → St × String
  | ["cfg", fe, mode] =>
    if (fe == "shared" || fe == "any" || fe == "local" || fe == "localany") && (mode == "hot" || mode == "nohot-ctor" || mode == "nohot-src" || mode == "nohot-cfgfail") then
      ({ s with hasReloader := (fe == "shared" || fe == "any") && mode == "hot" }, "ok")
    else (s, "bad-op")
  | "src.put" :: id :: ext :: bytes :: _ =>
    match unhexStr id, unhexStr ext, unhex bytes with
    | some i, some e, some b => ({ s with src := s.src.put i e (.bytes b) }, "ok")
    | _, _, _ => (s, "bad-op")
  | ["src.bad", id, ext, kind] =>
    match unhexStr id, unhexStr ext with
    | some i, some e => ({ s with src := s.src.put i e (.unreadable kind) }, "ok")
    | _, _ => (s, "bad-op")
  | ["src.rm", id, ext] =>
    match unhexStr id, unhexStr ext with
    | some i, some e => ({ s with src := s.src.rm i e }, "ok")
    | _, _ => (s, "bad-op")
  | ["src.mkdir", id] => match unhexStr id with
    | some i => ({ s with src := s.src.mkdirs i }, "ok")
    | none => (s, "bad-op")
  | ["src.rmdir", id] => match unhexStr id with
    | some i => ({ s with src := s.src.rmdir i }, "ok")
    | none => (s, "bad-op")
  | ["fault.read", k, kind] => match k.toNat? with
    | some k => ({ s with src := { s.src with faults := s.src.faults ++ [(s.w.ios + k, kind)] } }, "ok")
    | none => (s, "bad-op")
  -- a fresh world inside one case (engine `fault`: one world per injected fault)
  | ["reset"] => ({}, "ok")
  | ["fault.clear"] => ({ s with src := { s.src with faults := [] }, loaderFaults := [] }, "ok")
  | ["fault.load", k, what] => match k.toNat? with
    | some k => if what == "panic" || what == "err" then ({ s with loaderFaults := s.loaderFaults ++ [(s.w.loads + k, what == "panic")] }, "ok") else (s, "bad-op")
    | none => (s, "bad-op")
  | ["load", ty, id] => match keyOf ty id with
    | some k => if isCompound k then
        let (s, r) := runOp s (.load k)
        let (s, o) := showRes s r
        (s, match r with | .handle .. => "ok " ++ o | _ => o)
      else (s, "bad-op")
    | none => (s, "bad-op")
  | ["expect", ty, id] => match keyOf ty id with
    -- `load_expect`: `load`, with every error turned into a panic
    | some k => if isCompound k then
        let (s, r) := runOp s (.load k)
        let (s, o) := showRes s r
        (s, match r with | .handle .. => "ok " ++ o | .err _ => "panic" | _ => o)
      else (s, "bad-op")
    | none => (s, "bad-op")
  | ["owned", ty, id] => match keyOf ty id with
    | some k => if isCompound k then
        let (s, r) := runOp s (.loadOwned k)
        let (s, o) := showRes s r
        (s, match r with | .value .. => "ok " ++ o | _ => o)
      else (s, "bad-op")
    | none => (s, "bad-op")
  | ["cached", ty, id] => match keyOf ty id with
    | some k =>
        let (s, r) := runOp s (.getCached k)
        let (s, o) := showRes s r
        (s, match r with | .handle .. => "some " ++ o | _ => o)
    | none => (s, "bad-op")
  | ["goi", ty, id, n] => match keyOf ty id, n.toInt? with
    | some k, some n => match insertableVal k.ty n with
      | some v => let (s, r) := runOp s (.getOrInsert k v); showRes s r
      | none => (s, "bad-op")
    | _, _ => (s, "bad-op")
  | ["contains", ty, id] => match keyOf ty id with
    | some k => let (s, r) := runOp s (.contains k); showRes s r
    | none => (s, "bad-op")
  | ["remove", ty, id] => match keyOf ty id with
    | some k => let (s, r) := runOp { s with watchers := [] } (.remove k); showRes s r
    | none => (s, "bad-op")
  | ["take", ty, id] => match keyOf ty id with
    | some k =>
        let (s, r) := runOp { s with watchers := [] } (.take k)
        let (s, o) := showRes s r
        (s, match r with | .value .. => "some " ++ o | _ => o)
    | none => (s, "bad-op")
  | ["clear"] => let (s, r) := runOp { s with watchers := [] } .clear; showRes s r
  | ["dump"] => (s, dumpLine s)
  | ["ledger"] => let (c, d) := s.w.ledgerCounts; (s, s!"c={c} d={d}")
  | ["view", t, r, id] =>
    -- C13: the entry stored as `t` viewed as `r` (downcast_ref / is / guard downcast all agree)
    match keyOf t id, tyOfName r with
    | some k, some rt =>
      (s, match s.w.lookup k with
          | none => "absent"
          | some _ => let b := showBool (viewAs k.ty rt).isSome; s!"ref={b} is={b} guard={b}")
    | _, _ => (s, "bad-op")
  | "notify" :: evs =>
    match parseEvents evs with
    | none => (s, "bad-op")
    | some ds =>
      if !s.hasReloader then (s, "no-reloader") else
      let (w, r) := handleEvents (env s) fuelDefault s.w s.r ds
      ({ s with w, r }, "ok")
  | ["reload"] =>
    if !s.hasReloader then (s, "ok") else
    let (w, r) := hotReload (env s) fuelDefault s.w s.r
    ({ s with w, r }, if r.dead then "reloader-dead" else "ok")
  | ["enhance"] =>
    if !s.hasReloader then (s, "ok") else
    let (w, r) := enhance (env s) fuelDefault s.w s.r
    ({ s with w, r }, if r.dead then "reloader-dead" else "ok")
  | ["rid", ty, id] => match keyOf ty id with
    | some k => (s, match s.w.lookup k with | some c => toString c.rid | none => "none")
    | none => (s, "bad-op")
  | ["global", ty, id] => match keyOf ty id with
    | some k => match s.w.lookup k with
      | some c => ({ s with w := s.w.setCell k { c with flag := false } }, showBool (c.dyn && c.flag))
      | none => (s, "none")
    | none => (s, "bad-op")
  | ["rw.new", name, ty, id] => match keyOf ty id with
    | some k => match s.w.lookup k with
      | some c => ({ s with watchers := (s.watchers.filter (·.1 ≠ name)) ++ [(name, k, c.rid)] }, "ok")
      | none => (s, "none")
    | none => (s, "bad-op")
  | ["rw.poll", name] =>
    match s.watchers.find? (·.1 = name) with
    | none => (s, "none")
    | some (_, k, last) =>
      match s.w.lookup k with
      | none => (s, "none")
      | some c =>
        -- static entries have no reload id to watch: `reloaded()` is always false
        if !c.dyn then (s, "false") else
        let (last', told) := ReloadId_update last c.rid
        ({ s with watchers := s.watchers.map fun w => if w.1 = name then (name, k, last') else w }, showBool told)
  | _ => (s, "bad-op")

end Driver.Cache
