import AmVerif.Model.Iso
import Driver.Util
/-! Engine `iso` (C07): scripted schedules on `Model/Iso.lean` (the same `step` the theorems are
about, configuration compiled from the regenerated skeletons), and the model-side schedule search
answering the free-running stress cases. One reader slot = one reader thread of the model; one
caller (`0`); the reloader runs until it is blocked or idle after every op (the implementation's
reloader thread runs freely, so this is the schedule the script forces). -/
namespace Driver.Iso
open AmVerif.Model.Iso Driver

structure St where
  cfg : Cfg := codeCfg 1
  s : AmVerif.Model.Iso.St := init 0
  ready : Bool := false
  /-- an edit was notified and not yet picked up by a reload pass -/
  dirty : Bool := false
  /-- the pass in flight still has its write to start -/
  pending : Bool := false

/-- Run the reloader thread until it is blocked at `lock.write()` or idle. -/
def rlRun (cfg : Cfg) : Nat → AmVerif.Model.Iso.St → Bool → AmVerif.Model.Iso.St × Bool
  | 0, s, p => (s, p)
  | fuel + 1, s, p =>
    match s.wrest with
    | .acq .write :: _ =>
      if s.wheld = none ∧ s.readersLocked = false then rlRun cfg fuel (step cfg s (.rl false)) p else (s, p)
    | .acq .read :: _ =>
      if s.wheld = none then rlRun cfg fuel (step cfg s (.rl false)) p else (s, p)
    | _ :: _ => rlRun cfg fuel (step cfg s (.rl false)) p
    | [] =>
      match s.rrest with
      | .update :: _ => rlRun cfg fuel (step cfg s (.rl p)) false
      | .notify :: _ => rlRun cfg fuel (step cfg s (.rl false)) p
      | [] => if s.queue.isEmpty then (s, p) else rlRun cfg fuel (step cfg s (.rl false)) p

def inflight (s : AmVerif.Model.Iso.St) : Bool := s.cl 0 != .idle

/-- After the reloader ran: let caller 0 return if it may. -/
def settle (d : St) : St × String :=
  let (s1, p) := rlRun d.cfg (8 * d.cfg.k + 64) d.s d.pending
  if inflight s1 then
    let s2 := step d.cfg s1 (.ret 0)
    ({ d with s := s2, pending := p }, if inflight s2 then " blocked" else " returned")
  else ({ d with s := s1, pending := p }, "")

/-- Read the whole value and the id through reader `r`'s guard; canonical text of what it saw so far. -/
def readAll (d : St) (r : Nat) : St × String :=
  let s1 := (List.range d.cfg.k).foldl (fun s i => step d.cfg s (.readW r i)) d.s
  let s2 := step d.cfg s1 (.readId r)
  match s2.rd r with
  | .hold _ ow oid =>
    let v := match ow with
      | [] => "empty"
      | p :: _ => if obsUniform ow then toString p.2 else "torn"
    let i := match oid with
      | [] => "none"
      | x :: rest => if rest.all (· == x) then toString x else "moved"
    ({ d with s := s2 }, s!"ok {v} {i}")
  | .idle => (d, "none")

def step (d : St) : List String → St × String
  | ["iso.new", k, n] =>
    match k.toNat?, n.toNat? with
    | some k, some n => if k == 0 || k > 4096 || n > 64 then (d, "bad-op") else ({ cfg := codeCfg k, s := init n, ready := true }, "ok")
    | _, _ => (d, "bad-op")
  | ["iso.stress", k, n, seed] =>
    match k.toNat?, n.toNat?, seed.toNat? with
    | some k, some n, some seed =>
      if k == 0 || k > 4096 || n == 0 || n > 64 then (d, "bad-op") else
      -- search only (the theorems cover every k and n): small instance, the closures of `upd` grow with every step
      let (k', n') := (min k 6, min n 5)
      match search (codeCfg k') n' 2 6000 seed (init n') with
      | none => (d, "isolated")
      | some left => (d, s!"model-violation at-step {6000 - left}")
    | _, _, _ => (d, "bad-op")
  | [op, r] =>
    if !d.ready then (d, "bad-op") else
    match r.toNat? with
    | none => (d, "bad-op")
    | some r =>
      if r ≥ d.s.n then (d, "bad-op") else
      match op with
      | "iso.acq" =>
        if (d.s.rd r).holding then (d, "busy") else
        let s1 := AmVerif.Model.Iso.step d.cfg d.s (.acq r)
        if (s1.rd r).holding then readAll { d with s := s1 } r else (d, "blocked")
      | "iso.peek" => readAll d r
      | "iso.map" =>
        if (d.s.rd r).holding then ({ d with s := AmVerif.Model.Iso.step d.cfg d.s (.map r) }, "ok") else (d, "none")
      | "iso.drop" =>
        if (d.s.rd r).holding then
          let (d', tail) := settle { d with s := AmVerif.Model.Iso.step d.cfg d.s (.rel r) }
          (d', "ok" ++ tail)
        else (d, "none")
      | _ => (d, "bad-op")
  | ["iso.edit"] => if d.ready then ({ d with dirty := true }, "ok") else (d, "bad-op")
  | ["iso.rid"] => if d.ready then (d, toString d.s.rid) else (d, "bad-op")
  | ["iso.reload"] =>
    if !d.ready then (d, "bad-op") else
    if inflight d.s then (d, "busy") else
    let s1 := AmVerif.Model.Iso.step d.cfg (AmVerif.Model.Iso.step d.cfg d.s (.tok 0)) (.send 0)
    let (d', tail) := settle { d with s := s1, pending := d.dirty, dirty := false }
    (d', tail.trimAscii.toString)
  | _ => (d, "bad-op")

end Driver.Iso
