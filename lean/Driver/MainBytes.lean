import Driver.Loop
import Driver.Bytes
/-! `amdrv-bytes`: the model driver of one engine family (a refused extraction elsewhere does not take it down). -/
def main : IO Unit := Driver.run ({} : Driver.Bytes.St) Driver.Bytes.step
