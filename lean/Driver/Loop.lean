import Driver.Util
/-!
# The driver loop, shared by the per-family executables

One operation per input line, one canonical result line per operation. A case is `case <n>` … `end`; the engine state is reset at
`case`. Lines that the model has nothing to say about (oracle-only probes) are answered by a constant in every family.
-/
namespace Driver

/-- oracle-only probe lines: the model's answer is the property itself -/
def constAnswer (w : String) : Option String :=
  if w == "conc.race" then some "one-handle"          -- C01_unique_handle / C01_one_winner: every interleaving
  else if w == "conc.keys" then some "distinct"       -- C01/C02: a key is the whole id and the type (per-cache hash seeds)
  else if w == "conc.probe" then some "stable"        -- C01_presence_monotone
  else if w == "src.shortread" then some "same"       -- C03/C04/C16: a reader may return short reads; the member's bytes are what was packed
  else if w == "src.trunc" then some "err-or-refused" -- C03/C04: a truncated tar member is an error, never a prefix
  else if w == "src.embfix" then some "agree"         -- C04: the embed! macro's table against FileSystem over the same fixture
  else if w == "dir.cust" then some "agree"           -- C11: a custom DirLoadable and its Arc wrapper list alike
  else if w == "hr.order" then some "kept"            -- C14/C05: a load's registration is taken before a later event
  else if w == "hr.cross" then some "isolated"        -- C14: loads through a second cache are not attributed
  else if w == "hr.rewire" then some "observed"       -- known finding F-C05e: hash-set order; oracle only
  else if w == "hr.newdep" then some "observed"       -- known finding F-C05d: hash-set order; oracle only
  else if w == "own.sizes" then some "intact"         -- C13: a reload swaps the whole value, whatever its size and alignment
  else if w == "cell.shapes" then some "exactly-once" -- C17/C13/C16: seed / value types of every destructor shape are dropped exactly once
  else if w == "by.iterlie" then some "same"          -- C16: the bytes are the iterator's items, whatever its size hint claims
  else none

partial def loop {σ : Type} (init : σ) (step : σ → List String → σ × String) (h : IO.FS.Stream) (out : IO.FS.Stream) (e : σ) : IO Unit := do
  let line ← h.getLine
  if line.isEmpty then return ()
  let ws := words line
  match ws with
  | [] => loop init step h out e
  | ["case", n] => out.putStrLn s!"case {n}"; loop init step h out init
  | ["end"] => out.putStrLn "end"; loop init step h out e
  | w :: _ =>
    match constAnswer w with
    | some o => out.putStrLn o; loop init step h out e
    | none =>
      let (e', o) := step e ws
      out.putStrLn o
      loop init step h out e'

def run {σ : Type} (init : σ) (step : σ → List String → σ × String) : IO Unit := do
  let out ← IO.getStdout
  loop init step (← IO.getStdin) out init
  out.flush

end Driver
