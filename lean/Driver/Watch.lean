import AmVerif.Model.Watch
import Driver.Util
/-! Engine `watch` (C12): `id_of_path`, the notify event handler and `path_of_entry` on
component-list paths. Path token: `-` (empty) or comma-separated components `X` (prefix), `R`
(root dir), `C` (`.`), `P` (`..`), `N<hex bytes>` (normal). -/
namespace Driver.Watch
open AmVerif.Model.Watch Driver

structure St where
  h : Handler := { roots := [], hasWatcher := false }
  connected : Bool := true

/-- Bytes → OS string units: well-formed UTF-8 sequences become scalars, other bytes stay bytes. -/
partial def decodeLossy (bs : List UInt8) : OsName :=
  match bs with
  | [] => []
  | b :: rest =>
    let try? (n : Nat) : Option (Char × List UInt8) :=
      if bs.length < n then none else
      match String.fromUTF8? (ByteArray.mk (bs.take n).toArray) with
      | some s => match s.toList with
        | [c] => some (c, bs.drop n)
        | _ => none
      | none => none
    match (try? 1 <|> try? 2 <|> try? 3 <|> try? 4) with
    | some (c, r) => .ch c :: decodeLossy r
    | none => .bad b.toNat :: decodeLossy rest

def parseComp (t : String) : Option Comp :=
  if t == "X" then some .pfx else if t == "R" then some .rootDir
  else if t == "C" then some .curDir else if t == "P" then some .parentDir
  else match t.toList with
    | 'N' :: hx =>
      if hx.isEmpty then none else
      (unhex (String.ofList hx)).map fun bs => .normal (decodeLossy bs)
    | _ => none

def parsePath (t : String) : Option Path :=
  if t == "-" then some [] else (t.splitOn ",").mapM parseComp

def hexChars (cs : List Char) : String := hexStr (String.ofList cs)

def showEnt : Ent → String
  | .file i e => s!"f:{hexChars i}:{hexChars e}"
  | .dir i => s!"d:{hexChars i}"

def encodeName (n : OsName) : List UInt8 :=
  n.flatMap fun | .ch c => (String.singleton c).toUTF8.toList | .bad b => [UInt8.ofNat b]

def showComp : Comp → String
  | .pfx => "X" | .rootDir => "R" | .curDir => "C" | .parentDir => "P"
  | .normal n => "N" ++ hex (encodeName n)

def showPath (p : Path) : String := if p.isEmpty then "-" else ",".intercalate (p.map showComp)

def parseFlag (t : String) : Option Bool :=
  if t == "1" then some true else if t == "0" then some false else none

def parseKind (t : String) : Option EvKind :=
  match t with
  | "any" => some .any | "access" => some .access | "create" => some .create
  | "modname" => some .modifyName | "modother" => some .modifyOther
  | "removefile" => some .removeFile | "removefolder" => some .removeFolder | "removeany" => some .removeOther
  | "other" => some .other | _ => none

/-- `<path> <isdir path> <isdir parent>` triples → notified paths and the file-system view. -/
def parseTriples : List String → Option (List Path × List (Path × Bool))
  | [] => some ([], [])
  | p :: a :: b :: rest => do
    let p ← parsePath p
    let a ← parseFlag a
    let b ← parseFlag b
    let (ps, fs) ← parseTriples rest
    let parFacts := match parentOf p with | some q => [(q, b)] | none => []
    pure (p :: ps, (p, a) :: parFacts ++ fs)
  | _ => none

def isDirOf (facts : List (Path × Bool)) (p : Path) : Bool :=
  match facts.find? (fun f => f.1 == p) with
  | some f => f.2
  | none => false

def showMsgs (h : Handler) (msgs : List (List Ent)) : String :=
  let body := msgs.map fun b => "[ " ++ String.join (b.map fun e => showEnt e ++ " ") ++ "]"
  s!"w={if h.hasWatcher then 1 else 0} n={msgs.length}" ++ String.join (body.map (" " ++ ·))

def step (s : St) : List String → St × String
  | "watch.roots" :: w :: roots =>
    match parseFlag w, roots.mapM parsePath with
    | some w, some rs => ({ h := { roots := rs, hasWatcher := w }, connected := true }, "ok")
    | _, _ => (s, "bad-op")
  | ["watch.drop-rx"] => ({ s with connected := false }, "ok")
  | ["watch.err"] => (s, showMsgs s.h [])
  | ["watch.id", d, root, path] =>
    match parseFlag d, parsePath root, parsePath path with
    | some d, some r, some p =>
      (s, match idOfPath r p none d with | some e => showEnt e | none => "none")
    | _, _, _ => (s, "bad-op")
  | "watch.ev" :: k :: triples =>
    match parseKind k, parseTriples triples with
    | some k, some (ps, facts) =>
      let (h, msgs) := handleEvent s.h s.connected (isDirOf facts) k ps
      ({ s with h }, showMsgs h msgs)
    | _, _ => (s, "bad-op")
  | ["watch.pathof", kind, id, ext, root] =>
    match unhexStr id, unhexStr ext, parsePath root with
    | some id, some ext, some r =>
      let e? : Option Ent := if kind == "f" then some (.file id.toList ext.toList)
        else if kind == "d" then (if ext.isEmpty then some (.dir id.toList) else none) else none
      match e? with
      | none => (s, "bad-op")
      | some e => (s, match pathOf r e with | some p => showPath p | none => "unmodelled")
    | _, _, _ => (s, "bad-op")
  | _ => (s, "bad-op")

end Driver.Watch
