import Driver.Loop
import Driver.Iso
/-! `amdrv-iso`: the model driver of one engine family (a refused extraction elsewhere does not take it down). -/
def main : IO Unit := Driver.run ({} : Driver.Iso.St) Driver.Iso.step
