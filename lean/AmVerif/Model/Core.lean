/-!
# Core vocabulary of the cache models

Keys, dependencies, values, errors and the loader language (`Prog`): loaders are terms of a free
monad over the cache API whose continuations are Lean functions, so theorems quantified over
`Prog` cover *every* loader, not only the harness's script assets.
-/
namespace AmVerif.Model

/-- Cache key: (type, id). Types are small naturals (the harness's table maps `TypeId`s to them). -/
structure Key where
  ty : Nat
  id : String
  deriving DecidableEq, Repr, Inhabited

/-- What hot-reloading records (`hot_reloading::records::Dependency`). -/
inductive Dep
  | file (id ext : String)
  | dir (id : String)
  | asset (k : Key)
  deriving DecidableEq, Repr

/-- A directory entry as reported by `Source::read_dir`. -/
inductive DirEnt
  | file (id ext : String)
  | dir (id : String)
  deriving DecidableEq, Repr

/-- An `io::Error` reduced to what the code looks at (`kind() == NotFound`) plus what makes it
identifiable in the correspondence (kind name, and a tag naming the read that produced it). -/
structure IoErr where
  notFound : Bool
  kind : String
  tag : String
  deriving DecidableEq, Repr

/-- Error reasons (`BoxedError` payloads). `wrapped id e` is an `assets_manager::Error{id, e}`. -/
inductive LErr
  | noDefault
  | io (e : IoErr)
  | conv (tag : String)
  | custom (msg : String)
  | wrapped (id : String) (e : LErr)
  deriving DecidableEq, Repr

/-- Stored values. -/
inductive Val
  | int (i : Int)
  | asset (v : Int) (ext : String) (bytes : List UInt8)
  | ids (l : List String)
  deriving DecidableEq, Repr

/-- The loader language. -/
inductive Prog where
  | ret (v : Val)
  | fail (e : LErr)
  | panic
  | read (id ext : String) (k : Except IoErr (List UInt8) → Prog)
  | readDir (id : String) (k : Except IoErr (List DirEnt) → Prog)
  | load (key : Key) (k : Except LErr Val → Prog)
  | getCached (key : Key) (k : Option Val → Prog)
  | loadOwned (key : Key) (k : Except LErr Val → Prog)
  /-- `get_or_insert(id, v)` from inside a loader: the value of the entry found, or `v` stored as a new
  (non-dynamic) entry -/
  | getOrInsert (key : Key) (v : Val) (k : Val → Prog)
  | noRecord (body : Prog) (k : Except LErr Val → Prog)
  | onThread (body : Prog) (k : Except LErr Val → Prog)
  /-- loader-invocation checkpoint of the fault plan: `some true` = panic here, `some false` = fail here -/
  | tick (k : Option Bool → Prog)
  /-- `catch_unwind` around `body`: `none` = it panicked -/
  | tryCatch (body : Prog) (k : Option (Except LErr Val) → Prog)

/-- How an evaluation ends. -/
inductive Outcome
  | ok (v : Val)
  | err (e : LErr)
  | panicked
  | diverged
  deriving DecidableEq, Repr

end AmVerif.Model
