import AmVerif.Model.Reloader
import AmVerif.Gen.Skel
/-!
# Source facts of the reloader, computed from the regenerated effect skeletons

`genCfg` is what `src/hot_reloading/{mod,dependencies}.rs` and `src/anycache.rs` say **today** about
the four places where the defective and the repaired code differ. The functions below only look at
the order and nesting of effect tokens, so they give the same answer for every refactoring that
keeps the effects in place. The driver runs the model with `genCfg`; `Props/C08.lean` and
`Props/C15.lean` require every flag to be `true`.
-/
namespace AmVerif.Model.Reloader
open AmVerif.Gen

abbrev Sk := AmVerif.Gen.Sk

mutual
/-- does the effect `f` occur anywhere in the token (closures included)? -/
def mentions (f : Sym) : Sk → Bool
  | .call g => g == f
  | .branch alts => mentionsLL f alts
  | .loop b => mentionsL f b
  | .closure b => mentionsL f b
  | _ => false
def mentionsL (f : Sym) : List Sk → Bool
  | [] => false
  | x :: xs => mentions f x || mentionsL f xs
def mentionsLL (f : Sym) : List (List Sk) → Bool
  | [] => false
  | x :: xs => mentionsL f x || mentionsLL f xs
end

mutual
/-- as `mentions`, but what a closure body does is not counted (it runs where the closure is called) -/
def mentionsHere (f : Sym) : Sk → Bool
  | .call g => g == f
  | .branch alts => mentionsHereLL f alts
  | .loop b => mentionsHereL f b
  | _ => false
def mentionsHereL (f : Sym) : List Sk → Bool
  | [] => false
  | x :: xs => mentionsHere f x || mentionsHereL f xs
def mentionsHereLL (f : Sym) : List (List Sk) → Bool
  | [] => false
  | x :: xs => mentionsHereL f x || mentionsHereLL f xs
end

/-- index of the first top-level call of `f` -/
def idxCall (f : Sym) : List Sk → Option Nat
  | [] => none
  | .call g :: rest => if g == f then some 0 else (idxCall f rest).map (· + 1)
  | _ :: rest => (idxCall f rest).map (· + 1)

/-- index of the first top-level loop whose body mentions `f` -/
def idxLoopWith (f : Sym) : List Sk → Option Nat
  | [] => none
  | .loop b :: rest => if mentionsL f b then some 0 else (idxLoopWith f rest).map (· + 1)
  | _ :: rest => (idxLoopWith f rest).map (· + 1)

/-- index of the first top-level release of guard `g` -/
def idxRel (g : Nat) : List Sk → Option Nat
  | [] => none
  | .rel h :: rest => if h == g then some 0 else (idxRel g rest).map (· + 1)
  | _ :: rest => (idxRel g rest).map (· + 1)

def idxAcq : List Sk → Option Nat
  | [] => none
  | .acq _ _ :: _ => some 0
  | _ :: rest => (idxAcq rest).map (· + 1)

/-- `wait_for_answer`: inside the lock scope, after the slot assignment, `notify_all` is called. -/
def waitNotifiesOf (sk : List Sk) : Bool :=
  match idxAcq sk, idxCall .s_assign_deref sk, idxCall .s_notify_all sk, idxRel 0 sk with
  | some a, some w, some nf, some r => a < w && w < nf && nf < r
  | _, _, _, _ => false

/-- `visit`: `visited.insert` happens before the loop that recurses. -/
def marksFirstOf (sk : List Sk) : Bool :=
  match idxCall .s_insert sk, idxLoopWith .s_visit sk with
  | some i, some l => i < l
  | _, _ => false

/-- `hot_reloading_thread`: the inner (drain) loop has a way out of the *outer* loop. -/
def leavesOnDisconnectOf : List Sk → Bool
  | [_, _, .loop (_ :: .loop inner :: _)] => mentionsL .s_break_outer inner
  | _ => false

def hasBrk : List Sk → Bool
  | [] => false
  | .brk :: _ => true
  | _ :: rest => hasBrk rest

/-- `hot_reloading_thread`: the last statement of an iteration takes one event batch and its
`Disconnected` arm (the third) breaks out of the thread loop. -/
def leavesOnEventsDisconnectOf : List Sk → Bool
  | [_, _, .loop body] =>
    match body.getLast? with
    | some (.branch [[.call .s_try_recv, .branch [_, _, third]], _]) => hasBrk third
    | _ => false
  | _ => false

/-- `reload_untyped`: the recorded load runs under `catch_unwind` (and nowhere outside of it). -/
def catchesPanicOf (sk : List Sk) : Bool :=
  (idxCall .s_catch_unwind sk).isSome && !mentionsHereL .s_record sk && !mentionsHereL .s_load_asset sk
    && mentionsL .s_record sk

/-- The configuration of today's source. -/
def genCfg : Cfg where
  waitNotifies := waitNotifiesOf skel_hot_reloading_mod_Answers_wait_for_answer
  marksFirst := marksFirstOf skel_hot_reloading_dependencies_DepsGraph_visit
  leavesOnDisconnect := leavesOnDisconnectOf skel_hot_reloading_mod_hot_reloading_thread
  leavesOnEventsDisconnect := leavesOnEventsDisconnectOf skel_hot_reloading_mod_hot_reloading_thread
  catchesPanic := catchesPanicOf skel_anycache_AnyCache_reload_untyped

end AmVerif.Model.Reloader
