import AmVerif.Gen.Watch
/-!
# Watcher: notified path → `OwnedDirEntry`, and back (`path_of_entry`)

A path *is* its list of `std::path::Component`s (that is how `Path::{parent, strip_prefix,
file_name, file_stem, extension, ==}` are defined in `std`; the tokenisation `components()` itself
is trusted and done by the harness). OS strings are lists of units, a unit being a Unicode scalar
or a byte that is not part of well-formed UTF-8, so `OsStr::to_str` is "no bad unit".

`idOfPath` transcribes `id_of_path` (src/hot_reloading/watcher.rs), the loop body being driven by the
regenerated `Gen.compTable` and the statements around it by the regenerated `Gen.idShape`;
`batchOf`/`handleEvent` transcribe `NotifyEventHandler::handle_event`, driven by the regenerated
`Gen.watchTable` (the rest of its loop body is compared literally by `amx`); `pathOf`
transcribes `path_of_entry` (src/utils/private.rs). `isDir` is the state of the file system when
the event is handled (a parameter: the file system is not modelled).
-/
namespace AmVerif.Model.Watch
open AmVerif.Gen

/-! ## OS strings, components, paths -/

inductive OsCh | ch (c : Char) | bad (b : Nat)
  deriving DecidableEq, Repr

abbrev OsName := List OsCh

/-- `OsStr::to_str` -/
def toStr? : OsName → Option (List Char)
  | [] => some []
  | .ch c :: r => (toStr? r).map (c :: ·)
  | .bad _ :: _ => none

def ofStr (s : List Char) : OsName := s.map .ch

inductive Comp | pfx | rootDir | curDir | parentDir | normal (n : OsName)
  deriving DecidableEq, Repr

abbrev Path := List Comp

def Comp.kind : Comp → CompKind
  | .pfx => .pfx | .rootDir => .rootDir | .curDir => .curDir | .parentDir => .parentDir
  | .normal _ => .normal

/-- `Path::parent`: drop the last component if it is `Normal`, `.` or `..`. -/
def parentOf (p : Path) : Option Path :=
  match p.getLast? with
  | some (.normal _) | some .curDir | some .parentDir => some p.dropLast
  | _ => none

/-- `path.strip_prefix(root)`: component-wise. -/
def stripPrefix : (root p : Path) → Option Path
  | [], p => some p
  | _ :: _, [] => none
  | a :: r, b :: p => if a = b then stripPrefix r p else none

/-- `Path::file_name`: the last component if it is `Normal`. -/
def fileName (p : Path) : Option OsName :=
  match p.getLast? with
  | some (.normal n) => some n
  | _ => none

/-- Split at the **last** occurrence of `d`: `(before, after)`. -/
def splitLast {α} [DecidableEq α] (d : α) : List α → Option (List α × List α)
  | [] => none
  | c :: cs =>
    match splitLast d cs with
    | some (b, a) => some (c :: b, a)
    | none => if c = d then some ([], cs) else none

/-- `rsplit_file_at_dot` as used by `file_stem` / `extension`: `(stem, extension?)`. A name
without a dot, or whose only dot is the first unit, has no extension. (`Normal("..")` is not
producible by `components()`.) -/
def splitName (n : OsName) : OsName × Option OsName :=
  match splitLast (OsCh.ch '.') n with
  | none => (n, none)
  | some (b, a) => if b = [] then (n, none) else (b, some a)

/-- `utils::extension_of`: no extension is `""`; a non-UTF-8 extension is `None`. -/
def extensionOf (n : OsName) : Option (List Char) :=
  match (splitName n).2 with
  | none => some []
  | some e => toStr? e

/-! ## `IdBuilder` (src/utils/private.rs) -/

abbrev Buf := List Char

def push (buf : Buf) (s : List Char) : Option Buf :=
  if '.' ∈ s then none else some (if buf = [] then s else buf ++ '.' :: s)

def pop (buf : Buf) : Option Buf :=
  if buf = [] then none
  else some (match splitLast '.' buf with | some (b, _) => b | none => [])

/-! ## Entries -/

inductive Ent | file (id ext : List Char) | dir (id : List Char)
  deriving DecidableEq, Repr

def Ent.isDir : Ent → Bool | .dir _ => true | .file .. => false
def Ent.id : Ent → List Char | .dir i => i | .file i _ => i

/-! ## `id_of_path` -/

/-- One iteration of the `for comp in …` loop, by the regenerated component table. -/
def compStep (buf : Buf) (c : Comp) : Option Buf :=
  match compTable c.kind with
  | .push => match c with
    | .normal n => (toStr? n).bind (push buf)
    | _ => none
  | .pop => pop buf
  | .skip => some buf
  | .fail => none

def runComps (buf : Buf) : Path → Option Buf
  | [] => some buf
  | c :: cs => (compStep buf c).bind fun b => runComps b cs

/-- `file_name` / `file_stem` of the last component. -/
def namePart (np : NamePart) (name : OsName) : OsName :=
  match np with
  | .whole => name
  | .stem => (splitName name).1

/-- The extension of a file: `match path.extension()` refusing the empty one (`name.` is not the
path of `File("name", "")`), or plain `extension_of`, by the regenerated shape. -/
def fileExt (name : OsName) : Option (List Char) :=
  if idShape.emptyExtRefused then
    match (splitName name).2 with
    | none => some []
    | some e => if e = [] then none else toStr? e
  else extensionOf name

/-- The kind of the entry: what the notification says (`hint`) if it says something, else what the
file system says (`isDir`). -/
def kindOf (hint : Option Bool) (isDir : Bool) : Bool :=
  if idShape.kindFromHint then hint.getD isDir else isDir

def idOfPath (root path : Path) (hint : Option Bool) (isDir : Bool) : Option Ent :=
  if idShape.rootIsEmptyDir = true ∧ path = root then some (.dir []) else
  (parentOf path).bind fun par =>
  (stripPrefix root par).bind fun rel =>
  (runComps [] rel).bind fun buf =>
  (fileName path).bind fun name =>
  if kindOf hint isDir then
    (toStr? (namePart idShape.dirName name)).bind fun s =>
    (push buf s).map fun id => .dir id
  else
    (toStr? (namePart idShape.fileName name)).bind fun s =>
    (push buf s).bind fun id =>
    (fileExt name).map fun ext => .file id ext

/-! ## `NotifyEventHandler::handle_event` -/

/-- `DirEntry::parent_id` (src/source/mod.rs). -/
def parentId (id : List Char) : Option (List Char) :=
  if id = [] then none
  else some (match splitLast '.' id with | some (b, _) => b | none => [])

/-- `once(entry).chain(parent)`: the entry and, if asked for, the directory of its parent id. -/
def withParentOf (withParent : Bool) (e : Ent) : List Ent :=
  e :: (if withParent then ((parentId e.id).map Ent.dir).toList else [])

/-- What one notified path is translated to: under each root (in order) the entry `id_of_path`
gives, followed by its parent directory. -/
def batchOf (roots : List Path) (withParent : Bool) (hint : Option Bool) (isDir : Bool) (p : Path) : List Ent :=
  roots.flatMap fun r =>
    match idOfPath r p hint isDir with
    | none => []
    | some e => withParentOf withParent e

structure Handler where
  roots : List Path
  hasWatcher : Bool
  deriving Repr

/-- One `notify::Event{kind, paths}` handled while the receiving end of the event channel is
`connected` or not. Returns the handler and the messages that were delivered: one per notified
path, even when the batch is empty — except that `send_multiple` sends nothing when the iterator
is known to be empty, which is the case exactly when there is no root. A failed send drops the
watcher. -/
def handleEvent (h : Handler) (connected : Bool) (isDir : Path → Bool) (k : EvKind) :
    List Path → Handler × List (List Ent)
  | [] => (h, [])
  | p :: ps =>
    match watchTable k with
    | .ret => (h, [])
    | .act wp hint =>
      if h.roots = [] then handleEvent h connected isDir k ps
      else if connected then
        let r := handleEvent h true isDir k ps
        (r.1, batchOf h.roots wp hint (isDir p) p :: r.2)
      else
        handleEvent { h with hasWatcher := false } false isDir k ps

/-! ## `path_of_entry` -/

/-- `str::split('.')` -/
def splitDot : List Char → List (List Char)
  | [] => [[]]
  | c :: cs =>
    if c = '.' then [] :: splitDot cs
    else match splitDot cs with
      | [] => [[c]]
      | w :: ws => (c :: w) :: ws

def joinDot : List (List Char) → List Char
  | [] => []
  | [w] => w
  | w :: ws => w ++ '.' :: joinDot ws

/-- `PathBuf::push` of a separator-free string (an empty one adds no component). -/
def pushSeg (p : Path) (seg : List Char) : Path :=
  if seg = [] then p else p ++ [.normal (ofStr seg)]

/-- `PathBuf::set_extension`: acts on the last component if it is `Normal`. -/
def setExtension (p : Path) (ext : List Char) : Path :=
  match p.getLast? with
  | some (.normal n) =>
    p.dropLast ++ [.normal ((splitName n).1 ++ (if ext = [] then [] else .ch '.' :: ofStr ext))]
  | _ => p

/-- `path_of_entry`. `none`: the id or extension contains a path separator (not modelled:
`PathBuf::push` would add several components or replace the path). -/
def pathOf (root : Path) : Ent → Option Path
  | .dir id => if '/' ∈ id then none else some ((splitDot id).foldl pushSeg root)
  | .file id ext =>
    if '/' ∈ id ∨ '/' ∈ ext then none
    else some (setExtension ((splitDot id).foldl pushSeg root) ext)

end AmVerif.Model.Watch
