import AmVerif.Gen.Skel
/-!
# Reader / writer model of one dynamic (hot-reloadable) cache entry — C07

Word granularity: the value is `k` words, each carrying the *version* of the value it belongs to;
`swap_any` copies one word per atomic step, a reader reads one word per atomic step, so a torn
read is expressible. Threads:

* any number `n` of **readers**: `acq ; (readW i | readId | map)* ; rel` — the choices are taken from
  the schedule label, so every reader program is covered;
* the **reloader** thread: `try_recv` a `Ptr(token)` from the channel, then the *Ptr arm* of the thread
  loop (`cfg.arm`, regenerated from `hot_reloading_thread`): `update` = any number of `write` calls
  (chosen by the schedule), `notify` = post the answer for the token. A `write` call runs `cfg.wprog`,
  the step program compiled from the regenerated skeleton of `UntypedEntry::write`;
* any number of **callers** of `hot_reload` (local mode): `tok ; send Ptr ; wait ; return`.

`RwLock` is modelled by its specification: the writer thread's mode `wheld`, the readers' `locked`
flags; `write` is acquirable iff nobody holds anything, `read` iff no writer holds `write`.
The `Answers` mailbox is abstracted to the set of posted answers (safety only; its liveness is C08).
The state carries a ghost event log (`log`, newest first) used to state the hot-reload theorems.
-/
namespace AmVerif.Model.Iso
open AmVerif.Gen

inductive LockKind | read | write
  deriving DecidableEq, Repr

/-- Steps of one `UntypedEntry::write` call. `copy` stands for `swap_any`: `k` word copies. -/
inductive WStep | acq (k : LockKind) | copy | inc | setFlag | rel
  deriving DecidableEq, Repr

/-- Steps of the `Ptr` arm of the reloader's loop. -/
inductive RStep | update | notify
  deriving DecidableEq, Repr

/-- What the model takes from the source. -/
structure Cfg where
  k : Nat
  wprog : List WStep
  /-- `EntryStorage::read` takes `lock.read()` and the guard leaves inside the `AssetReadGuard` -/
  readLocks : Bool
  /-- `AssetReadGuard::{map,try_map}` move the guard on -/
  mapKeeps : Bool
  arm : List RStep
  /-- `HotReloader::reload` waits for its answer after sending `Ptr` -/
  callerWaits : Bool

/-- Reader: idle, or holding an `AssetReadGuard` (`locked`: the read lock is really held) with what
it has observed under this guard: `(word index, version)` pairs and reload ids. -/
inductive RS | idle | hold (locked : Bool) (ow : List (Nat × Nat)) (oid : List Nat)
  deriving DecidableEq, Repr

inductive CS | idle | got (t : Nat) | waiting (t : Nat)
  deriving DecidableEq, Repr

/-- Ghost events: a write to the entry (word copy or id increment) during the pass of token `t`;
caller `c` sent `Ptr(t)`; caller `c` returned from `hot_reload` with token `t`. -/
inductive Ev | wr (t : Nat) | sent (c t : Nat) | ret (c t : Nat)
  deriving DecidableEq, Repr

/-- Schedule labels: which thread moves (and, for readers / the update loop, its choice). -/
inductive Act
  | acq (r : Nat) | readW (r i : Nat) | readId (r : Nat) | map (r : Nat) | rel (r : Nat)
  | rl (more : Bool)
  | tok (c : Nat) | send (c : Nat) | ret (c : Nat)
  deriving DecidableEq, Repr

structure St where
  n : Nat
  words : Nat → Nat
  rid : Nat
  flag : Bool
  wheld : Option LockKind
  rd : Nat → RS
  wrest : List WStep
  ci : Nat
  ver : Nat
  rrest : List RStep
  cur : Nat
  queue : List Nat
  answered : List Nat
  cl : Nat → CS
  nextTok : Nat
  log : List Ev

def upd {α} (f : Nat → α) (i : Nat) (v : α) : Nat → α := fun j => if j = i then v else f j

def RS.locked : RS → Bool
  | .hold l _ _ => l
  | .idle => false

def RS.holding : RS → Bool
  | .hold _ _ _ => true
  | .idle => false

/-- Does some reader hold the read lock? -/
def St.readersLocked (s : St) : Bool := (List.range s.n).any fun r => (s.rd r).locked

def init (n : Nat) : St :=
  { n, words := fun _ => 0, rid := 0, flag := false, wheld := none, rd := fun _ => .idle, wrest := [], ci := 0,
    ver := 0, rrest := [], cur := 0, queue := [], answered := [], cl := fun _ => .idle, nextTok := 0, log := [] }

/-- One step of the current `write` call (`s.wrest = w :: rest`). A disabled step is a stutter. -/
def stepW (cfg : Cfg) (s : St) (w : WStep) (rest : List WStep) : St :=
  match w with
  | .acq .read => if s.wheld = none then { s with wheld := some .read, wrest := rest } else s
  | .acq .write => if s.wheld = none ∧ s.readersLocked = false then { s with wheld := some .write, wrest := rest } else s
  | .copy =>
    if s.ci < cfg.k then { s with words := upd s.words s.ci s.ver, ci := s.ci + 1, log := .wr s.cur :: s.log }
    else { s with ci := 0, wrest := rest }
  | .inc => { s with rid := s.rid + 1, wrest := rest, log := .wr s.cur :: s.log }
  | .setFlag => { s with flag := true, wrest := rest }
  | .rel => { s with wheld := none, wrest := rest }

/-- The reloader thread. -/
def stepRl (cfg : Cfg) (s : St) (more : Bool) : St :=
  match s.wrest with
  | w :: rest => stepW cfg s w rest
  | [] =>
    match s.rrest with
    | [] =>
      match s.queue with
      | t :: q => { s with cur := t, queue := q, rrest := cfg.arm }
      | [] => s
    | .update :: rr => if more then { s with ver := s.ver + 1, wrest := cfg.wprog } else { s with rrest := rr }
    | .notify :: rr => { s with answered := s.cur :: s.answered, rrest := rr }

def stepReader (cfg : Cfg) (s : St) (r : Nat) : Act → St
  | .acq _ =>
    match s.rd r with
    | .idle =>
      if r < s.n ∧ (cfg.readLocks = true → s.wheld ≠ some .write) then { s with rd := upd s.rd r (.hold cfg.readLocks [] []) } else s
    | _ => s
  | .readW _ i =>
    match s.rd r with
    | .hold l ow oid => if i < cfg.k then { s with rd := upd s.rd r (.hold l ((i, s.words i) :: ow) oid) } else s
    | _ => s
  | .readId _ =>
    match s.rd r with
    | .hold l ow oid => { s with rd := upd s.rd r (.hold l ow (s.rid :: oid)) }
    | _ => s
  | .map _ =>
    match s.rd r with
    | .hold l ow oid => { s with rd := upd s.rd r (.hold (l && cfg.mapKeeps) ow oid) }
    | _ => s
  | .rel _ =>
    match s.rd r with
    | .hold _ _ _ => { s with rd := upd s.rd r .idle }
    | _ => s
  | _ => s

def stepCaller (cfg : Cfg) (s : St) (c : Nat) : Act → St
  | .tok _ =>
    match s.cl c with
    | .idle => { s with cl := upd s.cl c (.got s.nextTok), nextTok := s.nextTok + 1 }
    | _ => s
  | .send _ =>
    match s.cl c with
    | .got t => { s with cl := upd s.cl c (.waiting t), queue := s.queue ++ [t], log := .sent c t :: s.log }
    | _ => s
  | .ret _ =>
    match s.cl c with
    | .waiting t => if t ∈ s.answered ∨ cfg.callerWaits = false then { s with cl := upd s.cl c .idle, log := .ret c t :: s.log } else s
    | _ => s
  | _ => s

def step (cfg : Cfg) (s : St) (a : Act) : St :=
  match a with
  | .acq r | .readW r _ | .readId r | .map r | .rel r => stepReader cfg s r a
  | .rl more => stepRl cfg s more
  | .tok c | .send c | .ret c => stepCaller cfg s c a

def run (cfg : Cfg) (s : St) : List Act → St
  | [] => s
  | a :: as => run cfg (step cfg s a) as

/-! ## Well-formedness of what was extracted (executable) -/

/-- Lock discipline of a `write` program, given the mode currently held by the writer thread:
acquire only when nothing is held, release only what is held, `copy` and `inc` only under `write`,
nothing held at the end. -/
def wfW : Option LockKind → List WStep → Bool
  | h, [] => h.isNone
  | h, .acq k :: r => h.isNone && wfW (some k) r
  | h, .rel :: r => h.isSome && wfW none r
  | h, .copy :: r => (h == some .write) && wfW h r
  | h, .inc :: r => (h == some .write) && wfW h r
  | h, .setFlag :: r => wfW h r

/-- Order of effects of a `write` program: the id is incremented at most once, and only after a
complete copy (`copied`: a copy has completed, `incd`: the increment has happened). -/
def ordOk : Bool → Bool → List WStep → Bool
  | _, _, [] => true
  | _, i, .copy :: r => ordOk true i r
  | c, i, .inc :: r => c && !i && ordOk c true r
  | c, i, _ :: r => ordOk c i r

/-- Every `update` of the arm is followed by a `notify`, and the `notify` is the last step. -/
def armOk : List RStep → Bool
  | [] => true
  | .update :: r => r.contains .notify && armOk r
  | .notify :: r => r.isEmpty

def Cfg.WF (cfg : Cfg) : Bool :=
  wfW none cfg.wprog && ordOk false false cfg.wprog && cfg.readLocks && cfg.mapKeeps && armOk cfg.arm && cfg.callerWaits

/-! ## Compilation of the regenerated skeletons into the model's programs -/

/-- tokens over the generated vocabulary -/
abbrev GSk := AmVerif.Gen.Sk

def isRet : GSk → Bool | .ret => true | _ => false

/-- One token of the body of `write`; `none` = a shape this model does not interpret (refused). -/
def tokW : GSk → Option (List WStep)
  | .acq .s_write _ => some [.acq .write]
  | .acq .s_read _ => some [.acq .read]
  | .acq _ _ => none
  | .rel _ => some [.rel]
  | .retGuard _ => none
  | .call .s_swap_any => some [.copy]
  | .call .s_increment => some [.inc]
  | .call .s_store_Release => some [.setFlag]
  | .call _ => some []
  | .branch _ | .loop _ | .closure _ => none
  | .ret | .brk | .cont | .try_ => some []

def compileSeq : List GSk → Option (List WStep)
  | [] => some []
  | t :: ts => do let a ← tokW t; let b ← compileSeq ts; pure (a ++ b)

/-- The dynamic branch of `UntypedEntry::write` (`if let Some(d) = &self.dynamic { … return }`), up to
its `return`; whatever precedes the branch is compiled too (effects moved in front of the lock). -/
def compileWrite : List GSk → Option (List WStep)
  | [] => none
  | .branch (alt :: _) :: _ => if alt.any isRet then compileSeq (alt.takeWhile fun t => !isRet t) else none
  | t :: ts => do let a ← tokW t; let b ← compileWrite ts; pure (a ++ b)

/-- `[.copy]` is deliberately ill-formed: if the skeleton is refused, `Cfg.WF` is false. -/
def codeWProg : List WStep := (compileWrite skel_entry_UntypedEntry_write).getD [.copy]

/-! The extraction below looks for the *relevant* tokens only, so that effect-free additions to the
listed functions (logging, verification yield points) do not change the configuration. -/

def firstLoop (l : List GSk) : Option (List GSk) := l.findSome? fun | .loop b => some b | _ => none
def firstBranch (l : List GSk) : Option (List (List GSk)) := l.findSome? fun | .branch a => some a | _ => none
def acqReadIn (l : List GSk) : Option Nat := l.findSome? fun | .acq .s_read g => some g | _ => none
def noLockOps (l : List GSk) : Bool := l.all fun | .acq _ _ | .rel _ | .retGuard _ => false | _ => true
def hasMoved (l : List GSk) : Bool := l.any fun | .call .s_guard_moved => true | _ => false
def hasCall (f : Sym) (l : List GSk) : Bool := l.any fun | .call g => g == f | _ => false

/-- `EntryStorage::read`: `lock.read()` is taken (inside the `Option::map` closure), that very guard
leaves the function inside the returned struct, nothing is released. -/
def codeReadLocks : Bool :=
  match skel_entry_EntryStorage_read.findSome? (fun | .closure b => acqReadIn b | .acq .s_read g => some g | _ => none) with
  | some g => skel_entry_EntryStorage_read.any (fun | .retGuard g' => g == g' | _ => false) &&
              skel_entry_EntryStorage_read.all (fun | .rel _ => false | _ => true)
  | none => false

/-- `map` / `try_map`: the guard of the consumed `AssetReadGuard` is moved into the new one; no lock operation. -/
def codeMapKeeps : Bool :=
  hasMoved skel_entry_AssetReadGuard_map && noLockOps skel_entry_AssetReadGuard_map &&
  noLockOps skel_entry_AssetReadGuard_try_map &&
  (match firstBranch skel_entry_AssetReadGuard_try_map with
   | some (alt :: _) => hasMoved alt && noLockOps alt
   | _ => false)

def tokR : GSk → List RStep
  | .call .s_update_if_local => [.update]
  | .call .s_notify => [.notify]
  | _ => []

/-- The `Ok(CacheMessage::Ptr(..))` arm (first arm of the `match` in the inner loop of the thread's
main loop). `[notify, update]` is deliberately ill-formed: if the shape is not found, `Cfg.WF` is false. -/
def codeArm : List RStep :=
  match ((firstLoop skel_hot_reloading_mod_hot_reloading_thread).bind firstLoop).bind firstBranch with
  | some (arm :: _) => arm.flatMap tokR
  | _ => [.notify, .update]

/-- `HotReloader::reload`: after `send`, the success branch waits for the answer. -/
def codeCallerWaits : Bool :=
  match skel_hot_reloading_mod_HotReloader_reload.dropWhile (fun | .call .s_send => false | _ => true) with
  | _ :: rest => (match firstBranch rest with
    | some (alt :: _) => hasCall .s_wait_for_answer alt
    | _ => false)
  | [] => false

/-- The configuration the current source yields, for values of `k` words. -/
def codeCfg (k : Nat) : Cfg :=
  { k, wprog := codeWProg, readLocks := codeReadLocks, mapKeeps := codeMapKeeps, arm := codeArm, callerWaits := codeCallerWaits }

/-! ## Executable statements of the properties (used by the driver's model-side search) -/

def obsUniform (ow : List (Nat × Nat)) : Bool :=
  match ow with
  | [] => true
  | p :: r => r.all fun q => q.2 == p.2

/-- What must hold of every reader that holds a guard: everything it has observed under the guard
still is what the entry holds (pinned), all observed words carry one version (not torn). -/
def readerOk (s : St) (r : Nat) : Bool :=
  match s.rd r with
  | .idle => true
  | .hold _ ow oid => ow.all (fun p => s.words p.1 == p.2) && oid.all (· == s.rid) && obsUniform ow

/-- Newest-first log: every write of pass `t` has, before it, a `sent c t` whose caller has not
returned, and no return of token `t` at all. -/
def logOk : List Ev → Bool
  | [] => true
  | .wr t :: older =>
    older.any (fun e => match e with | .sent _ t' => t' == t | _ => false) &&
    !older.any (fun e => match e with | .ret _ t' => t' == t | _ => false) && logOk older
  | _ :: older => logOk older

def stateOk (cfg : Cfg) (s : St) : Bool :=
  (List.range s.n).all (readerOk s) && logOk s.log && (List.range cfg.k).all (fun i => s.rid ≤ s.words i)

/-- Pseudo-random schedules (LCG) — a *search* for a violating schedule, not a proof. -/
def pickAct (n callers k x : Nat) : Act :=
  let r := (x / 16) % (n + 1)
  let c := (x / 16) % (callers + 1)
  match x % 16 with
  | 0 | 1 => .acq r | 2 | 3 => .readW r ((x / 1024) % (k + 1)) | 4 => .readId r | 5 => .map r | 6 => .rel r
  | 7 | 8 | 9 | 10 | 11 => .rl ((x / 4096) % 2 == 0)
  | 12 => .tok c | 13 => .send c | _ => .ret c

def search (cfg : Cfg) (n callers : Nat) : Nat → Nat → St → Option Nat
  | 0, _, _ => none
  | fuel + 1, x, s =>
    let x' := (x * 6364136223846793005 + 1442695040888963407) % 18446744073709551616
    let s' := step cfg s (pickAct n callers cfg.k (x' / 65536))
    if stateOk cfg s' then search cfg n callers fuel x' s' else some fuel

end AmVerif.Model.Iso
