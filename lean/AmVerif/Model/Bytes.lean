import AmVerif.Gen.Bytes
/-!
# SharedBytes / SharedString — executable model

One shared buffer (`Obj`) = the heap header `Inner {count, ptr, len, capacity}`, the bytes `ptr`
points at, and an *allocation ledger* (which blocks are live, with which layout they were
allocated, how often each was freed, every fault). Handles are entries of a list (id, owning
thread). A concurrent execution is a list of `Act`s: each is ONE atomic step of one thread
(`clone` = the `fetch_add`; `drop` = the `fetch_sub`; the three steps of `drop_slow`; a `deref`;
a move of a handle to another thread). Quantifying over all `List Act` quantifies over all
programs of all threads and all their interleavings at once; a step that is not enabled
(unknown handle, no pending `drop_slow`) is a stutter.

Everything the steps *do* comes from the definitions regenerated from `src/utils/bytes.rs`
(`AmVerif.Gen.Bytes`): the RMW of `clone` / `drop` and its "was last" test, the branch and the
layouts of `drop_slow`, the layouts and header literals of `from_slice` / `from_vec`.
-/
namespace AmVerif.Model.Bytes
open AmVerif.Model AmVerif.Gen

abbrev Byte := UInt8
abbrev Tid := Nat

inductive Fault
  | useAfterFree      -- header or data touched after its block was freed
  | doubleFree        -- a block freed twice
  | layoutMismatch    -- `dealloc` layout ≠ `alloc` layout
  | vecMismatch       -- `Vec::from_raw_parts` with a capacity ≠ the leaked Vec's / no such Vec
  | noLayout          -- layout computation panicked inside `drop_slow`
  | underflow         -- `fetch_sub` on a zero count
  deriving DecidableEq, Repr

/-- One shared buffer with its allocation ledger. -/
structure Obj where
  count : Nat
  len : Nat
  capacity : Nat
  data : DataLoc
  /-- the initialised bytes `ptr` points at -/
  mem : List Byte
  hdrLive : Bool
  /-- layout the header block was allocated with -/
  hdrLayout : Layout
  /-- a leaked `Vec` allocation is live (only ever true when its capacity is non-zero) -/
  vecLive : Bool
  /-- capacity that `Vec` was allocated with -/
  vecCap : Nat
  hdrFrees : Nat
  vecFrees : Nat
  faults : List Fault
  deriving DecidableEq, Repr

/-- Install a header literal into a fresh block. -/
def mkObj (lay : Layout) (h : HeaderInit) (mem : List Byte) (vecCap : Nat) : Obj :=
  { count := h.count, len := h.len, capacity := h.capacity, data := h.data, mem := mem,
    hdrLive := true, hdrLayout := lay, vecLive := decide (h.data = .vec ∧ vecCap ≠ 0), vecCap := vecCap,
    hdrFrees := 0, vecFrees := 0, faults := [] }

/-- `SharedBytes::from_slice`; `none` = panic before anything was allocated. -/
def fromSlice (src : List Byte) : Option Obj :=
  match SharedBytes_from_slice_layout src.length with
  | none => none
  | some lay =>
    some (mkObj lay (SharedBytes_from_slice_header src.length)
      (src.take (SharedBytes_from_slice_copy src.length)) 0)

/-- `SharedBytes::from_vec` of a `Vec` with contents `src` and capacity `cap` (a `Vec` always has
`len ≤ capacity`; a `Vec<u8>` of capacity 0 owns no allocation). -/
def fromVec (cap : Nat) (src : List Byte) : Option Obj :=
  if src.length ≤ cap then
    match SharedBytes_from_vec_layout with
    | none => none
    | some lay => some (mkObj lay (SharedBytes_from_vec_header src.length cap) src cap)
  else none

/-- Read a header field (as a number; `ptr` is not a number in the model). -/
def Obj.field (o : Obj) : HeaderField → Option Nat
  | .len => some o.len
  | .capacity => some o.capacity
  | .count => some o.count
  | .ptr => none

/-- `Deref::deref`: the `len`-field many bytes at `ptr`; `none` if the header or the data is gone,
or if the extracted `from_raw_parts` arguments are not `(ptr, <a length field>)`. -/
def Obj.dataLive (o : Obj) : Bool :=
  match o.data with
  | .inline => o.hdrLive
  | .vec => o.vecLive || o.vecCap == 0

def Obj.deref (o : Obj) : Option (List Byte) :=
  if o.hdrLive && o.dataLive then
    match SharedBytes_deref.1, o.field SharedBytes_deref.2 with
    | .ptr, some n => if n ≤ o.mem.length then some (o.mem.take n) else none
    | _, _ => none
  else none

/-! ## Concurrent executions -/

/-- The position of a thread inside `drop_slow`. -/
inductive Stage | sync | freeData | dealloc
  deriving DecidableEq, Repr

structure Sys where
  obj : Obj
  /-- live handles: (handle id, owning thread) -/
  handles : List (Nat × Tid)
  next : Nat
  /-- threads that are inside `drop_slow` -/
  slow : List (Tid × Stage)
  /-- result of every `deref` performed so far (`none` = read of freed memory) -/
  reads : List (Option (List Byte))
  deriving DecidableEq, Repr

inductive Act
  /-- thread `t` clones through a reference to the live handle `h`; it owns the new handle -/
  | clone (h : Nat) (t : Tid)
  /-- thread `t` reads the contents through a reference to the live handle `h` -/
  | deref (h : Nat) (t : Tid)
  /-- handle `h` is moved to thread `t` -/
  | move (h : Nat) (t : Tid)
  /-- the owner of `h` runs the `fetch_sub` of `Drop::drop` (the handle is consumed) -/
  | drop (h : Nat)
  /-- thread `t` performs the next step of its pending `drop_slow` -/
  | cont (t : Tid)
  deriving DecidableEq, Repr

def hasHandle (s : Sys) (h : Nat) : Bool := s.handles.any (·.1 == h)
def ownerOf (s : Sys) (h : Nat) : Option Tid := (s.handles.find? (·.1 == h)).map (·.2)

/-- Touching the header (any field) is a fault once the block is freed. -/
def touchHeader (o : Obj) : Obj :=
  if o.hdrLive then o else { o with faults := .useAfterFree :: o.faults }

def Obj.freeVec (o : Obj) : Obj :=
  if !o.vecLive then
    -- `Vec::from_raw_parts(_, _, 0)` owns nothing: dropping it frees nothing
    if o.capacity = 0 then o
    else { o with faults := (if o.vecFrees = 0 then Fault.vecMismatch else Fault.doubleFree) :: o.faults }
  else if o.capacity ≠ o.vecCap ∨ o.data ≠ .vec then { o with faults := .vecMismatch :: o.faults }
  else { o with vecLive := false, vecFrees := o.vecFrees + 1 }

def Obj.dealloc (o : Obj) (lay : Layout) : Obj :=
  if !o.hdrLive then { o with faults := .doubleFree :: o.faults }
  else if lay ≠ o.hdrLayout then { o with faults := .layoutMismatch :: o.faults }
  else { o with hdrLive := false, hdrFrees := o.hdrFrees + 1 }

/-- One atomic step. -/
def step (s : Sys) : Act → Sys
  | .clone h t =>
    if hasHandle s h then
      let o := touchHeader s.obj
      let (_, c) := SharedBytes_clone o.count
      { s with obj := { o with count := c }, handles := s.handles ++ [(s.next, t)], next := s.next + 1 }
    else s
  | .deref h _ =>
    if hasHandle s h then { s with reads := s.obj.deref :: s.reads } else s
  | .move h t =>
    if hasHandle s h then { s with handles := s.handles.map fun p => if p.1 == h then (p.1, t) else p }
    else s
  | .drop h =>
    match ownerOf s h with
    | none => s
    | some t =>
      let o := touchHeader s.obj
      let o := if o.count = 0 then { o with faults := .underflow :: o.faults } else o
      let (last, c) := SharedBytes_drop o.count
      { s with obj := { o with count := c }, handles := s.handles.eraseP (·.1 == h),
               slow := if last then s.slow ++ [(t, .sync)] else s.slow }
  | .cont t =>
    match s.slow.find? (·.1 == t) with
    | none => s
    | some (_, st) =>
      let rest := s.slow.eraseP (·.1 == t)
      match st with
      | .sync =>
        -- the Acquire load(s) / fence(s): no effect on the value under SC
        { s with obj := touchHeader s.obj, slow := rest ++ [(t, .freeData)] }
      | .freeData =>
        let o := touchHeader s.obj
        let o := if (SharedBytes_drop_slow_plan o.len o.capacity).1 then o.freeVec else o
        { s with obj := o, slow := rest ++ [(t, .dealloc)] }
      | .dealloc =>
        let o := s.obj
        let o := match (SharedBytes_drop_slow_plan o.len o.capacity).2 with
          | none => { o with faults := .noLayout :: o.faults }
          | some lay => o.dealloc lay
        { s with obj := o, slow := rest }

def run (s : Sys) : List Act → Sys
  | [] => s
  | a :: as => run (step s a) as

/-- A freshly constructed buffer: one handle (id 0) owned by thread `t`. -/
def init (o : Obj) (t : Tid) : Sys := { obj := o, handles := [(0, t)], next := 1, slow := [], reads := [] }

/-- The public construction paths (`From<&[u8]>`, `From<Vec<u8>>`, `From<Box<[u8]>>`, `From<Cow>`,
`FromIterator`), dispatched by the extracted table. `cap` is the capacity of the `Vec` involved
(chosen by the caller / by `collect`; a boxed slice always has capacity = length). `From<&SharedBytes>`
is `clone` and creates no new buffer. -/
def construct (p : BytesSrc) (cap : Nat) (src : List Byte) : Option Obj :=
  match bytesFrom.lookup p with
  | some .fromSlice => fromSlice src
  | some .fromVec => fromVec (if p = .boxed then src.length else cap) src
  | _ => none

/-- Every allocation of the buffer has been returned (what the allocator ledger of the harness
observes as "no live block"). -/
def Obj.released (o : Obj) : Bool := !o.hdrLive && !o.vecLive

/-! ## SharedString -/

def toBA (b : List Byte) : ByteArray := ⟨b.toArray⟩

/-- `SharedString::from_utf8` on a buffer holding `b`: the same buffer, or the error. -/
def fromUtf8 (b : List Byte) : Option (List Byte) :=
  if (toBA b).IsValidUTF8 then some b else none

/-- Largest `k ≤ n` such that the first `k` bytes are valid UTF-8 (`0` always is). -/
def maxValid (b : List Byte) : Nat → Nat
  | 0 => 0
  | k + 1 => if (toBA (b.take (k + 1))).IsValidUTF8 then k + 1 else maxValid b k

/-- `Utf8Error::valid_up_to` as documented: "the maximum index such that
`from_utf8(&input[..index])` would return `Ok(_)`". -/
def validUpTo (b : List Byte) : Nat := maxValid b b.length

/-! ## Comparison and hashing like the slices -/

/-- Lexicographic comparison of byte slices (`<[u8] as Ord>::cmp`, and `<str as Ord>::cmp`). -/
def lexCmp : List Byte → List Byte → Ordering
  | [], [] => .eq
  | [], _ :: _ => .lt
  | _ :: _, [] => .gt
  | a :: as, b :: bs => if a < b then .lt else if b < a then .gt else lexCmp as bs

/-- What a `Hasher` is fed. -/
inductive HashTok | lenPrefix (n : Nat) | bytes (b : List Byte) | u8 (b : Nat)
  deriving DecidableEq, Repr

/-- `<[u8] as Hash>::hash`: length prefix, then the bytes. -/
def hashSlice (b : List Byte) : List HashTok := [.lenPrefix b.length, .bytes b]
/-- `<str as Hash>::hash`: the bytes, then `0xff`. -/
def hashStr (b : List Byte) : List HashTok := [.bytes b, .u8 255]

end AmVerif.Model.Bytes
