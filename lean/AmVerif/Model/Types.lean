import AmVerif.Model.World
import AmVerif.Gen.TabErr
import AmVerif.Gen.TabLoad
/-!
# The type universe of the harness, as loader programs

Mirrors `/verif/harness/src/types.rs`: script compounds `S0..S2` (hot) and `N0` (opted out),
assets `M<e,d>` over the extension table, `Directory` / `RecursiveDirectory` of `M<e,0>`, storables.
The asset program is the regenerated `load_from_source` (`Gen.loadFromSourceK`) instantiated
with `Prog.read`; directory programs transcribe `dirs.rs`.
-/
namespace AmVerif.Model
open AmVerif.Gen

/-! ## Canonical text of errors and values (shared with the driver's output) -/

def hexDigitC (n : Nat) : Char := if n < 10 then Char.ofNat (48 + n) else Char.ofNat (87 + n)
def hexBytes (bs : List UInt8) : String :=
  if bs.isEmpty then "-" else String.ofList (bs.flatMap fun b => [hexDigitC (b.toNat / 16), hexDigitC (b.toNat % 16)])
def hexString (s : String) : String := hexBytes s.toUTF8.toList

def canonErr : LErr → String
  | .noDefault => "nodefault"
  | .io e => s!"io:{e.kind}:{hexString e.tag}"
  | .conv t => s!"conv:{hexString t}"
  | .custom m => s!"custom:{m}"
  | .wrapped id e => s!"in:{hexString id}/{canonErr e}"

def ekToLErr : EK → LErr
  | .noDefault => .noDefault
  | .io e => .io e
  | .conv t => .conv t

/-! ## Assets `M<e,d>` -/

def extTable : List (List String) := [[], [""], ["a"], ["a", "b"], ["a", "b", "c"], ["x", "a"]]
def extsOf (e : Nat) : List String := extTable.getD e []

def parseNat? (cs : List Char) : Option Nat :=
  if cs.isEmpty ∨ cs.length > 15 then none else
  cs.foldl (fun acc c => acc.bind fun n => if '0' ≤ c ∧ c ≤ '9' then some (10 * n + (c.toNat - 48)) else none) (some 0)

def parseInt? (cs : List Char) : Option Int :=
  match cs with
  | '-' :: rest => (parseNat? rest).map fun n => - (n : Int)
  | _ => (parseNat? cs).map fun n => (n : Int)

/-- `MLoader::load`: content must be `ok:<int>` (ASCII); the value remembers extension and bytes. -/
def mDecode (bytes : List UInt8) (ext : String) : Except String Val :=
  match String.fromUTF8? (ByteArray.mk bytes.toArray) with
  | none => .error ext
  | some s =>
    match s.toList with
    | 'o' :: 'k' :: ':' :: rest =>
      match parseInt? rest with
      | some n => .ok (.asset n ext bytes)
      | none => .error ext
    | _ => .error ext

/-- `default_value` of `M<e,1>`: always `Ok`, remembering which error it was handed. -/
def mDefault (d : Bool) (e : EK) : Except EK Val :=
  if d then .ok (.asset (-1) (canonErr (ekToLErr e)) []) else .error e

def assetProg (exts : List String) (d : Bool) (id : String) : Prog :=
  loadFromSourceK (ρ := Prog) (fun ext k => .read id ext k) mDecode exts (mDefault d) fun r =>
    match r with
    | .ok v => .ret v
    | .error e => .fail (ekToLErr e)

/-! ## Directories (`dirs.rs`) -/

def insertSorted (x : String) : List String → List String
  | [] => [x]
  | y :: ys => if x < y then x :: y :: ys else y :: insertSorted x ys

def sortStrings (l : List String) : List String := l.foldr insertSorted []

def dedupAdj : List String → List String
  | [] => []
  | [x] => [x]
  | x :: y :: rest => if x = y then dedupAdj (y :: rest) else x :: dedupAdj (y :: rest)

def selectIds (exts : List String) (ents : List DirEnt) : List String :=
  ents.filterMap fun
    | .file id ext => if ext ∈ exts then some id else none
    | .dir _ => none

def subDirs (ents : List DirEnt) : List String :=
  ents.filterMap fun
    | .dir id => some id
    | .file _ _ => none

/-- `Directory<T>::load` -/
def dirProg (exts : List String) (id : String) : Prog :=
  .readDir id fun r =>
    match r with
    | .error e => .fail (.io e)
    | .ok ents => .ret (.ids (dedupAdj (sortStrings (selectIds exts ents))))

/-- the loop over sub-directories of `RecursiveDirectory<T>::load`: errors of children are ignored -/
def loadChildren (recTy : Nat) : List String → List String → Prog
  | [], acc => .ret (.ids acc)
  | c :: cs, acc => .load ⟨recTy, c⟩ fun r =>
      match r with
      | .ok (.ids l) => loadChildren recTy cs (acc ++ l)
      | _ => loadChildren recTy cs acc

/-- `RecursiveDirectory<T>::load` -/
def recDirProg (dirTy recTy : Nat) (id : String) : Prog :=
  .load ⟨dirTy, id⟩ fun r =>
    match r with
    | .error e => .fail e
    | .ok (.ids own) => .readDir id fun r2 =>
        match r2 with
        | .error e => .fail (.io e)
        | .ok ents => loadChildren recTy (subDirs ents) own
    | .ok _ => .panic

/-! ## Script compounds

A script is a list of tokens; `@T:id:n` is `get_or_insert::<T>(id, T::from_int(n))` from inside the
loader (possibly into the very slot that is being loaded). Same accepted and rejected forms as
`parse_script` in `harness/src/types.rs`. -/

inductive Tok
  | lit (n : Int)
  | load (ty : Nat) (id : String)       -- `+T:id`  load, propagate error
  | loadIgn (ty : Nat) (id : String)    -- `=T:id`  load, ignore error
  | cached (ty : Nat) (id : String)     -- `?T:id`  get_cached
  | owned (ty : Nat) (id : String)      -- `!T:id`  load_owned
  | noRec (ty : Nat) (id : String)      -- `~T:id`  load inside no_record
  | thread (ty : Nat) (id : String)     -- `&T:id`  load on a helper thread
  | catch (ty : Nat) (id : String)      -- `^T:id`  catch_unwind(no_record(load)); a panic adds 7777
  | raw (id ext : String)               -- `r:id:ext` raw read, adds the length
  | goi (ty : Nat) (id : String) (n : Int)  -- `@T:id:n` get_or_insert(id, T::from_int(n)), adds the value found / stored
  | panic                               -- `#`
  | error                               -- `%`
  deriving Repr

def valInt : Val → Int
  | .int i => i
  | .asset v _ _ => v
  | .ids l => l.length

/-- `T::from_int(n)` of the harness (`Canon::from_int`): the value `get_or_insert` is handed, for the types
that can be built from an integer (script compounds, `Arc`s of them, assets `M<e,d>`, `i64`). -/
def insertableVal (ty : Nat) (n : Int) : Option Val :=
  if ty ≤ 5 ∨ ty = 50 then some (.int n)
  else if 10 ≤ ty ∧ ty < 22 then some (.asset n "" [])
  else none

def scriptProg : List Tok → Int → Prog
  | [], acc => .ret (.int acc)
  | .lit n :: rest, acc => scriptProg rest (acc + n)
  | .load ty id :: rest, acc => .load ⟨ty, id⟩ fun r =>
      match r with
      | .ok v => scriptProg rest (acc + valInt v)
      | .error e => .fail e
  | .loadIgn ty id :: rest, acc => .load ⟨ty, id⟩ fun r =>
      match r with
      | .ok v => scriptProg rest (acc + valInt v)
      | .error _ => scriptProg rest acc
  | .cached ty id :: rest, acc => .getCached ⟨ty, id⟩ fun r =>
      match r with
      | some v => scriptProg rest (acc + valInt v)
      | none => scriptProg rest (acc + 1000)
  | .owned ty id :: rest, acc => .loadOwned ⟨ty, id⟩ fun r =>
      match r with
      | .ok v => scriptProg rest (acc + valInt v)
      | .error e => .fail e
  | .noRec ty id :: rest, acc => .noRecord (.load ⟨ty, id⟩ Prog.ret') fun r =>
      match r with
      | .ok v => scriptProg rest (acc + valInt v)
      | .error e => .fail e
  | .thread ty id :: rest, acc => .onThread (.load ⟨ty, id⟩ Prog.ret') fun r =>
      match r with
      | .ok v => scriptProg rest (acc + valInt v)
      | .error e => .fail e
  | .catch ty id :: rest, acc => .tryCatch (.noRecord (.load ⟨ty, id⟩ Prog.ret') Prog.ret') fun r =>
      match r with
      | some (.ok v) => scriptProg rest (acc + valInt v)
      | some (.error e) => .fail e
      | none => scriptProg rest (acc + 7777)
  | .raw id ext :: rest, acc => .read id ext fun r =>
      match r with
      | .ok bs => scriptProg rest (acc + bs.length)
      | .error e => .fail (.io e)
  | .goi ty id n :: rest, acc =>
      -- the parser only produces insertable types; anything else is what the code would refuse to compile
      match insertableVal ty n with
      | some v => .getOrInsert ⟨ty, id⟩ v fun r => scriptProg rest (acc + valInt r)
      | none => .panic
  | .panic :: _, _ => .panic
  | .error :: _, _ => .fail (.custom "user")

/-! ### Type names ↔ numbers -/

def tyOfName (s : String) : Option Nat :=
  match s.toList with
  | ['S', c] => if '0' ≤ c ∧ c ≤ '2' then some (c.toNat - 48) else none
  | ['N', '0'] => some 3
  | ['A', 'N'] => some 4
  | ['A', 'S'] => some 5
  | ['M', e, d] => if '0' ≤ e ∧ e ≤ '5' ∧ ('0' = d ∨ '1' = d) then some (10 + 2 * (e.toNat - 48) + (d.toNat - 48)) else none
  | ['D', e] => if '0' ≤ e ∧ e ≤ '5' then some (30 + (e.toNat - 48)) else none
  | ['R', e] => if '0' ≤ e ∧ e ≤ '5' then some (40 + (e.toNat - 48)) else none
  | ['I'] => some 50
  | ['T'] => some 51
  | _ => none

def splitOnChar (c : Char) : List Char → List (List Char)
  | [] => [[]]
  | x :: xs =>
    match splitOnChar c xs with
    | [] => [[]]
    | h :: t => if x = c then [] :: h :: t else (x :: h) :: t

def parseRef (cs : List Char) : Option (Nat × String) :=
  match splitOnChar ':' cs with
  | [t, id] => (tyOfName (String.ofList t)).bind fun ty => if ty < 50 then some (ty, String.ofList id) else none
  | _ => none

def parseTok (w : List Char) : Option Tok :=
  match w with
  | ['#'] => some .panic
  | ['%'] => some .error
  | '+' :: r => (parseRef r).map fun (t, i) => .load t i
  | '=' :: r => (parseRef r).map fun (t, i) => .loadIgn t i
  | '?' :: r => (parseRef r).map fun (t, i) => .cached t i
  | '!' :: r => (parseRef r).map fun (t, i) => .owned t i
  | '~' :: r => (parseRef r).map fun (t, i) => .noRec t i
  | '&' :: r => (parseRef r).map fun (t, i) => .thread t i
  | '^' :: r => (parseRef r).map fun (t, i) => .catch t i
  | 'r' :: ':' :: r =>
    match splitOnChar ':' r with
    | [id, ext] => some (.raw (String.ofList id) (String.ofList ext))
    | _ => none
  | '@' :: r =>
    -- exactly `T:id:n`, `T` a type that can be built from an integer, `n` = `-?[0-9]{1,15}`
    match splitOnChar ':' r with
    | [t, id, n] =>
      (tyOfName (String.ofList t)).bind fun ty => (parseInt? n).bind fun n =>
        (insertableVal ty n).map fun _ => .goi ty (String.ofList id) n
    | _ => none
  | _ => (parseInt? w).map .lit

def parseScript (bytes : List UInt8) : Option (List Tok) :=
  match String.fromUTF8? (ByteArray.mk bytes.toArray) with
  | none => none
  | some s => ((splitOnChar ' ' s.toList).filter (· ≠ [])).mapM parseTok

/-- `S<k>` / `N0`: read `id.s`, parse, interpret. -/
def scriptTypeProg (id : String) : Prog :=
  .tick fun fault =>
    match fault with
    | some true => .panic
    | some false => .fail (.custom "injected")
    | none =>
      .read id "s" fun r =>
        match r with
        | .error e => .fail (.io e)
        | .ok bytes =>
          match parseScript bytes with
          | none => .fail (.custom "parse")
          | some toks => scriptProg toks 0

/-- The type table. Storable-only types have a loader that panics (`Attempted to load Storable`). -/
def types (ty : Nat) : TyInfo :=
  if ty < 3 then { hot := true, prog := scriptTypeProg }
  else if ty = 3 then { hot := false, prog := scriptTypeProg }
  -- `Arc<T>`: `Compound for Arc<T>` delegates the load and inherits `HOT_RELOADED` (regenerated fact)
  else if ty = 4 then { hot := if arcInheritsHotReloaded then false else true, prog := scriptTypeProg }
  else if ty = 5 then { hot := true, prog := scriptTypeProg }
  else if 10 ≤ ty ∧ ty < 22 then { hot := true, prog := assetProg (extsOf ((ty - 10) / 2)) ((ty - 10) % 2 = 1) }
  else if 30 ≤ ty ∧ ty < 36 then { hot := true, prog := dirProg (extsOf (ty - 30)) }
  else if 40 ≤ ty ∧ ty < 46 then { hot := true, prog := recDirProg (30 + (ty - 40)) ty }
  else { hot := false, prog := fun _ => .panic }

end AmVerif.Model
