import AmVerif.Model.Atom
/-!
# Vocabulary shared by the generated `Gen/Bytes.lean` and the hand-written `Model/Bytes.lean`

`core::alloc::Layout` arithmetic (`new`, `extend`) for a 64-bit target, the header fields of
`struct Inner`, and the enumerations used by the extracted tables. Nothing here depends on the
source; everything that does is regenerated into `AmVerif.Gen.Bytes`.
-/
namespace AmVerif.Model

/-- `core::alloc::Layout` (size and alignment in bytes). -/
structure Layout where
  size : Nat
  align : Nat
  deriving DecidableEq, Repr

namespace Layout

/-- `isize::MAX` on the 64-bit targets the crate is checked on (stated assumption). -/
def isizeMax : Nat := 2 ^ 63 - 1

/-- Word size / alignment of `usize`, `AtomicUsize`, `*const u8` (64-bit target). -/
def word : Nat := 8

/-- `Layout::padding_needed_for(self, align)`: bytes to add to `size` to reach a multiple of `align`. -/
def paddingNeededFor (size align : Nat) : Nat := (align - size % align) % align

/-- `Layout::from_size_align`: rejects sizes that overflow `isize` when rounded up to `align`. -/
def fromSizeAlign (size align : Nat) : Option Layout :=
  if size + (align - 1) ≤ isizeMax then some ⟨size, align⟩ else none

/-- `Layout::extend(self, next)`: `(layout of self followed by next, offset of next)`; `none` is the
`LayoutError` of the real function (arithmetic overflow). -/
def extend (a b : Layout) : Option (Layout × Nat) :=
  let align := max a.align b.align
  let offset := a.size + paddingNeededFor a.size b.align
  match fromSizeAlign (offset + b.size) align with
  | some l => some (l, offset)
  | none => none

/-- `Layout::new::<T>()` for a `repr(Rust)` struct of `n` word-sized, word-aligned fields: no
padding is possible, so size `8 n`, alignment `8` (for `n ≥ 1`). -/
def ofWords (n : Nat) : Layout := ⟨word * n, if n = 0 then 1 else word⟩

end Layout

/-- The fields of `struct Inner`. -/
inductive HeaderField | count | ptr | len | capacity
  deriving DecidableEq, Repr

/-- Types that may occur in `struct Inner` (all one machine word, word aligned). -/
inductive FieldKind | atomicUsize | usize | ptr
  deriving DecidableEq, Repr

/-- Where `Inner.ptr` points: just behind the header in the same block, or into a leaked `Vec`. -/
inductive DataLoc | inline | vec
  deriving DecidableEq, Repr

/-- The `Inner { .. }` literal a constructor writes into the fresh header block. -/
structure HeaderInit where
  count : Nat
  data : DataLoc
  len : Nat
  capacity : Nat
  deriving DecidableEq, Repr

/-- Functions of `SharedBytes` that touch the reference count. -/
inductive BytesFn | clone | drop | dropSlow
  deriving DecidableEq, Repr

/-- Public ways to build a `SharedBytes` (the `From` / `FromIterator` impls and the two inherent
constructors). -/
inductive BytesSrc | slice | vec | boxed | cowBorrowed | cowOwned | iter | sharedRef
  deriving DecidableEq, Repr

/-- What a public construction path bottoms out in. -/
inductive BytesCtor | fromSlice | fromVec | clone
  deriving DecidableEq, Repr

/-- Functions in `string.rs` that build a `SharedString { bytes }` directly. -/
inductive StringFn
  | fromUtf8 | fromUtf8Unchecked | fromString | fromStr
  deriving DecidableEq, Repr

/-- Why the bytes put into a `SharedString { bytes }` literal are valid UTF-8. -/
inductive StringSrc
  /-- `str::from_utf8(&bytes)?` ran on exactly these bytes just before -/
  | validated
  /-- the bytes are `s.into_bytes()` of a `String` parameter -/
  | stringBytes
  /-- the bytes are `s.as_bytes()` of a `&str` parameter -/
  | strBytes
  /-- no evidence, but the function is an `unsafe fn` whose contract demands it -/
  | unsafeFn
  /-- none of the above (never emitted for the current source; a theorem excludes it) -/
  | unknown
  deriving DecidableEq, Repr

/-- How a comparison / hash impl reaches the data. -/
inductive Delegation
  /-- compares / hashes `**self` (and `**other`), i.e. the slices -/
  | slices
  /-- goes through another impl of the same type that is itself listed -/
  | viaSelfImpl
  | other
  deriving DecidableEq, Repr

/-- Comparison and hash impls of `SharedBytes` / `SharedString` between two values of the type. -/
inductive CmpImpl | eq | partialCmp | cmp | hash
  deriving DecidableEq, Repr

end AmVerif.Model
