/-!
# Effect skeletons of `register_file` and `register_dir` (src/source/zip.rs, src/source/tar.rs)

`amx` linearises the body of the two `register_file` functions into these tokens
(`Gen/Archive.lean`); the archive model (`Model/Source.lean`) *interprets* a skeleton, and
`Props/C04.lean` proves that the skeletons extracted from the current source are the one the
theorems are about.
-/
namespace AmVerif.Model.ArchiveSkel

/-- What the component walk does for one kind of path component. -/
inductive CompAct | push | pop | skip | fail
  deriving DecidableEq, Repr

inductive Tok
  /-- `id_builder.reset()` -/
  | reset
  /-- `for comp in path.parent()?.components() { match comp { Normal, ParentDir, CurDir, _ } }` -/
  | walkParent (normal parentDir curDir other : CompAct)
  /-- `let parent_id = id_builder.join()` -/
  | joinParent
  /-- `id_builder.push(path.file_stem()?.to_str()?)?` -/
  | pushStem
  /-- `let id = id_builder.join()` -/
  | joinId
  /-- `let ext = extension_of(path)?.into()` -/
  | extOf
  /-- `let desc = FileDesc(id, ext)` -/
  | descIdExt
  /-- `files.insert(desc.clone(), <location>)` -/
  | filesInsertDesc
  /-- `OwnedEntry::File(desc)` is the branch value -/
  | entryFileDesc
  /-- `if !dirs.contains_key(&id) { dirs.insert(id.clone(), Vec::new()); }` -/
  | dirsInsertEmptyIfAbsent
  /-- a bare `dirs.insert(id.clone(), Vec::new());` (not what the source has today) -/
  | dirsInsertEmpty
  /-- `OwnedEntry::Dir(id)` is the branch value -/
  | entryDirId
  /-- `dirs.entry(parent_id).or_default().push(entry)` -/
  | dirsPushParentEntry
  /-- `register_dir(dirs, parent_id.clone())` -/
  | registerDirParent
  /-- `register_dir(dirs, id)` -/
  | registerDirId
  /-- `dirs.entry(parent_id).or_default().push(OwnedEntry::File(desc))` -/
  | dirsPushParentFileDesc
  deriving DecidableEq, Repr

/-- `pre; if <member is a file> { fileBranch } else { dirBranch }; post` (before the repair of
F-C04 the split was `let entry = if ..` and `post` pushed `entry` into the parent's listing) -/
structure Skel where
  pre : List Tok
  fileBranch : List Tok
  dirBranch : List Tok
  post : List Tok
  deriving DecidableEq, Repr

/-- Statements of the helper `register_dir(dirs, id)`. -/
inductive DirTok
  /-- `if dirs.contains_key(&id) { return; }` -/
  | returnIfPresent
  /-- `dirs.insert(id.clone(), Vec::new());` -/
  | insertEmpty
  /-- `register_dir(dirs, parent_id.clone());` (inside `if let Some(parent_id) = ..parent_id()`) -/
  | recurseParent
  /-- `dirs.entry(parent_id).or_default().push(OwnedEntry::Dir(id));` (inside the same `if let`) -/
  | pushDirIntoParent
  deriving DecidableEq, Repr

/-- `pre; if let Some(parent_id) = DirEntry::Directory(&id).parent_id() { withParent }` -/
structure DirSkel where
  pre : List DirTok
  withParent : List DirTok
  deriving DecidableEq, Repr

end AmVerif.Model.ArchiveSkel
