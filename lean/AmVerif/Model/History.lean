import AmVerif.Model.Reload
/-!
# Histories of a cache with its reloader (alphabet of C06 / C10)

One thread of control: API operations of the cache, notifications handed to the reloader
(`handle_events`), `hot_reload()` and `enhance_hot_reloading()`. The environment (source content,
fault plan, type table, constructor = `hasReloader`) is given **per step**: between any two steps the
source may have been edited arbitrarily, with or without a notification.

Modelled, not verified: the reloader thread's steps are atomic with respect to API operations here
(interleavings are C07 / C08); the statements proved over this alphabet are invariants of single cells
that every atomic step preserves.
-/
namespace AmVerif.Model

inductive HOp
  | api (op : Op)
  | notify (evs : List Dep)
  | hotReload
  | enhance

def hstep (fuel : Nat) : Env × HOp → St × RSt → St × RSt
  | (env, .api op), (s, r) => ((step env fuel s op).1, r)
  | (env, .notify evs), (s, r) => handleEvents env fuel s r evs
  | (env, .hotReload), (s, r) => hotReload env fuel s r
  | (env, .enhance), (s, r) => enhance env fuel s r

def runH (fuel : Nat) : List (Env × HOp) → St × RSt → St × RSt
  | [], x => x
  | e :: es, x => runH fuel es (hstep fuel e x)

/-- Does the operation remove the entry stored under `k` (`remove`, `take`, `clear`: all need `&mut`)? -/
def Op.removes (k : Key) : Op → Bool
  | .remove k' => k' = k
  | .take k' => k' = k
  | .clear => true
  | _ => false

def HOp.removes (k : Key) : HOp → Bool
  | .api op => op.removes k
  | _ => false

end AmVerif.Model
