import AmVerif.Model.World
/-!
# The harness's in-memory source, as a model (`harness/src/types.rs: MemSource`)

A flat table of files, an explicit set of directories (the root `""` always exists) and a fault
plan indexed by the running number of source reads. This is the concrete `Env.read` /
`Env.readDir` the driver uses; property theorems quantify over arbitrary ones.
-/
namespace AmVerif.Model

inductive FileSt
  | bytes (bs : List UInt8)
  | unreadable (kind : String)
  deriving DecidableEq, Repr

structure Src where
  files : List ((String × String) × FileSt) := []
  dirs : List String := []
  faults : List (Nat × String) := []
  deriving Repr

/-- `DirEntry::parent_id` on ids: `none` for the root, else everything before the last `.`. -/
def parentIdChars (cs : List Char) : Option (List Char) :=
  if cs.isEmpty then none else
  let r := cs.reverse
  match r.dropWhile (· ≠ '.') with
  | [] => some []
  | _ :: rest => some rest.reverse

def parentId (id : String) : Option String := (parentIdChars id.toList).map String.ofList

def ioErr (kind tag : String) : IoErr := { notFound := kind == "NotFound", kind, tag }

def Src.lookupFile (s : Src) (id ext : String) : Option FileSt :=
  (s.files.find? (·.1 = (id, ext))).map (·.2)

def Src.read (s : Src) (k : Nat) (id ext : String) : Except IoErr (List UInt8) :=
  let tag := id ++ "." ++ ext
  match s.faults.find? (·.1 = k) with
  | some (_, kind) => .error (ioErr kind tag)
  | none =>
    match s.lookupFile id ext with
    | none => .error (ioErr "NotFound" tag)
    | some (.unreadable kind) => .error (ioErr kind tag)
    | some (.bytes bs) => .ok bs

def pairLt (a b : String × String) : Bool := a.1 < b.1 || (a.1 == b.1 && a.2 < b.2)

def insertBy {α} (lt : α → α → Bool) (x : α) : List α → List α
  | [] => [x]
  | y :: ys => if lt x y then x :: y :: ys else y :: insertBy lt x ys

def sortBy {α} (lt : α → α → Bool) (l : List α) : List α := l.foldr (insertBy lt) []

/-- Children in the harness's order: files by (id, ext), then directories by id. -/
def Src.readDir (s : Src) (k : Nat) (id : String) : Except IoErr (List DirEnt) :=
  match s.faults.find? (·.1 = k) with
  | some (_, kind) => .error (ioErr kind id)
  | none =>
    if id ≠ "" ∧ id ∉ s.dirs then .error (ioErr "NotFound" id) else
    let fs := sortBy pairLt ((s.files.map (·.1)).filter fun f => parentId f.1 = some id)
    let ds := sortBy (fun a b => decide (a < b)) (s.dirs.filter fun d => parentId d = some id)
    .ok (fs.map (fun f => DirEnt.file f.1 f.2) ++ ds.map DirEnt.dir)

/-- all proper ancestors-or-self directory ids of `id` (excluding the root) -/
def ancestors (fuel : Nat) (id : String) : List String :=
  match fuel with
  | 0 => []
  | f + 1 => if id = "" then [] else id :: (match parentId id with | some p => ancestors f p | none => [])

def Src.mkdirs (s : Src) (id : String) : Src :=
  { s with dirs := (ancestors (id.length + 1) id).foldl (fun ds d => if d ∈ ds then ds else ds ++ [d]) s.dirs }

def Src.put (s : Src) (id ext : String) (st : FileSt) : Src :=
  let s := match parentId id with | some p => s.mkdirs p | none => s
  { s with files := s.files.filter (·.1 ≠ (id, ext)) ++ [((id, ext), st)] }

def Src.rm (s : Src) (id ext : String) : Src := { s with files := s.files.filter (·.1 ≠ (id, ext)) }

def under (id x : String) : Bool := x == id || x.startsWith (id ++ ".")

def Src.rmdir (s : Src) (id : String) : Src :=
  { s with dirs := s.dirs.filter (fun d => !under id d),
           files := if id = "" then s.files else s.files.filter (fun f => !under id f.1.1) }

end AmVerif.Model
