import AmVerif.Model.World
import AmVerif.Gen.Skel
/-!
# Hot-reloading: the reloader's data (`paths.rs`, `dependencies.rs`) and one update pass

`RSt` is `HotReloadingData`: the dependency graph, the set of changed entries, the mode. The
functions transcribe `DepsGraph::{insert, topological_sort_from, visit, reload}`,
`HotReloadingData::{handle_events, add_asset, clear_local_cache, update_if_local, use_static_ref}`,
`run_update` and `AnyCache::reload_untyped` + `UntypedEntry::write`.

`HashMap` / `HashSet` are modelled as insertion-ordered lists (**modelled, not verified**); the
code's iteration order is arbitrary, so every statement proved here holds for every order of the
`rdeps` / `changed` lists, and the correspondence only compares order-independent observations.
-/
namespace AmVerif.Model
open AmVerif.Gen

/-- `GraphNode` -/
structure GNode where
  /-- `typ.is_some()`: the asset is reloaded when reached -/
  typed : Bool := false
  rdeps : List Dep := []
  deps : List Dep := []
  deriving Repr

abbrev Graph := List (Dep × GNode)

def Graph.get (g : Graph) (d : Dep) : Option GNode := (g.find? (·.1 = d)).map (·.2)

def Graph.set (g : Graph) (d : Dep) (n : GNode) : Graph :=
  if g.any (·.1 = d) then g.map (fun x => if x.1 = d then (d, n) else x) else g ++ [(d, n)]

def addIfAbsent (d : Dep) (l : List Dep) : List Dep := if d ∈ l then l else l ++ [d]

/-- `DepsGraph::insert(asset_key, deps, typ)` -/
def Graph.insertAsset (g : Graph) (a : Dep) (deps : List Dep) : Graph :=
  -- for key in deps: entry(key).or_default().rdeps.insert(asset_key)
  let g1 := deps.foldl (fun g d =>
    let n := (g.get d).getD {}
    g.set d { n with rdeps := addIfAbsent a n.rdeps }) g
  match g1.get a with
  | none => g1.set a { typed := true, deps := deps, rdeps := [] }
  | some old =>
    let removed := old.deps.filter (fun d => d ∉ deps)
    let g2 := g1.set a { old with deps := deps, typed := true }
    removed.foldl (fun g d =>
      match g.get d with
      | some n => g.set d { n with rdeps := n.rdeps.filter (· ≠ a) }
      | none => g) g2

/-- DFS state of `topological_sort_from`: `vis` = `sort_data.visited`, `out` = `sort_data.list`
already reversed (`k :: out`: a node ends up before the nodes that depend on it). -/
structure VSt (α : Type) where
  vis : List α
  out : List α

/-- `DepsGraph::visit`, fuelled (the recursion depth of the code is bounded by the number of nodes
because a node is marked visited *before* its reverse dependencies are visited — obligation
`visit_marks_first` on the regenerated skeleton). `rdeps k = none`: `k` is not in the graph.
`none` result = fuel exhausted. Generic in the node type. -/
def visitG {α : Type} [DecidableEq α] (rdeps : α → Option (List α)) : Nat → VSt α → α → Option (VSt α)
  | 0, _, _ => none
  | f+1, st, k =>
    if k ∈ st.vis then some st else
    match rdeps k with
    | none => some st
    | some rs =>
      match rs.foldlM (fun s r => visitG rdeps f s r) ⟨k :: st.vis, st.out⟩ with
      | none => none
      | some s => some ⟨s.vis, k :: s.out⟩

def sortFrom {α : Type} [DecidableEq α] (rdeps : α → Option (List α)) (fuel : Nat) (changed : List α) : Option (VSt α) :=
  changed.foldlM (fun s d => visitG rdeps fuel s d) ⟨[], []⟩

def Graph.rdepsOf (g : Graph) (d : Dep) : Option (List Dep) := (g.get d).map (·.rdeps)

def assetKeys : List Dep → List Key
  | [] => []
  | .asset k :: ds => k :: assetKeys ds
  | _ :: ds => assetKeys ds

/-- `topological_sort_from(changed).into_iter()`: the assets to reload, every asset after the
entries it depends on. -/
def topo (g : Graph) (fuel : Nat) (changed : List Dep) : Option (List Key) :=
  (sortFrom g.rdepsOf fuel changed).map fun st => assetKeys st.out

/-- Does `DepsGraph::visit` mark a node visited before recursing into its reverse dependencies?
(derived from the regenerated skeleton: `visited.insert` before or after the loop) -/
def visitMarksFirst : Bool :=
  match skel_hot_reloading_dependencies_DepsGraph_visit with
  | [.call .s_contains, .branch _, .call .s_get, .branch _, .call .s_insert, .loop _, .branch _] => true
  | _ => false

/-- the reloader thread's data -/
structure RSt where
  graph : Graph := []
  toReload : List Dep := []
  static_ : Bool := false
  /-- the thread died (a loader panicked during a reload) or diverged (unbounded recursion) -/
  dead : Bool := false
  deriving Repr

def St.setCell (s : St) (k : Key) (c : Cell) : St :=
  { s with map := s.map.map fun x => if x.1 = k then (k, c) else x }

inductive ReloadOutcome
  /-- `some (deps, true)`: reloaded; `some (deps, false)`: the load failed, `deps` is what it read -/
  | done (deps : Option (List Dep × Bool))
  | died
  deriving Repr

/-- `DepsGraph::add_deps`: keep the node's dependencies and add `deps` (reverse edges too). -/
def Graph.addDeps (g : Graph) (a : Dep) (deps : List Dep) : Graph :=
  let g1 := deps.foldl (fun g d =>
    let n := (g.get d).getD {}
    g.set d { n with rdeps := addIfAbsent a n.rdeps }) g
  match g1.get a with
  | some n => g1.set a { n with deps := deps.foldl (fun l d => addIfAbsent d l) n.deps }
  | none => g1

/-- `AnyCache::reload_untyped` on the reloader thread (its own, empty recording stack; the
`BorrowedCache` always has the reloader). -/
def reloadUntyped (env : Env) (fuel : Nat) (s : St) (key : Key) : St × ReloadOutcome :=
  match s.lookup key with
  | none => (s, .done none)
  | some c =>
    if reloadSkipsStatic && !c.dyn then (s, .done none) else
    let (s1, o, deps) := withFrame true (some []) (fun s => eval env fuel s ((env.types key.ty).prog key.id)) { s with recs := [] }
    let s1 := { s1 with recs := [] }
    match o with
    | .ok v =>
      if c.dyn then
        -- `UntypedEntry::write`: swap under the write lock, `reload.increment()`, `reload_global = true`
        let c' := match s1.lookup key with | some c' => c' | none => c
        ((s1.setCell key { c' with val := v, rid := (AtomicReloadId_increment c'.rid).2, flag := true }).swapValue key.ty c'.addr, .done (some (deps, true)))
      else (s1.handOut key.ty, .died)   -- `wrong_handle_type()` panics on the reloader thread
    | .err _ => (s1, .done (if failedReloadKeepsNewDeps then some (deps, false) else none))
    | .panicked => if reloadCatchesPanic then (s1, .done none) else (s1, .died)
    | .diverged => (s1, .died)

/-- `DepsGraph::reload` for each key of the sorted list (`run_update`). -/
def reloadAll (env : Env) (fuel : Nat) : List Key → St × RSt → St × RSt
  | [], x => x
  | k :: ks, (s, r) =>
    if r.dead then (s, r) else
    match r.graph.get (.asset k) with
    | some node =>
      if node.typed then
        match reloadUntyped env fuel s k with
        | (s1, .done (some (deps, true))) => reloadAll env fuel ks (s1, { r with graph := r.graph.insertAsset (.asset k) deps })
        | (s1, .done (some (deps, false))) => reloadAll env fuel ks (s1, { r with graph := r.graph.addDeps (.asset k) deps })
        | (s1, .done none) => reloadAll env fuel ks (s1, r)
        | (s1, .died) => (s1, { r with dead := true })
      else reloadAll env fuel ks (s, r)
    | none => reloadAll env fuel ks (s, r)

/-- `run_update`: sort, clear the changed set, reload each. -/
def runUpdate (env : Env) (fuel : Nat) (s : St) (r : RSt) : St × RSt :=
  match topo r.graph fuel r.toReload with
  | none => (s, { r with dead := true })
  | some keys => reloadAll env fuel keys (s, { r with toReload := [] })

/-- Drain the cache → reloader messages (`AddAsset`, `Clear`). -/
def processMsgs (s : St) (r : RSt) : St × RSt :=
  let r' := s.out.foldl (fun r m =>
    match m with
    | .addAsset key deps => { r with graph := r.graph.insertAsset (.asset key) deps }
    | .clear => { r with toReload := [] }) r
  ({ s with out := [] }, r')

/-- `handle_events`: keep the entries the graph knows; in static mode update at once. -/
def handleEvents (env : Env) (fuel : Nat) (s : St) (r : RSt) (evs : List Dep) : St × RSt :=
  if r.dead then (s, r) else
  let (s, r) := processMsgs s r
  let r := { r with toReload := evs.foldl (fun l e => if (r.graph.get e).isSome then addIfAbsent e l else l) r.toReload }
  if r.static_ then
    let (s, r) := runUpdate env fuel s r
    processMsgs s r
  else (s, r)

/-- `hot_reload()` in local mode: drain messages, update; messages sent by nested loads of the
reloads are drained as well (they are in the channel before the next request). -/
def hotReload (env : Env) (fuel : Nat) (s : St) (r : RSt) : St × RSt :=
  if r.dead then (s, r) else
  let (s, r) := processMsgs s r
  if r.static_ then (s, r) else
  let (s, r) := runUpdate env fuel s r
  processMsgs s r

/-- `enhance_hot_reloading`: switch to the static mode and update once. -/
def enhance (env : Env) (fuel : Nat) (s : St) (r : RSt) : St × RSt :=
  if r.dead then (s, r) else
  let (s, r) := processMsgs s r
  if r.static_ then (s, r) else
  let (s, r) := runUpdate env fuel s { r with static_ := true }
  processMsgs s r

end AmVerif.Model
