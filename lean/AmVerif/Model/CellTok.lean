/-!
# Vocabulary of the `OnceInitCell` step programs (src/utils/cell.rs)

`amx` linearises the bodies of `get_or_try_init_default` / `get_or_try_init_no_drop` into lists of
these tokens (`AmVerif.Gen.Cell`), in evaluation order. `Model/Cell.lean` gives every token its
meaning as one atomic step of a thread; the interleaving theorems are about the interpreter run
on the *generated* lists.
-/
namespace AmVerif.Model.Cell

/-- One statement of a `get_or_try_init_*` body. -/
inductive Tok
  /-- `let mut uninit_value = None;` (outside the once-closure) -/
  | slotNone
  /-- `self.once.get_or_try_init(|| {` : done → skip the closure; running → block; empty → run it -/
  | onceEnter
  /-- `let state = &mut *self.data.get();` -/
  | borrow
  /-- `let value = f(&mut state.uninit)?;` : the user's initialiser, `?` leaves the closure on `Err` -/
  | callF
  /-- `let new_state = State { init: ManuallyDrop::new(value) };` -/
  | mkState
  /-- `let uninit = std::mem::replace(state, new_state).uninit;` : union now holds the value, the seed is moved out -/
  | replace
  /-- `*state = State { init: ManuallyDrop::new(value) };` : union now holds the value, the seed is forgotten -/
  | overwrite
  /-- `uninit_value = Some(ManuallyDrop::into_inner(uninit));` : the seed escapes the closure -/
  | escape
  /-- `Ok(())` as the closure's value: the `OnceCell` becomes initialised -/
  | closureOk
  /-- `})?;` : end of the `OnceCell::get_or_try_init` call -/
  | onceExit
  /-- `if let Some(value) = uninit_value { drop_cold(value); }` -/
  | dropEscaped
  /-- `Ok(self.get_unchecked())` -/
  | ret
  /-- `drop(ManuallyDrop::into_inner(uninit))` / `drop_cold(..)` of the moved-out seed where it stands
  (does not occur in the pinned source; recognised so that such a change gets a meaning) -/
  | dropTmp
  deriving DecidableEq, Repr

/-- Which implementation `get_or_try_init` dispatches to. -/
inductive Path | dflt | noDrop
  deriving DecidableEq, Repr

/-- Arm of `union State { uninit, init }`. -/
inductive Arm | uninit | init
  deriving DecidableEq, Repr

end AmVerif.Model.Cell
