import AmVerif.Model.World
import AmVerif.Gen.TabShard
/-!
# The map behind the cache: sharded (`cache::AssetMap`), flat (`local_cache::AssetMap`), abstract

* `AL` — one `HashMap<OwnedKey, CacheEntry>` modelled as a keep-first association list
  (**modelled, not verified**: std's `HashMap`).
* `SMap` — `Box<[Shard]>` as `len` + a function from index to shard; the shard of a key is
  `Gen.shardIndex (hash k) len` for `&self` operations and `Gen.shardIndexMut (hash k) len` for
  `&mut self` ones, both regenerated from `src/cache.rs`. The hasher `hash : Key → Nat` is a
  parameter (theorems hold for every per-cache random seed).
* `FMap` — the abstract map `Key → Option Cell` with the one-line meaning of each operation.
-/
namespace AmVerif.Model
open AmVerif.Gen

abbrev AL := List (Key × Cell)

def AL.get (m : AL) (k : Key) : Option Cell := (m.find? (·.1 = k)).map (·.2)
/-- `entry(key).or_insert(c)` -/
def AL.insert (m : AL) (k : Key) (c : Cell) : AL × Cell :=
  match m.get k with
  | some c' => (m, c')
  | none => (m ++ [(k, c)], c)
def AL.remove (m : AL) (k : Key) : AL × Option Cell := (m.filter (·.1 ≠ k), m.get k)

/-- Map operations as the cache front-end issues them (`anycache::AssetMap` + `take`/`clear`). -/
inductive MOp
  | get (k : Key)
  | insert (k : Key) (c : Cell)
  | contains (k : Key)
  | remove (k : Key)
  | clear
  deriving Repr

inductive MRes
  | cell (c : Option Cell)
  | bool (b : Bool)
  | unit
  deriving DecidableEq, Repr

/-! ## Abstract map -/

abbrev FMap := Key → Option Cell

def FMap.step (f : FMap) : MOp → FMap × MRes
  | .get k => (f, .cell (f k))
  | .insert k c =>
    match f k with
    | some c' => (f, .cell (some c'))
    | none => (fun k' => if k' = k then some c else f k', .cell (some c))
  | .contains k => (f, .bool (f k).isSome)
  | .remove k => (fun k' => if k' = k then none else f k', .cell (f k))
  | .clear => (fun _ => none, .unit)

def FMap.run (f : FMap) : List MOp → List MRes
  | [] => []
  | op :: ops => (f.step op).2 :: FMap.run (f.step op).1 ops

/-! ## Flat map (LocalAssetCache) -/

def AL.step (m : AL) : MOp → AL × MRes
  | .get k => (m, .cell (m.get k))
  | .insert k c => let r := m.insert k c; (r.1, .cell (some r.2))
  | .contains k => (m, .bool (m.get k).isSome)
  | .remove k => let r := m.remove k; (r.1, .cell r.2)
  | .clear => ([], .unit)

def AL.run (m : AL) : List MOp → List MRes
  | [] => []
  | op :: ops => (m.step op).2 :: AL.run (m.step op).1 ops

/-! ## Sharded map (AssetCache) -/

structure SMap where
  len : Nat
  shard : Nat → AL

def updAt (f : Nat → AL) (i : Nat) (v : AL) : Nat → AL := fun j => if j = i then v else f j

def SMap.step (hash : Key → Nat) (m : SMap) : MOp → SMap × MRes
  | .get k => (m, .cell ((m.shard (shardIndex (hash k) m.len)).get k))
  | .insert k c =>
    let i := shardIndex (hash k) m.len
    let r := (m.shard i).insert k c
    ({ m with shard := updAt m.shard i r.1 }, .cell (some r.2))
  | .contains k => (m, .bool ((m.shard (shardIndex (hash k) m.len)).get k).isSome)
  | .remove k =>
    let i := shardIndexMut (hash k) m.len
    let r := (m.shard i).remove k
    ({ m with shard := updAt m.shard i r.1 }, .cell r.2)
  | .clear => ({ m with shard := fun _ => [] }, .unit)

def SMap.run (hash : Key → Nat) (m : SMap) : List MOp → List MRes
  | [] => []
  | op :: ops => (m.step hash op).2 :: SMap.run hash (m.step hash op).1 ops

end AmVerif.Model
