import AmVerif.Gen.Cell
/-!
# `OnceInitCell<U, T>` — interleaving model (property C17)

Shared state = the once (`OnceCell<()>`, an *assumed* primitive: at most one closure runs at a
time, others block until it finished, `Err`/panic leaves it empty, `Ok` makes it initialised for
good), the union (`seed c` = arm `uninit`, `value v` = arm `init`), and a drop ledger.
A thread executes a list of calls (`get` / `get_or_try_init` with a given outcome of the user's
initialiser). A `get_or_try_init` call runs the step program **generated from the source**
(`Gen.Cell.initDefault` / `Gen.Cell.initNoDrop`, picked by `Gen.Cell.dispatch`), one token per
atomic step; `get`, `Drop` and the returned reference use the generated arm tables.

Reading the arm of the union that is not live is undefined behaviour in Rust; the model records it
in the flag `ub` (and the call returns `Res.ub`) — the theorems show it never happens.
-/
namespace AmVerif.Model.Cell
open AmVerif.Gen.Cell

/-- The seed type `U`: without destructor, with destructor, with a panicking destructor. -/
inductive Kind | plain | tracked | bomb
  deriving DecidableEq, Repr

def Kind.needsDrop : Kind → Bool
  | .plain => false
  | _ => true

inductive Once | empty | running (t : Nat) | done
  deriving DecidableEq, Repr

/-- The union: which arm was written last, with its content. -/
inductive Data | seed (c : Nat) | value (v : Nat)
  deriving DecidableEq, Repr

def Data.read : Data → Arm → Option Nat
  | .seed c, .uninit => some c
  | .value v, .init => some v
  | _, _ => none

inductive OKind | ok | err | panic
  deriving DecidableEq, Repr

/-- What the user's initialiser does when called: it adds `delta` to the seed (it gets `&mut U`),
then returns `Ok(value = new seed content)`, `Err(new seed content)` or panics. -/
structure Outcome where
  kind : OKind
  delta : Nat
  deriving DecidableEq, Repr

inductive Call | get | init (o : Outcome)
  deriving DecidableEq, Repr

/-- Result of a call as its caller sees it. -/
inductive Res
  | none                 -- `get` → `None`
  | ref (v : Nat)        -- a reference to the stored value `v`
  | err (e : Nat)        -- the initialiser's error
  | panicF               -- the initialiser's panic, propagated
  | panicDrop            -- the seed's destructor panicked after initialisation
  | ub                   -- the call touched the dead arm of the union
  deriving DecidableEq, Repr

/-- `get_or_init(f)` (the infallible entry point; its initialiser can succeed or panic, not fail).
By the extracted fact `getOrInitForwards` it is `get_or_try_init` with the same initialiser wrapped in
`Ok`; if the source ever gives it a code path of its own the model has nothing to say about it. -/
def Call.infallible (o : Outcome) : Option Call :=
  if getOrInitForwards ∧ o.kind ≠ .err then some (.init o) else none

structure Sh where
  kind : Kind
  once : Once
  data : Data
  /-- initialiser runs that returned `Ok` -/
  inits : Nat := 0
  /-- runs of the seed's destructor -/
  seedDrops : Nat := 0
  /-- seeds overwritten without running a destructor (`mem::forget`-like) -/
  seedLeaks : Nat := 0
  ub : Bool := false
  deriving DecidableEq, Repr

/-- A `get_or_try_init` call in flight. -/
structure Act where
  path : Path
  pc : Nat
  out : Outcome
  /-- local `value` (result of `f`, not yet stored) -/
  val : Option Nat := none
  /-- local `uninit` (the seed moved out of the union, still a `ManuallyDrop`) -/
  tmp : Option Nat := none
  /-- local `uninit_value` (the escaped seed, dropped when it goes out of scope) -/
  slot : Option Nat := none
  deriving DecidableEq, Repr

structure Th where
  calls : List Call
  act : Option Act := none
  /-- results of finished calls, latest first -/
  results : List Res := []
  deriving DecidableEq, Repr

def progOf : Path → List Tok
  | .dflt => initDefault
  | .noDrop => initNoDrop

/-- Index of the statement after `})?;` — where a caller continues that found the once initialised. -/
def exitIdx : List Tok → Nat
  | [] => 0
  | .onceExit :: _ => 1
  | _ :: r => exitIdx r + 1

def finish (th : Th) (r : Res) : Th := { th with act := none, results := r :: th.results }

def goto (th : Th) (a : Act) : Th := { th with act := some a }

/-- The closure returned `Err` / unwound: the once stays empty; `?` leaves the function. -/
def abort (sh : Sh) (t : Nat) : Sh :=
  if sh.once = .running t then { sh with once := .empty } else sh

/-- One token = one atomic step of thread `t`; `none` = blocked. -/
def interp (sh : Sh) (t : Nat) (th : Th) (a : Act) : Tok → Option (Sh × Th)
  | .slotNone => some (sh, goto th { a with slot := none, pc := a.pc + 1 })
  | .onceEnter =>
    match sh.once with
    | .done => some (sh, goto th { a with pc := exitIdx (progOf a.path) })
    | .running _ => none
    | .empty => some ({ sh with once := .running t }, goto th { a with pc := a.pc + 1 })
  | .borrow => some (sh, goto th { a with pc := a.pc + 1 })
  | .mkState => some (sh, goto th { a with pc := a.pc + 1 })
  | .callF =>
    match sh.data with
    | .value _ => some ({ sh with ub := true }, finish th .ub)
    | .seed c =>
      let c' := c + a.out.delta
      let sh := { sh with data := .seed c' }
      match a.out.kind with
      | .ok => some ({ sh with inits := sh.inits + 1 }, goto th { a with val := some c', pc := a.pc + 1 })
      | .err => some (abort sh t, finish th (.err c'))
      | .panic => some (abort sh t, finish th .panicF)
  | .replace =>
    match sh.data, a.val with
    | .seed c, some v => some ({ sh with data := .value v }, goto th { a with val := none, tmp := some c, pc := a.pc + 1 })
    | _, _ => some ({ sh with ub := true }, finish th .ub)
  | .overwrite =>
    match sh.data, a.val with
    | .seed _, some v => some ({ sh with data := .value v, seedLeaks := sh.seedLeaks + 1 }, goto th { a with val := none, pc := a.pc + 1 })
    | _, _ => some ({ sh with ub := true }, finish th .ub)
  | .escape =>
    match a.tmp with
    | some c => some (sh, goto th { a with tmp := none, slot := some c, pc := a.pc + 1 })
    | none => some ({ sh with ub := true }, finish th .ub)
  | .dropTmp =>
    match a.tmp with
    | some _ =>
      let sh := { sh with seedDrops := sh.seedDrops + 1 }
      if sh.kind = .bomb then some (abort sh t, finish th .panicDrop)
      else some (sh, goto th { a with tmp := none, pc := a.pc + 1 })
    | none => some ({ sh with ub := true }, finish th .ub)
  | .closureOk =>
    if sh.once = .running t then some ({ sh with once := .done }, goto th { a with pc := a.pc + 1 })
    else some ({ sh with ub := true }, finish th .ub)
  | .onceExit => some (sh, goto th { a with pc := a.pc + 1 })
  | .dropEscaped =>
    match a.slot with
    | none => some (sh, goto th { a with pc := a.pc + 1 })
    | some _ =>
      let sh := { sh with seedDrops := sh.seedDrops + 1 }
      if sh.kind = .bomb then some (sh, finish th .panicDrop)
      else some (sh, goto th { a with slot := none, pc := a.pc + 1 })
  | .ret =>
    match sh.data.read uncheckedArm with
    | some v => some (sh, finish th (.ref v))
    | none => some ({ sh with ub := true }, finish th .ub)

/-- `get()`: one step, from the generated arm table. -/
def getStep (sh : Sh) : Option (Sh × Res) :=
  if getBlocks ∧ sh.once ≠ .done then none else
  match getArm (decide (sh.once = .done)) with
  | none => some (sh, .none)
  | some arm =>
    match sh.data.read arm with
    | some v => some (sh, .ref v)
    | none => some ({ sh with ub := true }, .ub)

/-- Next atomic step of thread `t` (its local state is `th`); `none` = not enabled. -/
def stepTh (sh : Sh) (t : Nat) (th : Th) : Option (Sh × Th) :=
  match th.act with
  | some a =>
    match (progOf a.path)[a.pc]? with
    | some tok => interp sh t th a tok
    | none => none
  | none =>
    match th.calls with
    | [] => none
    | .get :: rest =>
      match getStep sh with
      | some (sh', r) => some (sh', { th with calls := rest, results := r :: th.results })
      | none => none
    | .init o :: rest =>
      some (sh, { th with calls := rest, act := some { path := dispatch sh.kind.needsDrop, pc := 0, out := o } })

structure Sys where
  sh : Sh
  ths : Nat → Th

def upd (f : Nat → Th) (t : Nat) (x : Th) : Nat → Th := fun u => if u = t then x else f u

/-- The scheduler picks thread `t`; a disabled choice is a stutter. -/
def Sys.step (s : Sys) (t : Nat) : Sys :=
  match stepTh s.sh t (s.ths t) with
  | none => s
  | some (sh, th) => ⟨sh, upd s.ths t th⟩

/-- A schedule is a list of thread ids. -/
def run (s : Sys) : List Nat → Sys
  | [] => s
  | t :: σ => run (s.step t) σ

/-- `OnceInitCell::new(seed)` shared by threads with the given call lists. -/
def init (kind : Kind) (c : Nat) (calls : Nat → List Call) : Sys :=
  ⟨{ kind, once := if newCtor.1 then .done else .empty,
     data := match newCtor.2 with | .uninit => .seed c | .init => .value c },
   fun t => { calls := calls t }⟩

/-- What `Drop for OnceInitCell` does to the ledger. -/
structure Final where
  seedDrops : Nat
  seedLeaks : Nat
  valDrops : Nat
  /-- a destructor panicked (bomb seed) -/
  panicked : Bool
  /-- the destructor ran on the dead arm -/
  ub : Bool
  deriving DecidableEq, Repr

def dropCell (sh : Sh) : Final :=
  match dropArm (decide (sh.once = .done)), sh.data with
  | .init, .value _ => ⟨sh.seedDrops, sh.seedLeaks, 1, false, sh.ub⟩
  | .uninit, .seed _ =>
    if sh.kind.needsDrop then ⟨sh.seedDrops + 1, sh.seedLeaks, 0, decide (sh.kind = .bomb), sh.ub⟩
    else ⟨sh.seedDrops, sh.seedLeaks + 1, 0, false, sh.ub⟩
  | _, _ => ⟨sh.seedDrops, sh.seedLeaks, 0, false, true⟩

/-! ## Executable search used by the driver: does some schedule explain an observed outcome? -/

/-- Run thread `t` alone until its current call is finished (or it blocks / fuel ends). -/
def runCall (s : Sys) (t : Nat) : Nat → Sys
  | 0 => s
  | fuel + 1 =>
    let s' := s.step t
    if (s'.ths t).act.isNone then s' else runCall s' t fuel

/-- Depth-first search over call-atomic schedules of threads `0..k-1`: `want t` are the results
thread `t` observed (earliest first). Succeeds when every call is consumed with matching results
and the final ledger matches. -/
def explain (k : Nat) (want : Nat → List Res) (final : Sh → Bool) : Nat → Sys → Bool
  | 0, _ => false
  | fuel + 1, s =>
    if (List.range k).all (fun t => (s.ths t).calls.isEmpty) then
      (List.range k).all (fun t => (s.ths t).results.reverse == want t) && final s.sh
    else
      (List.range k).any fun t =>
        if (s.ths t).calls.isEmpty then false else
        let s' := runCall s t 64
        let got := (s'.ths t).results.reverse
        (s'.ths t).act.isNone && got.length == (s.ths t).results.length + 1
          && got == (want t).take got.length && explain k want final fuel s'

end AmVerif.Model.Cell
