import AmVerif.Gen.TabCond
import AmVerif.Gen.TabCast
import AmVerif.Gen.Rid
/-!
# The cache as a sequential state machine

`eval` runs a loader program against the cache state; it is a transcription of
`anycache.rs` (`load_entry`, `get_cached_entry_inner`, `add_asset`, `load_owned_entry`, `read`,
`read_dir`), `asset::load_and_record`, `key::Inner::of_asset::load_entry` and
`hot_reloading::records` (`record`, `no_record`, `add_*_record`). Every condition that decides
*whether* something is recorded, registered or created dynamic is the function regenerated
from the source (`AmVerif.Gen.Tables`).

Fuel decreases on every step (the real recursion depth is unbounded; results that return within the
fuel do not depend on it — `eval_fuel_mono` in `Lemmas/World.lean`).
-/
namespace AmVerif.Model
open AmVerif.Gen

/-- A cache entry (`EntryStorage`): `addr` models the address of its `Box`. -/
structure Cell where
  val : Val
  dyn : Bool
  rid : Nat
  flag : Bool
  addr : Nat
  deriving DecidableEq, Repr

/-- Messages from the cache to its reloader thread (besides `Ptr` / `Static`). -/
inductive Msg
  | addAsset (key : Key) (deps : List Dep)
  | clear
  deriving DecidableEq, Repr

structure TyInfo where
  hot : Bool
  prog : String → Prog

/-- Immutable during one evaluation: the source (indexed by the running read counter so that a
fault plan is just part of the function), the type table, and whether the cache has a reloader. -/
structure Env where
  read : Nat → String → String → Except IoErr (List UInt8)
  readDir : Nat → String → Except IoErr (List DirEnt)
  types : Nat → TyInfo
  hasReloader : Bool
  /-- fault plan for loader invocations (index = running number of checkpoints) -/
  loaderFault : Nat → Option Bool := fun _ => none

/-- Mutable state touched by loads. -/
structure St where
  map : List (Key × Cell) := []
  next : Nat := 0
  /-- recording stack of the running thread, top first (`RECORDING` + the saved values of the
  live `CellGuard`s); `none` = recording switched off -/
  recs : List (Option (List Dep)) := []
  /-- messages sent to the reloader, oldest first -/
  out : List Msg := []
  /-- number of source reads performed so far -/
  ios : Nat := 0
  /-- number of loader checkpoints passed so far -/
  loads : Nat := 0
  /-- addresses of entries dropped because they lost the insertion (keep-first) -/
  dropped : List Nat := []
  /-- **ownership ledger (ghost state, C13)**: the type of every value created so far (by a loader,
  or handed to `get_or_insert`); the identity of a value is its index in this list -/
  made : List Nat := []
  /-- which value each live entry holds: `(address of the entry, value id)` -/
  held : List (Nat × Nat) := []
  /-- values that left the cache: dropped by it, or handed to the caller (`take`, `load_owned`) -/
  gone : List Nat := []
  deriving Repr

def St.lookup (s : St) (k : Key) : Option Cell := (s.map.find? (·.1 = k)).map (·.2)

/-- `AssetMap::insert`: `entry(key).or_insert(entry)` — the first entry for a key survives. -/
def St.insertKeepFirst (s : St) (k : Key) (c : Cell) : St × Cell :=
  match s.lookup k with
  | some c' => ({ s with dropped := s.dropped ++ [c.addr] }, c')
  | none => ({ s with map := s.map ++ [(k, c)] }, c)

/-- A new value of type `ty` is stored in the entry at `addr` — or, when the insertion lost
(`entry().or_insert`: the key was there), dropped with its entry. -/
def St.own (s : St) (ty addr : Nat) (lost : Bool) : St :=
  { s with made := s.made ++ [ty],
           held := if lost then s.held else s.held ++ [(addr, s.made.length)],
           gone := if lost then s.gone ++ [s.made.length] else s.gone }

/-- A new value of type `ty` leaves the cache at once: returned by `load_owned`, or passed to
`get_or_insert` on a present key and dropped. -/
def St.handOut (s : St) (ty : Nat) : St :=
  { s with made := s.made ++ [ty], gone := s.gone ++ [s.made.length] }

/-- The entries at `addrs` leave the map (`remove`, `take`, `clear`): their values are dropped or
handed to the caller. -/
def St.release (s : St) (addrs : List Nat) : St :=
  { s with gone := s.gone ++ ((s.held.filter (fun x => x.1 ∈ addrs)).map (·.2)),
           held := s.held.filter (fun x => x.1 ∉ addrs) }

/-- `UntypedEntry::write`: the entry at `addr` gets a new value of type `ty`; the one it held is
dropped by the caller after the lock is released. -/
def St.swapValue (s : St) (ty addr : Nat) : St :=
  { s with made := s.made ++ [ty],
           held := s.held.map (fun x => if x.1 = addr then (addr, s.made.length) else x),
           gone := s.gone ++ ((s.held.filter (fun x => x.1 = addr)).map (·.2)) }

/-! The ledger is ghost state: none of its updates touches what the cache computes with. -/
section ghost
variable (s : St) (ty addr : Nat) (lost : Bool) (addrs : List Nat)
@[simp] theorem St.own_map : (s.own ty addr lost).map = s.map := rfl
@[simp] theorem St.own_next : (s.own ty addr lost).next = s.next := rfl
@[simp] theorem St.own_recs : (s.own ty addr lost).recs = s.recs := rfl
@[simp] theorem St.own_out : (s.own ty addr lost).out = s.out := rfl
@[simp] theorem St.own_ios : (s.own ty addr lost).ios = s.ios := rfl
@[simp] theorem St.own_loads : (s.own ty addr lost).loads = s.loads := rfl
@[simp] theorem St.own_dropped : (s.own ty addr lost).dropped = s.dropped := rfl
@[simp] theorem St.handOut_map : (s.handOut ty).map = s.map := rfl
@[simp] theorem St.handOut_next : (s.handOut ty).next = s.next := rfl
@[simp] theorem St.handOut_recs : (s.handOut ty).recs = s.recs := rfl
@[simp] theorem St.handOut_out : (s.handOut ty).out = s.out := rfl
@[simp] theorem St.handOut_ios : (s.handOut ty).ios = s.ios := rfl
@[simp] theorem St.handOut_loads : (s.handOut ty).loads = s.loads := rfl
@[simp] theorem St.handOut_dropped : (s.handOut ty).dropped = s.dropped := rfl
@[simp] theorem St.release_map : (s.release addrs).map = s.map := rfl
@[simp] theorem St.release_next : (s.release addrs).next = s.next := rfl
@[simp] theorem St.release_recs : (s.release addrs).recs = s.recs := rfl
@[simp] theorem St.release_out : (s.release addrs).out = s.out := rfl
@[simp] theorem St.release_ios : (s.release addrs).ios = s.ios := rfl
@[simp] theorem St.release_loads : (s.release addrs).loads = s.loads := rfl
@[simp] theorem St.release_dropped : (s.release addrs).dropped = s.dropped := rfl
@[simp] theorem St.swapValue_map : (s.swapValue ty addr).map = s.map := rfl
@[simp] theorem St.swapValue_next : (s.swapValue ty addr).next = s.next := rfl
@[simp] theorem St.swapValue_recs : (s.swapValue ty addr).recs = s.recs := rfl
@[simp] theorem St.swapValue_out : (s.swapValue ty addr).out = s.out := rfl
@[simp] theorem St.swapValue_ios : (s.swapValue ty addr).ios = s.ios := rfl
@[simp] theorem St.swapValue_loads : (s.swapValue ty addr).loads = s.loads := rfl
@[simp] theorem St.swapValue_dropped : (s.swapValue ty addr).dropped = s.dropped := rfl
@[simp] theorem St.own_lookup (k : Key) : (s.own ty addr lost).lookup k = s.lookup k := rfl
@[simp] theorem St.handOut_lookup (k : Key) : (s.handOut ty).lookup k = s.lookup k := rfl
@[simp] theorem St.release_lookup (k : Key) : (s.release addrs).lookup k = s.lookup k := rfl
@[simp] theorem St.swapValue_lookup (k : Key) : (s.swapValue ty addr).lookup k = s.lookup k := rfl
/-- the state without the ghost ledger: everything the cache computes with -/
def St.core : St := { s with made := [], held := [], gone := [] }
@[simp] theorem St.own_core : (s.own ty addr lost).core = s.core := rfl
@[simp] theorem St.handOut_core : (s.handOut ty).core = s.core := rfl
@[simp] theorem St.release_core : (s.release addrs).core = s.core := rfl
@[simp] theorem St.swapValue_core : (s.swapValue ty addr).core = s.core := rfl
end ghost

def depInsert (d : Dep) (ds : List Dep) : List Dep := if d ∈ ds then ds else ds ++ [d]

/-- `records::add_*_record`: only when a record is installed (top frame is `some`). -/
def St.record (s : St) (on : Bool) (d : Dep) : St :=
  if on then
    match s.recs with
    | some ds :: rest => { s with recs := some (depInsert d ds) :: rest }
    | _ => s
  else s

def St.send (s : St) (m : Msg) : St := { s with out := s.out ++ [m] }

/-- `records::add_records`: hand a whole dependency set to the installed record (if any). -/
def St.recordAll (s : St) (on : Bool) (ds : List Dep) : St := ds.foldl (fun s d => s.record on d) s

/-- `CellGuard::replace … drop`: run `body` with `frame` installed, then restore the thread's
recording to exactly what it was, on every exit path. Returns what the frame recorded. -/
def withFrame (push : Bool) (frame : Option (List Dep)) (body : St → St × Outcome) (s : St) :
    St × Outcome × List Dep :=
  if push then
    let r := body { s with recs := frame :: s.recs }
    ({ r.1 with recs := s.recs }, r.2, match r.1.recs with | some ds :: _ => ds | _ => [])
  else
    let r := body s
    (r.1, r.2, [])

/-- A helper thread started (and joined) during a load: its `RECORDING` thread-local is empty. -/
def onFreshThread (body : St → St × Outcome) (s : St) : St × Outcome :=
  let r := body { s with recs := [] }
  ({ r.1 with recs := s.recs }, r.2)

/-- Continue with the outcome of a nested evaluation; `panicked` / `diverged` propagate. -/
def cont (o : Outcome) (s : St) (k : Except LErr Val → St → St × Outcome) (wrap : LErr → LErr) : St × Outcome :=
  match o with
  | .ok v => k (.ok v) s
  | .err e => k (.error (wrap e)) s
  | o => (s, o)

def newCell (env : Env) (ty : Nat) (v : Val) (addr : Nat) : Cell :=
  { val := v, dyn := loadedEntryDynamic (env.types ty).hot env.hasReloader, rid := ReloadId_NEVER, flag := false, addr }

/-- `asset::load_and_record`: run the type's loader under a fresh record when the type is hot and
the cache has a reloader; on success tell the reloader. The outcome is the loader's; an error is
wrapped with the asset's own id (`Error::new(id, err)`). -/
def loadAndRecord (env : Env) (evalBody : St → St × Outcome) (key : Key) (s : St) : St × Outcome :=
  match withFrame (recordsAsset (env.types key.ty).hot env.hasReloader) (some []) evalBody s with
  | (s1, .ok v, deps) =>
    (if recordsAsset (env.types key.ty).hot env.hasReloader then s1.send (.addAsset key deps) else s1, .ok v)
  | (s1, .err e, deps) =>
    (s1.recordAll (failedLoadRecordsToParent && recordsAsset (env.types key.ty).hot env.hasReloader) deps,
      .err (.wrapped key.id e))
  | (s1, o, _) => (s1, o)

def eval (env : Env) : Nat → St → Prog → St × Outcome
  | 0, s, _ => (s, .diverged)
  | _+1, s, .ret v => (s, .ok v)
  | _+1, s, .fail e => (s, .err e)
  | _+1, s, .panic => (s, .panicked)
  | f+1, s, .read id ext k =>
      let s := s.record (recordsRead env.hasReloader) (.file id ext)
      let r := env.read s.ios id ext
      eval env f { s with ios := s.ios + 1 } (k r)
  | f+1, s, .readDir id k =>
      let s := s.record (recordsRead env.hasReloader) (.dir id)
      let r := env.readDir s.ios id
      eval env f { s with ios := s.ios + 1 } (k r)
  | f+1, s, .getCached key k =>
      let s := s.record (recordsAsset (env.types key.ty).hot env.hasReloader) (.asset key)
      eval env f s (k ((s.lookup key).map (·.val)))
  | f+1, s, .getOrInsert key v k =>
      -- `_get_cached_entry` (records like `get_cached`), then `add_any` when absent
      let s := s.record (recordsAsset (env.types key.ty).hot env.hasReloader) (.asset key)
      match s.lookup key with
      | some c => eval env f (s.handOut key.ty) (k c.val)   -- the value passed in is dropped
      | none =>
        let c : Cell := { val := v, dyn := insertedEntryDynamic (env.types key.ty).hot env.hasReloader,
                          rid := ReloadId_NEVER, flag := false, addr := s.next }
        let r := s.insertKeepFirst key c
        eval env f (St.own { r.1 with next := s.next + 1 } key.ty s.next false) (k v)
  | f+1, s, .noRecord body k =>
      let (s1, o, _) := withFrame true none (fun s => eval env f s body) s
      cont o s1 (fun r s => eval env f s (k r)) id
  | f+1, s, .onThread body k =>
      let (s1, o) := onFreshThread (fun s => eval env f s body) s
      cont o s1 (fun r s => eval env f s (k r)) id
  | f+1, s, .tick k => eval env f { s with loads := s.loads + 1 } (k (env.loaderFault s.loads))
  | f+1, s, .tryCatch body k =>
      let (s1, o) := eval env f s body
      match o with
      | .ok v => eval env f s1 (k (some (.ok v)))
      | .err e => eval env f s1 (k (some (.error e)))
      | .panicked => eval env f s1 (k none)
      | .diverged => (s1, .diverged)
  | f+1, s, .loadOwned key k =>
      let s := s.record (recordsAsset (env.types key.ty).hot env.hasReloader) (.asset key)
      let (s1, o) := loadAndRecord env (fun s => eval env f s ((env.types key.ty).prog key.id)) key s
      match o with
      | .ok v => eval env f (s1.handOut key.ty) (k (.ok v))   -- the caller owns the value
      | o => cont o s1 (fun r s => eval env f s (k r)) id
  | f+1, s, .load key k =>
      let s := s.record (recordsAsset (env.types key.ty).hot env.hasReloader) (.asset key)
      match s.lookup key with
      | some c => eval env f s (k (.ok c.val))
      | none =>
        let (s1, o) := loadAndRecord env (fun s => eval env f s ((env.types key.ty).prog key.id)) key s
        match o with
        | .ok v =>
            let r := s1.insertKeepFirst key (newCell env key.ty v s1.next)
            eval env f (St.own { r.1 with next := s1.next + 1 } key.ty s1.next (s1.lookup key).isSome) (k (.ok r.2.val))
        | o => cont o s1 (fun r s => eval env f s (k r)) id

/-! ## Operations of the public API (one thread, `&mut` operations included) -/

inductive Op
  | load (key : Key)
  | loadOwned (key : Key)
  | getCached (key : Key)
  | getOrInsert (key : Key) (v : Val)
  | contains (key : Key)
  | remove (key : Key)
  | take (key : Key)
  | clear
  deriving Repr

inductive Res
  | handle (addr : Nat) (v : Val)      -- `Ok(&Handle)` / `Some(&Handle)`
  | value (v : Val)                    -- owned value
  | none
  | bool (b : Bool)
  | err (e : LErr)
  | panicked
  | diverged
  | unit
  deriving DecidableEq, Repr

def fuelDefault : Nat := 100000

/-- continuation that returns the loaded value / propagates the error -/
def Prog.ret' : Except LErr Val → Prog
  | .ok v => .ret v
  | .error e => .fail e

def evalTop (env : Env) (fuel : Nat) (s : St) (p : Prog) : St × Outcome :=
  let r := eval env fuel { s with recs := [] } p
  ({ r.1 with recs := [] }, r.2)

def outcomeRes : Outcome → Res
  | .ok v => .value v
  | .err e => .err e
  | .panicked => .panicked
  | .diverged => .diverged

/-- What a view of an untyped entry at type `req` yields (`UntypedHandle::downcast_ref`, `is`,
`downcast` of the guard), as the extracted facts say the code computes it: the stored type id is the
one of the value the entry was created with, `is::<T>` compares it with `TypeId::of::<T>()`, and both
reinterpreting casts sit under `if self.is::<T>()`. -/
def viewAs (stored req : Nat) : Option Nat :=
  if isComparesTypeId && entryStoresOwnTypeId && downcastRefGuarded && downcastBoxGuarded && publicViewsUseGuardedCasts then
    (if stored = req then some stored else none)
  else some req   -- an unguarded cast would reinterpret

/-- Does the harness track values of this type in its ownership ledger (script assets, `M`, `Arc`s
of them)? Directories and plain integers carry no identity there. -/
def trackedTy (ty : Nat) : Bool := ty < 30

/-- the ledger as the harness can observe it: values created / gone, of tracked types -/
def St.ledgerCounts (s : St) : Nat × Nat :=
  ((s.made.filter trackedTy).length, (s.gone.filter (fun v => trackedTy (s.made.getD v 99))).length)

/-- the address of the entry stored under `key` (as a list: empty when absent) -/
def addrsOf (s : St) (key : Key) : List Nat := (s.map.filter (·.1 = key)).map (·.2.addr)

def step (env : Env) (fuel : Nat) (s : St) : Op → St × Res
  | .load key =>
    let (s1, o) := evalTop env fuel s (.load key Prog.ret')
    match o with
    | .ok _ => (s1, match s1.lookup key with | some c => .handle c.addr c.val | none => .panicked)
    | o => (s1, outcomeRes o)
  | .loadOwned key =>
    let (s1, o) := evalTop env fuel s (.loadOwned key Prog.ret')
    (s1, outcomeRes o)
  | .getCached key =>
    -- outside a load nothing is recording: plain look-up
    (s, match s.lookup key with | some c => .handle c.addr c.val | none => .none)
  | .getOrInsert key v =>
    match s.lookup key with
    | some c => (s.handOut key.ty, .handle c.addr c.val)   -- the value passed in is dropped
    | none =>
      let c : Cell := { val := v, dyn := insertedEntryDynamic (env.types key.ty).hot env.hasReloader,
                        rid := ReloadId_NEVER, flag := false, addr := s.next }
      let r := s.insertKeepFirst key c
      (St.own { r.1 with next := s.next + 1 } key.ty s.next false, .handle r.2.addr r.2.val)
  | .contains key => (s, .bool (s.lookup key).isSome)
  | .remove key => (St.release { s with map := s.map.filter (·.1 ≠ key) } (addrsOf s key), .bool (s.lookup key).isSome)
  | .take key =>
    (St.release { s with map := s.map.filter (·.1 ≠ key) } (addrsOf s key), match s.lookup key with | some c => .value c.val | none => .none)
  | .clear => (St.release { (if env.hasReloader then s.send .clear else s) with map := [] } (s.map.map (·.2.addr)), .unit)

end AmVerif.Model
