import AmVerif.Gen.Tables
import AmVerif.Gen.Rid
/-!
# The cache as a sequential state machine

`eval` runs a loader program against the cache state; it is a transcription of
`anycache.rs` (`load_entry`, `get_cached_entry_inner`, `add_asset`, `load_owned_entry`, `read`,
`read_dir`), `asset::load_and_record`, `key::Inner::of_asset::load_entry` and
`hot_reloading::records` (`record`, `no_record`, `add_*_record`). Every condition that decides
*whether* something is recorded, registered or created dynamic is the function regenerated
from the source (`AmVerif.Gen.Tables`).

Fuel decreases on every step (the real recursion depth is unbounded; results that return within the
fuel do not depend on it — `eval_fuel_mono` in `Lemmas/World.lean`).
-/
namespace AmVerif.Model
open AmVerif.Gen

/-- A cache entry (`EntryStorage`): `addr` models the address of its `Box`. -/
structure Cell where
  val : Val
  dyn : Bool
  rid : Nat
  flag : Bool
  addr : Nat
  deriving DecidableEq, Repr

/-- Messages from the cache to its reloader thread (besides `Ptr` / `Static`). -/
inductive Msg
  | addAsset (key : Key) (deps : List Dep)
  | clear
  deriving DecidableEq, Repr

structure TyInfo where
  hot : Bool
  prog : String → Prog

/-- Immutable during one evaluation: the source (indexed by the running read counter so that a
fault plan is just part of the function), the type table, and whether the cache has a reloader. -/
structure Env where
  read : Nat → String → String → Except IoErr (List UInt8)
  readDir : Nat → String → Except IoErr (List DirEnt)
  types : Nat → TyInfo
  hasReloader : Bool
  /-- fault plan for loader invocations (index = running number of checkpoints) -/
  loaderFault : Nat → Option Bool := fun _ => none

/-- Mutable state touched by loads. -/
structure St where
  map : List (Key × Cell) := []
  next : Nat := 0
  /-- recording stack of the running thread, top first (`RECORDING` + the saved values of the
  live `CellGuard`s); `none` = recording switched off -/
  recs : List (Option (List Dep)) := []
  /-- messages sent to the reloader, oldest first -/
  out : List Msg := []
  /-- number of source reads performed so far -/
  ios : Nat := 0
  /-- number of loader checkpoints passed so far -/
  loads : Nat := 0
  /-- addresses of entries dropped because they lost the insertion (keep-first) -/
  dropped : List Nat := []
  deriving Repr

def St.lookup (s : St) (k : Key) : Option Cell := (s.map.find? (·.1 = k)).map (·.2)

/-- `AssetMap::insert`: `entry(key).or_insert(entry)` — the first entry for a key survives. -/
def St.insertKeepFirst (s : St) (k : Key) (c : Cell) : St × Cell :=
  match s.lookup k with
  | some c' => ({ s with dropped := s.dropped ++ [c.addr] }, c')
  | none => ({ s with map := s.map ++ [(k, c)] }, c)

def depInsert (d : Dep) (ds : List Dep) : List Dep := if d ∈ ds then ds else ds ++ [d]

/-- `records::add_*_record`: only when a record is installed (top frame is `some`). -/
def St.record (s : St) (on : Bool) (d : Dep) : St :=
  if on then
    match s.recs with
    | some ds :: rest => { s with recs := some (depInsert d ds) :: rest }
    | _ => s
  else s

def St.send (s : St) (m : Msg) : St := { s with out := s.out ++ [m] }

/-- `records::add_records`: hand a whole dependency set to the installed record (if any). -/
def St.recordAll (s : St) (on : Bool) (ds : List Dep) : St := ds.foldl (fun s d => s.record on d) s

/-- `CellGuard::replace … drop`: run `body` with `frame` installed, then restore the thread's
recording to exactly what it was, on every exit path. Returns what the frame recorded. -/
def withFrame (push : Bool) (frame : Option (List Dep)) (body : St → St × Outcome) (s : St) :
    St × Outcome × List Dep :=
  if push then
    let r := body { s with recs := frame :: s.recs }
    ({ r.1 with recs := s.recs }, r.2, match r.1.recs with | some ds :: _ => ds | _ => [])
  else
    let r := body s
    (r.1, r.2, [])

/-- A helper thread started (and joined) during a load: its `RECORDING` thread-local is empty. -/
def onFreshThread (body : St → St × Outcome) (s : St) : St × Outcome :=
  let r := body { s with recs := [] }
  ({ r.1 with recs := s.recs }, r.2)

/-- Continue with the outcome of a nested evaluation; `panicked` / `diverged` propagate. -/
def cont (o : Outcome) (s : St) (k : Except LErr Val → St → St × Outcome) (wrap : LErr → LErr) : St × Outcome :=
  match o with
  | .ok v => k (.ok v) s
  | .err e => k (.error (wrap e)) s
  | o => (s, o)

def newCell (env : Env) (ty : Nat) (v : Val) (addr : Nat) : Cell :=
  { val := v, dyn := loadedEntryDynamic (env.types ty).hot env.hasReloader, rid := ReloadId_NEVER, flag := false, addr }

/-- `asset::load_and_record`: run the type's loader under a fresh record when the type is hot and
the cache has a reloader; on success tell the reloader. The outcome is the loader's; an error is
wrapped with the asset's own id (`Error::new(id, err)`). -/
def loadAndRecord (env : Env) (evalBody : St → St × Outcome) (key : Key) (s : St) : St × Outcome :=
  match withFrame (recordsAsset (env.types key.ty).hot env.hasReloader) (some []) evalBody s with
  | (s1, .ok v, deps) =>
    (if recordsAsset (env.types key.ty).hot env.hasReloader then s1.send (.addAsset key deps) else s1, .ok v)
  | (s1, .err e, deps) =>
    (s1.recordAll (failedLoadRecordsToParent && recordsAsset (env.types key.ty).hot env.hasReloader) deps,
      .err (.wrapped key.id e))
  | (s1, o, _) => (s1, o)

def eval (env : Env) : Nat → St → Prog → St × Outcome
  | 0, s, _ => (s, .diverged)
  | _+1, s, .ret v => (s, .ok v)
  | _+1, s, .fail e => (s, .err e)
  | _+1, s, .panic => (s, .panicked)
  | f+1, s, .read id ext k =>
      let s := s.record (recordsRead env.hasReloader) (.file id ext)
      let r := env.read s.ios id ext
      eval env f { s with ios := s.ios + 1 } (k r)
  | f+1, s, .readDir id k =>
      let s := s.record (recordsRead env.hasReloader) (.dir id)
      let r := env.readDir s.ios id
      eval env f { s with ios := s.ios + 1 } (k r)
  | f+1, s, .getCached key k =>
      let s := s.record (recordsAsset (env.types key.ty).hot env.hasReloader) (.asset key)
      eval env f s (k ((s.lookup key).map (·.val)))
  | f+1, s, .noRecord body k =>
      let (s1, o, _) := withFrame true none (fun s => eval env f s body) s
      cont o s1 (fun r s => eval env f s (k r)) id
  | f+1, s, .onThread body k =>
      let (s1, o) := onFreshThread (fun s => eval env f s body) s
      cont o s1 (fun r s => eval env f s (k r)) id
  | f+1, s, .tick k => eval env f { s with loads := s.loads + 1 } (k (env.loaderFault s.loads))
  | f+1, s, .tryCatch body k =>
      let (s1, o) := eval env f s body
      match o with
      | .ok v => eval env f s1 (k (some (.ok v)))
      | .err e => eval env f s1 (k (some (.error e)))
      | .panicked => eval env f s1 (k none)
      | .diverged => (s1, .diverged)
  | f+1, s, .loadOwned key k =>
      let s := s.record (recordsAsset (env.types key.ty).hot env.hasReloader) (.asset key)
      let (s1, o) := loadAndRecord env (fun s => eval env f s ((env.types key.ty).prog key.id)) key s
      cont o s1 (fun r s => eval env f s (k r)) id
  | f+1, s, .load key k =>
      let s := s.record (recordsAsset (env.types key.ty).hot env.hasReloader) (.asset key)
      match s.lookup key with
      | some c => eval env f s (k (.ok c.val))
      | none =>
        let (s1, o) := loadAndRecord env (fun s => eval env f s ((env.types key.ty).prog key.id)) key s
        match o with
        | .ok v =>
            let r := s1.insertKeepFirst key (newCell env key.ty v s1.next)
            eval env f { r.1 with next := s1.next + 1 } (k (.ok r.2.val))
        | o => cont o s1 (fun r s => eval env f s (k r)) id

/-! ## Operations of the public API (one thread, `&mut` operations included) -/

inductive Op
  | load (key : Key)
  | loadOwned (key : Key)
  | getCached (key : Key)
  | getOrInsert (key : Key) (v : Val)
  | contains (key : Key)
  | remove (key : Key)
  | take (key : Key)
  | clear
  deriving Repr

inductive Res
  | handle (addr : Nat) (v : Val)      -- `Ok(&Handle)` / `Some(&Handle)`
  | value (v : Val)                    -- owned value
  | none
  | bool (b : Bool)
  | err (e : LErr)
  | panicked
  | diverged
  | unit
  deriving DecidableEq, Repr

def fuelDefault : Nat := 100000

/-- continuation that returns the loaded value / propagates the error -/
def Prog.ret' : Except LErr Val → Prog
  | .ok v => .ret v
  | .error e => .fail e

def evalTop (env : Env) (fuel : Nat) (s : St) (p : Prog) : St × Outcome :=
  let r := eval env fuel { s with recs := [] } p
  ({ r.1 with recs := [] }, r.2)

def outcomeRes : Outcome → Res
  | .ok v => .value v
  | .err e => .err e
  | .panicked => .panicked
  | .diverged => .diverged

def step (env : Env) (fuel : Nat) (s : St) : Op → St × Res
  | .load key =>
    let (s1, o) := evalTop env fuel s (.load key Prog.ret')
    match o with
    | .ok _ => (s1, match s1.lookup key with | some c => .handle c.addr c.val | none => .panicked)
    | o => (s1, outcomeRes o)
  | .loadOwned key =>
    let (s1, o) := evalTop env fuel s (.loadOwned key Prog.ret')
    (s1, outcomeRes o)
  | .getCached key =>
    -- outside a load nothing is recording: plain look-up
    (s, match s.lookup key with | some c => .handle c.addr c.val | none => .none)
  | .getOrInsert key v =>
    match s.lookup key with
    | some c => (s, .handle c.addr c.val)
    | none =>
      let c : Cell := { val := v, dyn := insertedEntryDynamic (env.types key.ty).hot env.hasReloader,
                        rid := ReloadId_NEVER, flag := false, addr := s.next }
      let r := s.insertKeepFirst key c
      ({ r.1 with next := s.next + 1 }, .handle r.2.addr r.2.val)
  | .contains key => (s, .bool (s.lookup key).isSome)
  | .remove key => ({ s with map := s.map.filter (·.1 ≠ key) }, .bool (s.lookup key).isSome)
  | .take key =>
    ({ s with map := s.map.filter (·.1 ≠ key) }, match s.lookup key with | some c => .value c.val | none => .none)
  | .clear => ({ (if env.hasReloader then s.send .clear else s) with map := [] }, .unit)

end AmVerif.Model
