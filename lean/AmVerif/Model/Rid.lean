import AmVerif.Gen.Rid
/-!
# ReloadId / AtomicReloadId — sequential and linearised-concurrent model

The definitions executed here are the *generated* ones (`AmVerif.Gen.Rid`), i.e. what
`src/entry.rs` says today. A concurrent history of calls on one `AtomicReloadId` is modelled by
its linearisation: the list of calls in the order their (single) atomic primitive took effect.
That each method is a single primitive is itself an extracted fact (`Gen.atomicPrims`), checked
in `Props/C18.lean`; under it every schedule of every number of threads induces such a list, so
quantifying over all lists quantifies over all schedules.
-/
namespace AmVerif.Model.Rid
open AmVerif.Gen

/-- A call on a shared `AtomicReloadId`. -/
inductive Call
  | update (n : Nat) | fetchMax (n : Nat) | swap (n : Nat) | store (n : Nat) | load | increment
  deriving DecidableEq, Repr

/-- Result reported to the caller. -/
inductive Ret | told (b : Bool) | prev (n : Nat) | unit
  deriving DecidableEq, Repr

/-- One call at its linearisation point, by the generated code. -/
def step (cell : Nat) : Call → Ret × Nat
  | .update n   => let (b, c) := AtomicReloadId_update n cell; (.told b, c)
  | .fetchMax n => let (p, c) := AtomicReloadId_fetch_max n cell; (.prev p, c)
  | .swap n     => let (p, c) := AtomicReloadId_swap n cell; (.prev p, c)
  | .store n    => let (_, c) := AtomicReloadId_store n cell; (.unit, c)
  | .load       => let (p, c) := AtomicReloadId_load cell; (.prev p, c)
  | .increment  => let (_, c) := AtomicReloadId_increment cell; (.unit, c)

/-- Run a linearised history; returns the final cell and every call's result. -/
def run (cell : Nat) : List Call → Nat × List Ret
  | [] => (cell, [])
  | c :: cs => let (r, cell') := step cell c; let (f, rs) := run cell' cs; (f, r :: rs)

/-- The history of `update` calls offering `xs` in that order. -/
def updates (xs : List Nat) : List Call := xs.map .update

/-- Sequential `ReloadId` (a `&mut` value): fold of the generated `update`. -/
def seqRun (self : Nat) : List Nat → Nat × List Bool
  | [] => (self, [])
  | n :: ns => let (s, b) := ReloadId_update self n; let (f, bs) := seqRun s ns; (f, b :: bs)

/-! ## Executable check used by the driver for free-running concurrent observations -/

/-- All permutations (small lists only; used to validate an observed concurrent outcome). -/
def insertAll {α} (x : α) : List α → List (List α)
  | [] => [[x]]
  | y :: ys => (x :: y :: ys) :: (insertAll x ys).map (y :: ·)

def perms {α} : List α → List (List α)
  | [] => [[]]
  | x :: xs => (perms xs).flatMap (insertAll x)

/-- Is the observed outcome `obs = [(offered, told)]` (one entry per thread, each thread one
`update` call) together with `final` the result of *some* linearisation from `init`? -/
def admitsLinearisation (init final : Nat) (obs : List (Nat × Bool)) : Bool :=
  (perms obs).any fun p =>
    let (f, rs) := run init (updates (p.map (·.1)))
    f == final && rs == p.map (fun x => Ret.told x.2)

end AmVerif.Model.Rid
