/-!
# Effect skeletons

The shape `amx` extracts from a function body: calls in evaluation order, lock-guard
acquisition / release, control structure. `σ` is the vocabulary of effect names (generated).
-/
namespace AmVerif.Model

inductive Sk (σ : Type) where
  | call (f : σ)
  | acq (lock : σ) (guard : Nat)
  | rel (guard : Nat)
  | retGuard (guard : Nat)
  | branch (alts : List (List (Sk σ)))
  | loop (body : List (Sk σ))
  | closure (body : List (Sk σ))
  | ret | brk | cont | try_

end AmVerif.Model
