/-!
# Atomic cell primitives (sequentially consistent, one step each)

`Atom α` is a computation over one `AtomicUsize` cell: it receives the cell's value and returns
a result and the new value. Every primitive below is ONE indivisible step of the interleaving
models. `usize` is modelled as an unbounded `Nat` (wrap-around after 2^64 reloads is outside the
model; stated in the trusted base).
-/
namespace AmVerif.Model

inductive Ord | Relaxed | Release | Acquire | AcqRel | SeqCst
  deriving DecidableEq, Repr

inductive AtomPrim | load | store | swap | fetchAdd | fetchSub | fetchMax | fetchMin
  deriving DecidableEq, Repr

inductive AtomicMethod | load | store | increment | swap | fetchMax | update
  deriving DecidableEq, Repr

abbrev Atom (α : Type) := Nat → α × Nat

namespace Atom
def load (_ : Ord) : Atom Nat := fun c => (c, c)
def store (_ : Ord) (v : Nat) : Atom Unit := fun _ => ((), v)
def swap (_ : Ord) (v : Nat) : Atom Nat := fun c => (c, v)
def fetchAdd (_ : Ord) (v : Nat) : Atom Nat := fun c => (c, c + v)
def fetchSub (_ : Ord) (v : Nat) : Atom Nat := fun c => (c, c - v)
def fetchMax (_ : Ord) (v : Nat) : Atom Nat := fun c => (c, max c v)
def fetchMin (_ : Ord) (v : Nat) : Atom Nat := fun c => (c, min c v)
end Atom

/-- Is this ordering at least a release (for a store / RMW that publishes)? -/
def Ord.isRelease : Ord → Bool
  | .Release | .AcqRel | .SeqCst => true
  | _ => false

/-- Is this ordering at least an acquire (for a load / RMW that observes)? -/
def Ord.isAcquire : Ord → Bool
  | .Acquire | .AcqRel | .SeqCst => true
  | _ => false

end AmVerif.Model
