/-!
# The reloader thread: answer mailbox, reverse-dependency visit, thread loop (C08, C15)

One executable model of `src/hot_reloading/{mod,dependencies}.rs`, **parametric in the facts that
distinguish the defective from the repaired code** (`Cfg`). `Props/C08.lean` / `Props/C15.lean` compute
these facts from the effect skeletons regenerated from the source (`AmVerif.Gen.Skel`), prove the
full-strength theorems for the repaired configuration and kernel-checked refutation witnesses for the
defective one; the driver (`Driver/Reloader.lean`) executes these same definitions with the
configuration computed from today's source.

* **Mailbox** (`Answers` + `cache_msg` channel + `HotReloader::reload` + the `Ptr` arm of the thread
  loop): shared state + per-thread programs of atomic steps, a schedule is a list of thread ids,
  a disabled choice is a stutter. An atomic step is one channel operation or the body of one
  `current_token` lock scope up to the next blocking point (`wait_while` = release + sleep as one
  step, wake-up + re-check as another). Spurious wake-ups are steps of their own.
* **Visit** (`DepsGraph::visit` / `topological_sort_from`): fuelled DFS along reverse dependencies in
  either statement order; exhausting every fuel = unbounded recursion = stack overflow.
* **Loop** (`hot_reloading_thread`): one iteration as a function of `Select::ready`'s pick.

Core Lean only.
-/
namespace AmVerif.Model.Reloader

/-- What the source says today about the four places where the defective and the repaired code differ. -/
structure Cfg where
  /-- `Answers::wait_for_answer` calls `notify_all` after emptying the slot (F-C08a) -/
  waitNotifies : Bool
  /-- `DepsGraph::visit` inserts into `visited` before recursing into the reverse dependencies (F-C08b) -/
  marksFirst : Bool
  /-- the thread loop leaves the *outer* loop when `cache_msg` is disconnected (F-C15) -/
  leavesOnDisconnect : Bool
  /-- the thread loop leaves when the *event* channel is disconnected (no source will ever send again) -/
  leavesOnEventsDisconnect : Bool
  /-- `reload_untyped` runs the loader under `catch_unwind` (F-C09) -/
  catchesPanic : Bool
  deriving DecidableEq, Repr

def Cfg.repaired : Cfg := ⟨true, true, true, true, true⟩
def Cfg.defective : Cfg := ⟨false, false, false, true, false⟩

/-! ## Reverse-dependency visit -/

structure VSt where
  vis : List Nat
  /-- cons-list: head = last finished = first to be reloaded -/
  out : List Nat
  deriving DecidableEq, Repr

/-- `DepsGraph::visit`. `g k = none`: `k` is not a node of the graph; `g k = some rs`: its reverse
dependencies. `markFirst = false`: `visited.insert` after the recursive calls (the order the statements
have in the defective source); `true`: before. `none` = fuel exhausted. -/
def visit (g : Nat → Option (List Nat)) (markFirst : Bool) : Nat → VSt → Nat → Option VSt
  | 0, _, _ => none
  | f+1, st, k =>
    if k ∈ st.vis then some st else
    match g k with
    | none => some st
    | some rs =>
      match rs.foldlM (fun s r => visit g markFirst f s r) (if markFirst then ⟨k :: st.vis, st.out⟩ else st) with
      | none => none
      | some s => some ⟨if markFirst then s.vis else k :: s.vis, k :: s.out⟩

/-- `topological_sort_from` + `TopologicalSort::into_iter` (+ only asset nodes are listed). -/
def topo (g : Nat → Option (List Nat)) (isAsset : Nat → Bool) (markFirst : Bool) (fuel : Nat) (changed : List Nat) :
    Option (List Nat) :=
  (changed.foldlM (fun s k => visit g markFirst fuel s k) ⟨[], []⟩).map fun s => s.out.filter isAsset

/-- Outcome of one update pass (`run_update`) on the reloader thread. -/
inductive Upd | ok | panics | overflow
  deriving DecidableEq, Repr

/-- Update pass: sort (stack overflow when the visit exhausts the given stack `fuel`), then reload
each listed asset; `panicking a` = the loader of `a` panics. -/
def updatePass (g : Nat → Option (List Nat)) (isAsset : Nat → Bool) (markFirst : Bool) (fuel : Nat)
    (changed : List Nat) (panicking : Nat → Bool) : Upd :=
  match topo g isAsset markFirst fuel changed with
  | none => .overflow
  | some order => if order.any panicking then .panics else .ok

/-! ## Mailbox: `hot_reload` callers and the reloader thread -/

/-- program counter of one `hot_reload` call (call `i` uses token `i`: tokens are unique, `fetch_add`) -/
inductive CPc | idle | sent | sleeping | runnable | done
  deriving DecidableEq, Repr

/-- program counter of the reloader thread: blocked in `ready`/`try_recv` for a `Ptr` message; running
the update for token `t`; about to publish `t` (in `Answers::notify`, holding the lock or runnable);
asleep in `notify`'s `wait_while` for an empty slot; dead (panic unwound the thread); the process was
aborted (stack overflow). -/
inductive RPc | recv | upd (t : Nat) | pub (t : Nat) | sleep (t : Nat) | dead | aborted
  deriving DecidableEq, Repr

structure St where
  c      : Nat → CPc
  queue  : List Nat          -- `cache_msg` channel (tokens of `Ptr` messages), FIFO
  slot   : Option Nat        -- `Answers.current_token`
  r      : RPc
  served : List Nat          -- ghost: tokens whose update pass has finished

/-- What the threads run against: the two source facts the protocol depends on, and the outcome of the
update pass for each request (an arbitrary function: every dependency graph, every loader). -/
structure Env where
  waitNotifies : Bool
  catchesPanic : Bool
  upd : Nat → Upd

inductive Tid | caller (i : Nat) | reloader | spurious (i : Nat) | spuriousR
  deriving DecidableEq, Repr

def upd (c : Nat → CPc) (i : Nat) (v : CPc) : Nat → CPc := fun j => if j = i then v else c j
def wakeAll (c : Nat → CPc) : Nat → CPc := fun j => if c j = .sleeping then .runnable else c j
def wakeR : RPc → RPc | .sleep t => .pub t | r => r

def step (e : Env) (s : St) : Tid → Option St
  | .caller i =>
    if s.r = .aborted then none else
    match s.c i with
    | .idle =>
        -- `sender.send(Ptr ..)`: fails once the thread (the receiver) is gone, then `reload` returns at once
        if s.r = .dead then some { s with c := upd s.c i .done }
        else some { s with c := upd s.c i .sent, queue := s.queue ++ [i] }
    | .sent | .runnable =>
        -- `wait_for_answer`: (re-)check the predicate under the lock
        if s.slot = some i then
          some (if e.waitNotifies then { s with c := wakeAll (upd s.c i .done), slot := none, r := wakeR s.r }
                else { s with c := upd s.c i .done, slot := none })
        else some { s with c := upd s.c i .sleeping }
    | _ => none
  | .reloader =>
    match s.r with
    | .recv => match s.queue with
        | t :: q => some { s with queue := q, r := .upd t }
        | [] => none
    | .upd t =>
        match e.upd t with
        | .ok => some { s with r := .pub t, served := t :: s.served }
        | .panics => if e.catchesPanic then some { s with r := .pub t, served := t :: s.served } else some { s with r := .dead }
        | .overflow => some { s with r := .aborted }
    | .pub t =>
        if s.slot.isSome then some { s with r := .sleep t }
        else some { s with slot := some t, r := .recv, c := wakeAll s.c }
    | .sleep _ => none
    | .dead => none
    | .aborted => none
  | .spurious i => if s.r ≠ .aborted ∧ s.c i = .sleeping then some { s with c := upd s.c i .runnable } else none
  | .spuriousR => match s.r with | .sleep t => some { s with r := .pub t } | _ => none

/-- `n` concurrent calls (ids `0..n-1`), nothing sent yet. -/
def init (n : Nat) : St := ⟨fun i => if i < n then .idle else .done, [], none, .recv, []⟩

/-- Run a schedule; a disabled choice is a stutter. -/
def run (e : Env) : St → List Tid → St
  | s, [] => s
  | s, t :: ts => match step e s t with | some s' => run e s' ts | none => run e s ts

def allDone (s : St) : Nat → Bool
  | 0 => true
  | n+1 => s.c n = .done && allDone s n

def anyCallerEnabled (e : Env) (s : St) : Nat → Bool
  | 0 => false
  | n+1 => (step e s (.caller n)).isSome || anyCallerEnabled e s n

/-- Some call has not returned and no thread can take a (non-spurious) step. -/
def deadlocked (e : Env) (s : St) (n : Nat) : Bool :=
  !allDone s n && !(step e s .reloader).isSome && !anyCallerEnabled e s n

/-! ### Bookkeeping used by the invariants -/

def holds : RPc → Nat → Nat
  | .upd u, t | .pub u, t | .sleep u, t => if u = t then 1 else 0
  | _, _ => 0
def inSlot (sl : Option Nat) (t : Nat) : Nat := if sl = some t then 1 else 0
/-- number of places token `t` currently lives in: channel, the reloader's hand, the slot -/
def where_ (s : St) (t : Nat) : Nat := s.queue.count t + holds s.r t + inSlot s.slot t
def active (p : CPc) : Bool := p = .sent || p = .sleeping || p = .runnable

/-- count of calls `< n` whose program counter satisfies `p` -/
def cnt (p : CPc → Bool) (c : Nat → CPc) : Nat → Nat
  | 0 => 0
  | n+1 => cnt p c n + (if p (c n) then 1 else 0)

def rweight : RPc → Nat | .upd _ => 4 | .pub _ => 3 | .sleep _ => 3 | _ => 0
def rcheck : RPc → Nat | .pub _ => 1 | _ => 0

/-- major progress measure: how far every token still has to travel -/
def major (s : St) (n : Nat) : Nat :=
  6 * cnt (· = .idle) s.c n + 5 * s.queue.length + rweight s.r + (if s.slot.isSome then 1 else 0)

/-- minor measure: threads that can still perform a re-check that does not move a token -/
def minor (s : St) (n : Nat) : Nat :=
  cnt (fun p => p = .sent || p = .runnable) s.c n + rcheck s.r

/-- `(n+2)·major + minor` -/
def rank (s : St) (n : Nat) : Nat := (n + 2) * major s n + minor s n

/-! ## Thread loop (C15) -/

structure LoopSt where
  msgQ : Nat          -- pending `cache_msg` messages
  evQ : Nat           -- pending event batches
  msgConn : Bool      -- the cache (the only `cache_msg` sender) is alive
  evConn : Bool       -- some `EventSender` is alive
  deriving DecidableEq, Repr

inductive LoopRes | blocked | continue_ (s : LoopSt) | exit
  deriving DecidableEq, Repr

/-- The two source facts the loop depends on. -/
structure LoopCfg where
  /-- the drain loop leaves the *thread* when `cache_msg` is disconnected -/
  leavesOnDisconnect : Bool
  /-- the events arm leaves the thread when the event channel is disconnected -/
  leavesOnEventsDisconnect : Bool
  deriving DecidableEq, Repr

def Cfg.loop (c : Cfg) : LoopCfg := ⟨c.leavesOnDisconnect, c.leavesOnEventsDisconnect⟩

/-- One iteration of the outer loop of `hot_reloading_thread`. `pickEvents`: `Select::ready`'s choice
when both operations are ready (an operation is ready when its channel has a message *or is
disconnected*; every choice is covered, so a biased `Select` is an instance). -/
def iter (lc : LoopCfg) (pickEvents : Bool) (s : LoopSt) : LoopRes :=
  let msgReady := s.msgQ > 0 || !s.msgConn
  let evReady := s.evQ > 0 || !s.evConn
  if !msgReady && !evReady then .blocked else
  let ready1 := if msgReady && evReady then pickEvents else evReady
  -- inner loop: drain `cache_msg`, then `try_recv` fails with Empty or Disconnected
  if !s.msgConn && lc.leavesOnDisconnect then .exit else
  let s1 := { s with msgQ := 0 }
  if ready1 then
    if s1.evQ > 0 then .continue_ { s1 with evQ := s1.evQ - 1 }
    else if s1.evConn then .continue_ s1
    else if lc.leavesOnEventsDisconnect then .exit
    else .continue_ s1
  else .continue_ s1

/-- Run iterations with the given picks; `none` = the thread has exited, `some (s, blocked)` otherwise. -/
def runLoop (lc : LoopCfg) : LoopSt → List Bool → Option (LoopSt × Bool)
  | s, [] => some (s, false)
  | s, p :: ps =>
    match iter lc p s with
    | .exit => none
    | .blocked => some (s, true)
    | .continue_ s' => runLoop lc s' ps

/-- What an observer of the thread sees in the long run under fair picks (alternating), given that
nothing is sent any more: exited, asleep for good, or spinning. -/
inductive Verdict | exited | asleep | spinning
  deriving DecidableEq, Repr

def verdictFuel (lc : LoopCfg) : Nat → Bool → LoopSt → Verdict
  | 0, _, _ => .spinning
  | f+1, p, s =>
    match iter lc p s with
    | .exit => .exited
    | .blocked => .asleep
    | .continue_ s' => verdictFuel lc f (!p) s'

def verdict (lc : LoopCfg) (s : LoopSt) : Verdict := verdictFuel lc (2 * (s.msgQ + s.evQ) + 8) false s

end AmVerif.Model.Reloader
