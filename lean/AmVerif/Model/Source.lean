import AmVerif.Model.ArchiveSkel
/-!
# Sources: one tree seen through FileSystem, Zip/Tar, Embedded (C04) and directory assets (C11)

* `Tree` — a finite directory tree, flat: files with their directory path, and the list of all
  (non-root) directories. `sem t` is the *specification* view: what `read`, `read_dir`, `exists`
  must answer for ids (dotted strings, `List Char`).
* `index` — transcription of `Zip::create` / `Tar::create`: the root directory is registered, then
  `register` is folded over the member list; `register` *interprets* the effect skeletons of
  `register_file` and `register_dir` (`ArchiveSkel.Skel`, `ArchiveSkel.DirSkel`), the ones extracted
  from the source by `amx` are proved equal to `registerSkel` / `registerDirSkel` in `Props/C04.lean`.
  `HashMap`s are modelled as partial functions (modelled, not verified); the `Vec` of a directory
  keeps its insertion order.
* `fsView` — `FileSystem`: `path_of_entry`, `fs::read`, `fs::read_dir`, `Path::is_file` / `is_dir`
  over the materialised tree (an OS model: a path names a file, a directory, or nothing; going
  through a file is `ENOTDIR`); which kind tests the code makes is extracted (`FsCfg`).
* `embedTables` / `embeddedFrom` — the tables `embed!` produces and `Embedded::from`.
* `dirLoad`, `recLoad`, `iter`, `iterCached` — `Directory<T>` / `RecursiveDirectory<T>`.
-/
namespace AmVerif.Model.Source
open AmVerif.Model.ArchiveSkel

abbrev Name := List Char
abbrev Id := List Char
abbrev Bytes := List UInt8

/-! ## ids and file names -/

/-- Rust's `str::split('.')`. -/
def splitDot : List Char → List (List Char)
  | [] => [[]]
  | c :: cs =>
    if c = '.' then [] :: splitDot cs
    else match splitDot cs with
      | [] => [[c]]
      | w :: ws => (c :: w) :: ws

def joinDot : List (List Char) → List Char
  | [] => []
  | [w] => w
  | w :: ws => w ++ '.' :: joinDot ws

/-- `Path::file_stem` / `Path::extension` of one file name (std's `rsplit_file_at_dot`). -/
def splitExt (name : Name) : Name × Option Name :=
  if name = ['.', '.'] then (name, none) else
  match (splitDot name).reverse with
  | [] => (name, none)
  | [_] => (name, none)
  | ext :: revInit =>
    let stem := joinDot revInit.reverse
    if stem.isEmpty then (name, none) else (stem, some ext)

/-- `extension_of`: no extension is the empty extension. -/
def extensionOf (name : Name) : Name := ((splitExt name).2).getD []

/-- `IdBuilder::push`. -/
def idPush (buf : List Char) (s : Name) : Option (List Char) :=
  if '.' ∈ s then none else some (if buf.isEmpty then s else buf ++ '.' :: s)

/-- `IdBuilder::pop`. -/
def idPop (buf : List Char) : Option (List Char) :=
  if buf.isEmpty then none else some (joinDot (splitDot buf).dropLast)

/-! ## what a source answers -/

inductive Entry
  | file (id : Id) (ext : Name)
  | dir (id : Id)
  deriving DecidableEq, Repr

def Entry.id : Entry → Id
  | .file id _ => id
  | .dir id => id

inductive Err | notFound | isDir | notDir | other
  deriving DecidableEq, Repr

inductive Res (α : Type)
  | ok (a : α)
  | err (e : Err)
  deriving DecidableEq, Repr

def Res.isOk {α} : Res α → Bool
  | .ok _ => true
  | .err _ => false

structure View where
  read : Id → Name → Res Bytes
  readDir : Id → Res (List Entry)
  exist : Entry → Bool

/-! ## the tree and its specification view -/

structure FileN where
  dir : List Name
  stem : Name
  ext : Name
  bytes : Bytes
  deriving DecidableEq, Repr

/-- `dirs` lists every directory except the root, by its path. -/
structure Tree where
  files : List FileN
  dirs : List (List Name)
  deriving DecidableEq, Repr

def fileId (f : FileN) : Id := joinDot (f.dir ++ [f.stem])
def dirId (q : List Name) : Id := joinDot q
/-- The name of the file on disk / in an archive. -/
def fileName (f : FileN) : Name := if f.ext.isEmpty then f.stem else f.stem ++ '.' :: f.ext
def filePath (f : FileN) : List Name := f.dir ++ [fileName f]

/-- One registration: the entry `id` (file with extension and content, or directory) is a child
of the directory `parent`. -/
structure Reg where
  parent : Id
  id : Id
  file : Option (Name × Bytes)
  deriving DecidableEq, Repr

def Reg.entry (r : Reg) : Entry :=
  match r.file with
  | some (e, _) => .file r.id e
  | none => .dir r.id

def fileReg (f : FileN) : Reg := { parent := dirId f.dir, id := fileId f, file := some (f.ext, f.bytes) }
def dirReg (q : List Name) : Reg := { parent := dirId q.dropLast, id := dirId q, file := none }
def regsOfTree (t : Tree) : List Reg := t.files.map fileReg ++ t.dirs.map dirReg

def childEntry (p : Id) (r : Reg) : Option Entry := if r.parent = p then some r.entry else none

def isDirId (t : Tree) (p : Id) : Bool := decide (p = []) || decide (p ∈ t.dirs.map dirId)

/-- The specification: the tree seen through dotted ids. -/
def sem (t : Tree) : View where
  read id ext :=
    match t.files.find? (fun f => decide (fileId f = id ∧ f.ext = ext)) with
    | some f => .ok f.bytes
    | none => .err .notFound
  readDir p := if isDirId t p then .ok ((regsOfTree t).filterMap (childEntry p)) else .err .notFound
  exist
    | .file id ext => t.files.any (fun f => decide (fileId f = id ∧ f.ext = ext))
    | .dir p => isDirId t p

def ValidName (n : Name) : Prop := n ≠ [] ∧ '.' ∉ n
def ValidExt (e : Name) : Prop := '.' ∉ e

/-- Valid names, no two files with the same (id, extension), no two directories with the same id,
every directory of an entry is itself listed, and the tree can exist on a file system (an
extension-less file and a directory cannot share a name). -/
def ValidTree (t : Tree) : Prop :=
  (∀ f ∈ t.files, (∀ c ∈ f.dir, ValidName c) ∧ ValidName f.stem ∧ ValidExt f.ext ∧ (f.dir = [] ∨ f.dir ∈ t.dirs)) ∧
  (∀ q ∈ t.dirs, q ≠ [] ∧ (∀ c ∈ q, ValidName c) ∧ (q.dropLast = [] ∨ q.dropLast ∈ t.dirs)) ∧
  (t.files.map fun f => (fileId f, f.ext)).Nodup ∧
  (t.dirs.map dirId).Nodup ∧
  (∀ f ∈ t.files, f.ext = [] → f.dir ++ [f.stem] ∉ t.dirs)

instance (n : Name) : Decidable (ValidName n) := by unfold ValidName; infer_instance
instance (n : Name) : Decidable (ValidExt n) := by unfold ValidExt; infer_instance
instance (t : Tree) : Decidable (ValidTree t) := by unfold ValidTree; infer_instance

def Tree.isEmpty (t : Tree) : Bool := t.files.isEmpty && t.dirs.isEmpty

/-! ## archives: `register_file` as an interpreter of its effect skeleton -/

/-- An archive member after container decoding: its path as `Path::components` yields it
(`.` and `..` are components, no empty ones), whether the path is absolute, its kind, its bytes. -/
structure Member where
  abs : Bool
  comps : List Name
  isFile : Bool
  bytes : Bytes
  deriving DecidableEq, Repr

/-- A raw member path to components (`/`-separated; a trailing `/` is dropped). -/
def splitSlash : List Char → List (List Char)
  | [] => [[]]
  | c :: cs =>
    if c = '/' then [] :: splitSlash cs
    else match splitSlash cs with
      | [] => [[c]]
      | w :: ws => (c :: w) :: ws

def Member.ofPath (raw : List Char) (isFile : Bool) (bytes : Bytes) : Member :=
  { abs := raw.head? = some '/', comps := (splitSlash raw).filter (· ≠ []), isFile, bytes }

inductive CompKind | normal | parentDir | curDir
  deriving DecidableEq

def classify (c : Name) : CompKind :=
  if c = ['.', '.'] then .parentDir else if c = ['.'] then .curDir else .normal

/-- `Path::components` drops every `.` except a leading one, and the walk skips that one
(`CurDir => continue`): together, `.` components vanish. (The `CurDir` arm itself is pinned by
the skeleton equality in `Props/C04.lean`.) -/
def normComps (cs : List Name) : List Name := cs.filter (· ≠ ['.'])

def actOn (a : CompAct) (buf : List Char) (c : Name) : Option (List Char) :=
  match a with
  | .push => idPush buf c
  | .pop => idPop buf
  | .skip => some buf
  | .fail => none

/-- The `for comp in parent.components()` loop with the extracted per-kind actions. -/
def walk (n p c : CompAct) : List Name → List Char → Option (List Char)
  | [], buf => some buf
  | x :: xs, buf =>
    match (match classify x with
      | .normal => actOn n buf x
      | .parentDir => actOn p buf x
      | .curDir => actOn c buf x) with
    | none => none
    | some b => walk n p c xs b

def upd {κ β} [DecidableEq κ] (f : κ → β) (k : κ) (v : β) : κ → β := fun x => if x = k then v else f x

/-- The `files` and `dirs` maps of `Zip` / `Tar` / `Embedded` as the views read them (a `HashMap`
is a partial function, a `Vec` a list). -/
structure Idx where
  files : Id × Name → Option Bytes
  dirs : Id → Option (List Entry)

def Idx.empty : Idx := ⟨fun _ => none, fun _ => none⟩

/-- The `dirs` map while an archive is being indexed: an association list, the most recent
binding of a key first (`insert` = cons, `get` = first match). -/
abbrev DirMap := List (Id × List Entry)

def dget : DirMap → Id → Option (List Entry)
  | [], _ => none
  | (k, v) :: d, p => if p = k then some v else dget d p

def dset (d : DirMap) (k : Id) (v : List Entry) : DirMap := (k, v) :: d

/-- The maps while an archive is being indexed. -/
structure AIdx where
  files : Id × Name → Option Bytes
  dirs : DirMap

def AIdx.empty : AIdx := ⟨fun _ => none, []⟩
def AIdx.toIdx (i : AIdx) : Idx := ⟨i.files, dget i.dirs⟩

/-- `DirEntry::parent_id`: none for the root, else everything before the last `.` (the same
computation as `IdBuilder::pop`). -/
def parentId (id : Id) : Option Id := idPop id

/-- `dirs.entry(p).or_default().push(e)` -/
def pushInto (d : DirMap) (p : Id) (e : Entry) : DirMap := dset d p ((dget d p).getD [] ++ [e])

/-- The statements of `register_dir(dirs, id)`; `par` is the bound `parent_id` (none outside the
`if let`), `recur` the recursive call. The `Bool` is false after an early `return` (or when a
token refers to `parent_id` out of scope — not producible by the extractor). -/
def runDirToks (recur : DirMap → Id → DirMap) (id : Id) (par : Option Id) : List DirTok → DirMap → DirMap × Bool
  | [], d => (d, true)
  | .returnIfPresent :: ts, d => if (dget d id).isSome then (d, false) else runDirToks recur id par ts d
  | .insertEmpty :: ts, d => runDirToks recur id par ts (dset d id [])
  | .recurseParent :: ts, d =>
    match par with
    | some p => runDirToks recur id par ts (recur d p)
    | none => (d, false)
  | .pushDirIntoParent :: ts, d =>
    match par with
    | some p => runDirToks recur id par ts (pushInto d p (.dir id))
    | none => (d, false)

/-- `register_dir`, fuelled (every call is on a strictly shorter id). -/
def registerDirF (dsk : DirSkel) : Nat → DirMap → Id → DirMap
  | 0, d, _ => d
  | n + 1, d, id =>
    let r := runDirToks (registerDirF dsk n) id none dsk.pre d
    if !r.2 then r.1 else
    match parentId id with
    | none => r.1
    | some p => (runDirToks (registerDirF dsk n) id (some p) dsk.withParent r.1).1

def registerDir (dsk : DirSkel) (d : DirMap) (id : Id) : DirMap := registerDirF dsk (id.length + 1) d id

structure RegSt where
  buf : List Char
  parentId : Id
  id : Id
  ext : Name
  desc : Option (Id × Name)
  entry : Option Entry
  idx : AIdx

/-- The final component, if it is a real name (`file_stem()?` / `extension_of`). -/
def lastNameOf (cs : List Name) : Option Name :=
  match cs.getLast? with
  | none => none
  | some l => if classify l = .normal then some l else none

def lastName (m : Member) : Option Name := lastNameOf (normComps m.comps)

/-- One token; `none` is the closure's early `return None` (`?`). -/
def tokStep (dsk : DirSkel) (m : Member) (st : RegSt) : Tok → Option RegSt
  | .reset => some { st with buf := [] }
  | .walkParent n p c o =>
    if (normComps m.comps).isEmpty then none else
    match (if m.abs then actOn o st.buf [] else some st.buf) with
    | none => none
    | some b => (walk n p c (normComps m.comps).dropLast b).map fun b' => { st with buf := b' }
  | .joinParent => some { st with parentId := st.buf }
  | .pushStem =>
    match lastName m with
    | none => none
    | some l => (idPush st.buf (splitExt l).1).map fun b => { st with buf := b }
  | .joinId => some { st with id := st.buf }
  | .extOf =>
    match lastName m with
    | none => none
    | some l => some { st with ext := extensionOf l }
  | .descIdExt => some { st with desc := some (st.id, st.ext) }
  | .filesInsertDesc =>
    match st.desc with
    | none => none
    | some d => some { st with idx := { st.idx with files := upd st.idx.files d (some m.bytes) } }
  | .entryFileDesc =>
    match st.desc with
    | none => none
    | some d => some { st with entry := some (.file d.1 d.2) }
  | .dirsInsertEmptyIfAbsent =>
    some (if (dget st.idx.dirs st.id).isSome then st
          else { st with idx := { st.idx with dirs := dset st.idx.dirs st.id [] } })
  | .dirsInsertEmpty => some { st with idx := { st.idx with dirs := dset st.idx.dirs st.id [] } }
  | .entryDirId => some { st with entry := some (.dir st.id) }
  | .dirsPushParentEntry =>
    match st.entry with
    | none => none
    | some e => some { st with idx := { st.idx with dirs := pushInto st.idx.dirs st.parentId e } }
  | .registerDirParent => some { st with idx := { st.idx with dirs := registerDir dsk st.idx.dirs st.parentId } }
  | .registerDirId => some { st with idx := { st.idx with dirs := registerDir dsk st.idx.dirs st.id } }
  | .dirsPushParentFileDesc =>
    match st.desc with
    | none => none
    | some d => some { st with idx := { st.idx with dirs := pushInto st.idx.dirs st.parentId (.file d.1 d.2) } }

def runToks (dsk : DirSkel) (m : Member) : List Tok → RegSt → RegSt × Bool
  | [], st => (st, true)
  | t :: ts, st =>
    match tokStep dsk m st t with
    | none => (st, false)
    | some st' => runToks dsk m ts st'

/-- `register_file` for one member (effects made before an early return persist). -/
def register (sk : Skel) (dsk : DirSkel) (m : Member) (idx : AIdx) : AIdx :=
  let st0 : RegSt := { buf := [], parentId := [], id := [], ext := [], desc := none, entry := none, idx }
  let r1 := runToks dsk m sk.pre st0
  if !r1.2 then r1.1.idx else
  let r2 := runToks dsk m (if m.isFile then sk.fileBranch else sk.dirBranch) r1.1
  if !r2.2 then r2.1.idx else
  (runToks dsk m sk.post r2.1).1.idx

/-- The skeletons the theorems are about (equal to the extracted ones, `Props/C04.lean`). -/
def registerSkel : Skel where
  pre := [.reset, .walkParent .push .pop .skip .fail, .joinParent, .pushStem, .joinId]
  fileBranch := [.extOf, .descIdExt, .filesInsertDesc, .registerDirParent, .dirsPushParentFileDesc]
  dirBranch := [.registerDirId]
  post := []

def registerDirSkel : DirSkel where
  pre := [.returnIfPresent, .insertEmpty]
  withParent := [.recurseParent, .pushDirIntoParent]

/-- The maps before the first member: `create` registers the root directory (`rootFirst`, extracted). -/
def AIdx.init (dsk : DirSkel) (rootFirst : Bool) : AIdx :=
  if rootFirst then { AIdx.empty with dirs := registerDir dsk [] [] } else AIdx.empty

/-- `Zip::create` / `Tar::create`: members are registered in archive order. -/
def indexWith (sk : Skel) (dsk : DirSkel) (rootFirst : Bool) (ms : List Member) : Idx :=
  (ms.foldl (fun i m => register sk dsk m i) (AIdx.init dsk rootFirst)).toIdx
def index (ms : List Member) : Idx := indexWith registerSkel registerDirSkel true ms

/-- `read` / `read_dir` / `exists` of `Zip`, `Tar` and `Embedded` over their maps. -/
def viewOfIdx (i : Idx) : View where
  read id ext := match i.files (id, ext) with
    | some b => .ok b
    | none => .err .notFound
  readDir p := match i.dirs p with
    | some es => .ok es
    | none => .err .notFound
  exist
    | .file id ext => (i.files (id, ext)).isSome
    | .dir p => (i.dirs p).isSome

/-! ### the same, written directly (used by the proofs; `register_eq` connects them) -/

/-- Path (normalised components) to ids: the part of `register_file` before the maps are touched. -/
def parseCore (cs : List Name) (isFile : Bool) (bytes : Bytes) : Option Reg :=
  if cs.isEmpty then none else
  match walk .push .pop .skip cs.dropLast [] with
  | none => none
  | some pbuf =>
    match lastNameOf cs with
    | none => none
    | some l =>
      match idPush pbuf (splitExt l).1 with
      | none => none
      | some ibuf => some { parent := pbuf, id := ibuf, file := if isFile then some (extensionOf l, bytes) else none }

def parseMember (m : Member) : Option Reg :=
  if m.abs then none else parseCore (normComps m.comps) m.isFile m.bytes

/-- `register_dir` with the skeleton of the theorems. -/
def regDir (d : DirMap) (id : Id) : DirMap := registerDir registerDirSkel d id

def applyReg (r : Reg) (i : AIdx) : AIdx :=
  match r.file with
  | some (e, b) =>
    { files := upd i.files (r.id, e) (some b), dirs := pushInto (regDir i.dirs r.parent) r.parent (.file r.id e) }
  | none => { i with dirs := regDir i.dirs r.id }

/-- The maps of an archive before its first member. -/
def idx0 : AIdx := AIdx.init registerDirSkel true

/-- Most recent registration first. -/
def indexR : List Reg → AIdx
  | [] => idx0
  | r :: rs => applyReg r (indexR rs)

/-- The optional `./` prefix stripped. -/
def Member.norm (m : Member) : List Name := normComps m.comps

/-- `ms` is an archive of `t`: every file exactly once with its bytes, every directory at most
once (possibly never), nothing else, any order, each path optionally prefixed by `./` — and the
archive does contain the tree: a directory without a member of its own is on the path of a
member (a file in it or below it, or the member of a directory below it). -/
def Archives (t : Tree) (ms : List Member) : Prop :=
  (∀ m ∈ ms, m.abs = false) ∧
  ((ms.filter (·.isFile)).map fun m => (m.norm, m.bytes)).Perm (t.files.map fun f => (filePath f, f.bytes)) ∧
  ((ms.filter (!·.isFile)).map Member.norm).Nodup ∧
  (∀ m ∈ ms, m.isFile = false → m.norm ∈ t.dirs) ∧
  (∀ q ∈ t.dirs, (∃ f ∈ t.files, q.isPrefixOf f.dir = true) ∨ (∃ m ∈ ms, m.isFile = false ∧ q.isPrefixOf m.norm = true))

instance (t : Tree) (ms : List Member) : Decidable (Archives t ms) := by unfold Archives; infer_instance

/-! ## FileSystem -/

inductive Node | file (b : Bytes) | dir
  deriving DecidableEq, Repr

/-- What a path (real file names below the root) names on the materialised tree. -/
def fsNode (t : Tree) (path : List Name) : Option Node :=
  if path = [] ∨ path ∈ t.dirs then some .dir else
  match t.files.find? (fun f => decide (filePath f = path)) with
  | some f => some (.file f.bytes)
  | none => none

inductive Lookup | found (n : Node) | absent | notDir
  deriving DecidableEq, Repr

def isFileNode : Option Node → Bool
  | some (.file _) => true
  | _ => false

/-- Path resolution: going *through* a file is `ENOTDIR`. -/
def fsResolve (t : Tree) (path : List Name) : Lookup :=
  if (List.range path.length).any (fun k => isFileNode (fsNode t (path.take k))) then .notDir else
  match fsNode t path with
  | some n => .found n
  | none => .absent

/-- `PathBuf::set_extension` on one file name. -/
def setExtension (name ext : Name) : Name :=
  let stem := (splitExt name).1
  if ext.isEmpty then stem else stem ++ '.' :: ext

/-- `path_of_entry`, relative to the root; `none`: the path is not below the root (an id without
any non-empty component with a non-empty extension renames the root itself — not modelled). -/
def pathOfEntry (id : Id) (ext : Option Name) : Option (List Name) :=
  let cs := (splitDot id).filter (· ≠ [])
  match ext with
  | none => some cs
  | some e =>
    match cs.getLast? with
    | none => if e.isEmpty then some [] else none
    | some l => some (cs.dropLast ++ [setExtension l e])

def childId (id : Id) (stem : Name) : Id := if id.isEmpty then stem else id ++ '.' :: stem

/-- `FileSystem::read_dir`: child ids from `file_stem` / `extension_of` of the real names. -/
def fsChildren (t : Tree) (path : List Name) (id : Id) : List Entry :=
  (t.files.filterMap fun f =>
    if f.dir = path then some (.file (childId id (splitExt (fileName f)).1) (extensionOf (fileName f))) else none) ++
  (t.dirs.filterMap fun q =>
    match q.getLast? with
    | none => none
    | some l => if q.dropLast = path then some (.dir (childId id (splitExt l).1)) else none)

def lookupErr : Lookup → Err
  | .notDir => .notDir
  | _ => .notFound

/-- Which kind tests `FileSystem` makes (extracted from src/source/filesystem.rs by `amx`):
`exists` answers `is_file()` / `is_dir()` according to the kind of the entry (else `Path::exists`);
`read` / `read_dir` report `NotFound` when the path is not a file / not a directory (else the
error of the OS: `EISDIR`, `ENOTDIR`). -/
structure FsCfg where
  existsKind : Bool
  readNonFileNotFound : Bool
  readDirNonDirNotFound : Bool
  deriving DecidableEq, Repr

def fsViewWith (c : FsCfg) (t : Tree) : View where
  read id ext :=
    match pathOfEntry id (some ext) with
    | none => .err .notFound
    | some p =>
      match fsResolve t p with
      | .found (.file b) => .ok b
      | .found .dir => .err (if c.readNonFileNotFound then .notFound else .isDir)
      | l => .err (if c.readNonFileNotFound then .notFound else lookupErr l)
  readDir id :=
    match pathOfEntry id none with
    | none => .err .notFound
    | some p =>
      match fsResolve t p with
      | .found .dir => .ok (fsChildren t p id)
      | .found (.file _) => .err (if c.readDirNonDirNotFound then .notFound else .notDir)
      | l => .err (if c.readDirNonDirNotFound then .notFound else lookupErr l)
  exist e :=
    match e with
    | .file id ext =>
      match pathOfEntry id (some ext) with
      | none => false
      | some p => match fsResolve t p with
        | .found (.file _) => true
        | .found .dir => !c.existsKind
        | _ => false
    | .dir id =>
      match pathOfEntry id none with
      | none => false
      | some p => match fsResolve t p with
        | .found .dir => true
        -- `Path::exists`: a (malformed) id ending in `.` gives a path ending in `/`, which only names directories
        | .found (.file _) => !c.existsKind && !((splitDot id).getLast? == some [] && !p.isEmpty)
        | _ => false

/-- The kind tests the theorems are about (equal to the extracted ones, `Props/C04.lean`). -/
def fsCfg : FsCfg := ⟨true, true, true⟩

def fsView (t : Tree) : View := fsViewWith fsCfg t

/-! ## Embedded -/

structure RawTables where
  files : List ((Id × Name) × Bytes)
  dirs : List (Id × List Entry)

/-- `iter().copied().collect()` into a `HashMap`: later pairs overwrite earlier ones. -/
def collectMap {κ β} [DecidableEq κ] (l : List (κ × β)) : κ → Option β :=
  l.foldl (fun m kv => upd m kv.1 (some kv.2)) (fun _ => none)

def embeddedFrom (raw : RawTables) : Idx := { files := collectMap raw.files, dirs := collectMap raw.dirs }

/-- The tables `embed!` generates for a tree (the macro also sorts them; the order of the tables
does not matter to `Embedded::from`, the order inside a listing is compared up to permutation). -/
def embedTables (t : Tree) : RawTables where
  files := t.files.map fun f => ((fileId f, f.ext), f.bytes)
  dirs := ([] :: t.dirs).map fun q => (dirId q, (regsOfTree t).filterMap (childEntry (dirId q)))

/-! ## Directory assets (C11) -/

def selectIds (v : View) (exts : List Name) (d : Id) : Res (List Id) :=
  match v.readDir d with
  | .err e => .err e
  | .ok es => .ok (es.filterMap fun
    | .file id ext => if ext ∈ exts then some id else none
    | .dir _ => none)

/-- Rust's `str` ordering (bytewise on UTF-8 = by code point). -/
def strLt : List Char → List Char → Bool
  | [], [] => false
  | [], _ :: _ => true
  | _ :: _, [] => false
  | a :: as, b :: bs => if a.toNat < b.toNat then true else if b.toNat < a.toNat then false else strLt as bs

/-- Insert into a strictly sorted list, dropping a duplicate. -/
def insertSorted (x : Id) : List Id → List Id
  | [] => [x]
  | y :: ys => if strLt x y then x :: y :: ys else if strLt y x then y :: insertSorted x ys else y :: ys

/-- `sort_unstable(); dedup()`. -/
def sortDedup (l : List Id) : List Id := l.foldr insertSorted []

/-- `Directory::<T>::load`. -/
def dirLoad (v : View) (exts : List Name) (d : Id) : Res (List Id) :=
  match selectIds v exts d with
  | .err e => .err e
  | .ok ids => .ok (sortDedup ids)

/-- `DirLoadable::sub_directories`. -/
def subDirs (v : View) (d : Id) : Res (List Id) :=
  match v.readDir d with
  | .err e => .err e
  | .ok es => .ok (es.filterMap fun
    | .dir id => some id
    | .file _ _ => none)

def okIds : Option (Res (List Id)) → Option (List Id)
  | some (.ok ids) => some ids
  | _ => none

/-- `RecursiveDirectory::<T>::load`, fuelled (one unit per directory level); `none` = out of fuel. -/
def recLoad : Nat → View → List Name → Id → Option (Res (List Id))
  | 0, _, _, _ => none
  | n + 1, v, exts, d =>
    match dirLoad v exts d with
    | .err e => some (.err e)
    | .ok own =>
      match subDirs v d with
      | .err e => some (.err e)
      | .ok subs =>
        let rs := subs.map fun c => recLoad n v exts c
        if rs.any (·.isNone) then none
        else some (.ok (own ++ (rs.filterMap okIds).flatten))

/-- Loading one asset of a type with extensions `exts`: the first extension that can be read. -/
def loadAsset (v : View) (exts : List Name) (id : Id) : Option (Name × Bytes) :=
  exts.findSome? fun e => match v.read id e with
    | .ok b => some (e, b)
    | .err _ => none

def iter {α} (ids : List Id) (load : Id → α) : List α := ids.map load
def iterCached {α} (ids : List Id) (getCached : Id → Option α) : List α := ids.filterMap getCached

/-- A source whose `read_dir` fails for the listed ids (unreadable directories). -/
def denyDirs (v : View) (denied : List Id) : View :=
  { v with readDir := fun d => if d ∈ denied then .err .other else v.readDir d }

end AmVerif.Model.Source
