import AmVerif.Lemmas.Source
/-! Helper lemmas for C04: `register_dir` (a directory and all its ancestors, each listed once in
its parent) and the invariant of the archive index it maintains. -/
namespace AmVerif.Lemmas.Archive
open AmVerif.Model.Source AmVerif.Model.ArchiveSkel AmVerif.Lemmas.Source

/-! ## parent ids -/

/-- Everything before the last `.` (the empty id for an id without `.`). -/
def par (id : Id) : Id := joinDot (splitDot id).dropLast

theorem parentId_eq (id : Id) : parentId id = if id = [] then none else some (par id) := by
  unfold parentId idPop par
  cases id <;> simp

theorem joinDot_cons_cons (w w2 : List Char) (ws : List (List Char)) :
    joinDot (w :: w2 :: ws) = w ++ '.' :: joinDot (w2 :: ws) := rfl

theorem len_joinDot_dropLast (ws : List (List Char)) (h1 : ws ≠ []) (h2 : ws ≠ [[]]) :
    (joinDot ws.dropLast).length < (joinDot ws).length := by
  induction ws with
  | nil => exact absurd rfl h1
  | cons w ws ih =>
    cases ws with
    | nil =>
      have : w ≠ [] := fun e => h2 (by simp [e])
      simp only [List.dropLast_singleton, joinDot, List.length_nil]
      exact List.length_pos_iff.mpr this
    | cons w2 rest =>
      cases rest with
      | nil => simp [List.dropLast, joinDot]
      | cons w3 rest' =>
        have ih' := ih (by simp) (by simp)
        have hd : (w :: w2 :: w3 :: rest').dropLast = w :: (w2 :: w3 :: rest').dropLast := rfl
        rw [hd]
        cases hx : (w2 :: w3 :: rest').dropLast with
        | nil => simp [List.dropLast] at hx
        | cons x xs =>
          rw [hx] at ih'
          rw [joinDot_cons_cons, joinDot_cons_cons]
          simp only [List.length_append, List.length_cons]
          omega

theorem splitDot_eq_singleton_nil (s : List Char) (h : splitDot s = [[]]) : s = [] := by
  cases s with
  | nil => rfl
  | cons c cs =>
    simp only [splitDot] at h
    split at h
    · have := splitDot_ne_nil cs
      simp at h; exact absurd h this
    · split at h <;> simp at h

theorem joinDot_splitDot (s : List Char) : joinDot (splitDot s) = s := by
  induction s with
  | nil => rfl
  | cons c cs ih =>
    simp only [splitDot]
    split
    · rename_i hc
      cases hs : splitDot cs with
      | nil => exact absurd hs (splitDot_ne_nil cs)
      | cons w ws => rw [hs] at ih; simp [joinDot, ih, hc]
    · cases hs : splitDot cs with
      | nil => exact absurd hs (splitDot_ne_nil cs)
      | cons w ws =>
        rw [hs] at ih
        cases ws with
        | nil => simp [joinDot] at ih ⊢; exact ih
        | cons w2 ws2 => simp only [joinDot] at ih ⊢; rw [← ih]; rfl

theorem par_length (id : Id) (h : id ≠ []) : (par id).length < id.length := by
  have := len_joinDot_dropLast (splitDot id) (splitDot_ne_nil id) (fun e => h (splitDot_eq_singleton_nil id e))
  rwa [joinDot_splitDot] at this

/-- The parent id of a directory of valid names is the id of its parent directory. -/
theorem par_dirId (q : List Name) (hne : q ≠ []) (hv : ∀ c ∈ q, ValidName c) : par (dirId q) = dirId q.dropLast := by
  unfold par dirId
  rw [split_join q hne (fun w hw => (hv w hw).2)]

theorem dirId_ne_nil (q : List Name) (hne : q ≠ []) (hv : ∀ c ∈ q, ValidName c) : dirId q ≠ [] :=
  joinDot_ne_nil q hne (fun c hc => (hv c hc).1)

theorem isDirId_iff (t : Tree) (p : Id) : isDirId t p = true ↔ p = [] ∨ ∃ q ∈ t.dirs, dirId q = p := by
  simp [isDirId, List.mem_map]

/-- The parent of a directory of a valid tree is a directory of the tree. -/
theorem isDirId_par (t : Tree) (hv : ValidTree t) (p : Id) (h : isDirId t p = true) (hne : p ≠ []) :
    isDirId t (par p) = true := by
  rcases (isDirId_iff t p).mp h with h | ⟨q, hq, rfl⟩
  · exact absurd h hne
  · have hq' := hv.2.1 q hq
    rw [par_dirId q hq'.1 hq'.2.1, isDirId_iff]
    rcases hq'.2.2 with h | h
    · left; rw [h]; rfl
    · right; exact ⟨_, h, rfl⟩

/-! ## the `dirs` association list -/

/-- The listing of `p` (empty if `p` is not registered). -/
def lst (d : DirMap) (p : Id) : List Entry := (dget d p).getD []
/-- `p` is registered. -/
def has (d : DirMap) (p : Id) : Prop := (dget d p).isSome = true

instance (d : DirMap) (p : Id) : Decidable (has d p) := by unfold has; infer_instance

theorem dget_dset (d : DirMap) (k : Id) (v : List Entry) (p : Id) :
    dget (dset d k v) p = if p = k then some v else dget d p := rfl

theorem has_dset (d : DirMap) (k : Id) (v : List Entry) (p : Id) : has (dset d k v) p ↔ p = k ∨ has d p := by
  unfold has; rw [dget_dset]; by_cases h : p = k <;> simp [h]

theorem lst_dset (d : DirMap) (k : Id) (v : List Entry) (p : Id) :
    lst (dset d k v) p = if p = k then v else lst d p := by
  unfold lst; rw [dget_dset]; by_cases h : p = k <;> simp [h]

theorem lst_of_not_has (d : DirMap) (p : Id) (h : ¬ has d p) : lst d p = [] := by
  unfold has at h; unfold lst
  cases hd : dget d p with
  | none => rfl
  | some v => simp [hd] at h

theorem has_of_mem_lst (d : DirMap) (p : Id) (e : Entry) (h : e ∈ lst d p) : has d p := by
  unfold lst at h; unfold has
  cases hd : dget d p with
  | none => simp [hd] at h
  | some v => rfl

theorem has_pushInto (d : DirMap) (k : Id) (e : Entry) (p : Id) : has (pushInto d k e) p ↔ p = k ∨ has d p :=
  has_dset _ _ _ _

theorem lst_pushInto (d : DirMap) (k : Id) (e : Entry) (p : Id) :
    lst (pushInto d k e) p = if p = k then lst d k ++ [e] else lst d p := by
  unfold pushInto; rw [lst_dset]; rfl

/-! ## `register_dir` in direct form -/

def regDirF : Nat → DirMap → Id → DirMap
  | 0, d, _ => d
  | n + 1, d, id =>
    if (dget d id).isSome then d else
    if id = [] then dset d id [] else
    pushInto (regDirF n (dset d id []) (par id)) (par id) (.dir id)

theorem registerDirF_eq (n : Nat) (d : DirMap) (id : Id) :
    registerDirF registerDirSkel n d id = regDirF n d id := by
  induction n generalizing d id with
  | zero => rfl
  | succ n ih =>
    simp only [registerDirF, registerDirSkel, runDirToks, regDirF, parentId_eq]
    by_cases h : (dget d id).isSome
    · simp [h]
    · by_cases hid : id = []
      · subst hid; simp [h]
      · have := ih (dset d id []) (par id)
        unfold registerDirSkel at this
        simp [h, hid, this]

theorem regDir_eq (d : DirMap) (id : Id) : regDir d id = regDirF (id.length + 1) d id := by
  unfold regDir registerDir; exact registerDirF_eq _ _ _

/-- What one `register_dir(dirs, id)` does to the map, for a directory `id` of the tree:
`id` is registered afterwards; nothing is forgotten; only directories of the tree get registered;
listings only grow, and only by `Directory(y)` entries for newly registered `y`, pushed into the
listing of `y`'s parent; every newly registered directory other than the root is listed in its
(registered) parent; listings stay duplicate-free. -/
structure RegDirSpec (t : Tree) (d d' : DirMap) (id : Id) : Prop where
  target : has d' id
  mono : ∀ p, has d p → has d' p
  sound : ∀ p, has d' p → has d p ∨ isDirId t p = true
  keep : ∀ P e, e ∈ lst d P → e ∈ lst d' P
  fresh : ∀ P e, e ∈ lst d' P → e ∈ lst d P ∨ ∃ y, e = .dir y ∧ ¬ has d y ∧ has d' y ∧ y ≠ [] ∧ par y = P
  up : ∀ p, ¬ has d p → has d' p → p ≠ [] → has d' (par p) ∧ Entry.dir p ∈ lst d' (par p)
  nodup : (∀ P, (lst d P).Nodup) → (∀ P q, Entry.dir q ∈ lst d P → has d q) → ∀ P, (lst d' P).Nodup

theorem regDirF_spec (t : Tree) (hv : ValidTree t) : ∀ (n : Nat) (d : DirMap) (id : Id),
    id.length < n → isDirId t id = true → RegDirSpec t d (regDirF n d id) id := by
  intro n
  induction n with
  | zero => intro d id h; exact absurd h (Nat.not_lt_zero _)
  | succ n ih =>
    intro d id hlen hdir
    unfold regDirF
    by_cases hhas : (dget d id).isSome = true
    · -- already registered: nothing happens
      rw [if_pos hhas]
      exact ⟨hhas, fun _ h => h, fun _ h => Or.inl h, fun _ _ h => h, fun _ _ h => Or.inl h,
        fun p h1 h2 => absurd h2 h1, fun h _ => h⟩
    · rw [if_neg hhas]
      have hnot : ¬ has d id := hhas
      have hlst1 : ∀ P, lst (dset d id []) P = lst d P := by
        intro P
        rw [lst_dset]
        by_cases hP : P = id
        · rw [if_pos hP, hP, lst_of_not_has d id hnot]
        · rw [if_neg hP]
      by_cases hid : id = []
      · -- the root: registered with an empty listing
        rw [if_pos hid]
        refine ⟨(has_dset _ _ _ _).mpr (Or.inl rfl), fun p h => (has_dset _ _ _ _).mpr (Or.inr h), ?_, ?_, ?_, ?_, ?_⟩
        · intro p h
          rcases (has_dset _ _ _ _).mp h with h | h
          · right; rw [h]; exact hdir
          · left; exact h
        · intro P e h; rw [hlst1]; exact h
        · intro P e h; rw [hlst1] at h; exact Or.inl h
        · intro p h1 h2 h3
          rcases (has_dset _ _ _ _).mp h2 with h | h
          · exact absurd (h.trans hid) h3
          · exact absurd h h1
        · intro h _ P; rw [hlst1]; exact h P
      · rw [if_neg hid]
        have hplen : (par id).length < n := by
          have := par_length id hid
          omega
        have IH := ih (dset d id []) (par id) hplen (isDirId_par t hv id hdir hid)
        generalize hd2 : regDirF n (dset d id []) (par id) = d2 at IH
        have hhas1 : ∀ p, has (dset d id []) p ↔ p = id ∨ has d p := fun p => has_dset _ _ _ _
        have hhas' : ∀ p, has (pushInto d2 (par id) (.dir id)) p ↔ has d2 p := by
          intro p
          rw [has_pushInto]
          constructor
          · rintro (h | h)
            · rw [h]; exact IH.target
            · exact h
          · exact Or.inr
        have hmem' : ∀ P e, e ∈ lst (pushInto d2 (par id) (.dir id)) P ↔
            e ∈ lst d2 P ∨ (P = par id ∧ e = .dir id) := by
          intro P e
          rw [lst_pushInto]
          by_cases hP : P = par id
          · rw [if_pos hP, hP]; simp
          · rw [if_neg hP]; simp [hP]
        have hid2 : has d2 id := IH.mono id ((hhas1 id).mpr (Or.inl rfl))
        refine ⟨(hhas' id).mpr hid2, ?_, ?_, ?_, ?_, ?_, ?_⟩
        · intro p h; exact (hhas' p).mpr (IH.mono p ((hhas1 p).mpr (Or.inr h)))
        · intro p h
          rcases IH.sound p ((hhas' p).mp h) with h1 | h1
          · rcases (hhas1 p).mp h1 with h2 | h2
            · right; rw [h2]; exact hdir
            · left; exact h2
          · right; exact h1
        · intro P e h
          exact (hmem' P e).mpr (Or.inl (IH.keep P e (by rw [hlst1]; exact h)))
        · intro P e h
          rcases (hmem' P e).mp h with h | ⟨hP, he⟩
          · rcases IH.fresh P e h with h1 | ⟨y, hy1, hy2, hy3, hy4, hy5⟩
            · left; rw [hlst1] at h1; exact h1
            · right
              exact ⟨y, hy1, fun hh => hy2 ((hhas1 y).mpr (Or.inr hh)), (hhas' y).mpr hy3, hy4, hy5⟩
          · right
            exact ⟨id, he, hnot, (hhas' id).mpr hid2, hid, hP.symm⟩
        · intro p h1 h2 h3
          have h2' := (hhas' p).mp h2
          by_cases hp : p = id
          · rw [hp]
            exact ⟨(hhas' _).mpr IH.target, (hmem' _ _).mpr (Or.inr ⟨rfl, rfl⟩)⟩
          · have hn1 : ¬ has (dset d id []) p := by
              intro hh
              rcases (hhas1 p).mp hh with hh | hh
              · exact hp hh
              · exact h1 hh
            obtain ⟨ha, hb⟩ := IH.up p hn1 h2' h3
            exact ⟨(hhas' _).mpr ha, (hmem' _ _).mpr (Or.inl hb)⟩
        · intro hnd hok P
          have hnd2 := IH.nodup (fun P => by rw [hlst1]; exact hnd P)
            (fun P q h => (hhas1 q).mpr (Or.inr (hok P q (by rw [hlst1] at h; exact h))))
          rw [lst_pushInto]
          by_cases hP : P = par id
          · rw [if_pos hP]
            apply List.nodup_append.mpr
            refine ⟨hnd2 _, by simp, ?_⟩
            intro a ha b hb
            simp at hb
            subst hb
            intro hab
            subst hab
            rcases IH.fresh _ _ ha with h1 | ⟨y, hy1, hy2, _, _, _⟩
            · rw [hlst1] at h1; exact hnot (hok _ _ h1)
            · have : y = id := by injection hy1 with h; exact h.symm
              rw [this] at hy2
              exact hy2 ((hhas1 id).mpr (Or.inl rfl))
          · rw [if_neg hP]; exact hnd2 P

theorem regDir_spec (t : Tree) (hv : ValidTree t) (d : DirMap) (id : Id) (h : isDirId t id = true) :
    RegDirSpec t d (regDir d id) id := by
  rw [regDir_eq]; exact regDirF_spec t hv _ d id (Nat.lt_succ_self _) h

/-! ## the invariant of the archive index -/

/-- The `dirs` map after the registrations `L` (all of them entries of the tree `t`): the root
is registered; only directories of the tree are; a registered directory is listed in its
(registered) parent; a listed directory is registered and listed in *its* parent; a listed file
was registered with that parent; no listing has duplicates; every registered file is listed in
its directory and every registered directory is known. -/
structure Inv (t : Tree) (L : List Reg) (d : DirMap) : Prop where
  root : has d []
  sound : ∀ p, has d p → isDirId t p = true
  up : ∀ p, has d p → p ≠ [] → has d (par p) ∧ Entry.dir p ∈ lst d (par p)
  dirOk : ∀ P q, Entry.dir q ∈ lst d P → q ≠ [] ∧ par q = P ∧ has d q
  fileOk : ∀ P id e, Entry.file id e ∈ lst d P → ∃ r ∈ L, r.parent = P ∧ r.id = id ∧ ∃ b, r.file = some (e, b)
  nodup : ∀ P, (lst d P).Nodup
  fileIn : ∀ r ∈ L, ∀ e b, r.file = some (e, b) → Entry.file r.id e ∈ lst d r.parent
  dirIn : ∀ r ∈ L, r.file = none → has d r.id

theorem inv_regDir {t : Tree} (hv : ValidTree t) {L : List Reg} {d : DirMap} (hI : Inv t L d) (id : Id)
    (hid : isDirId t id = true) :
    Inv t L (regDir d id) ∧ has (regDir d id) id ∧
      (∀ P e, e ∈ lst d P → e ∈ lst (regDir d id) P) ∧ (∀ p, has d p → has (regDir d id) p) := by
  have S := regDir_spec t hv d id hid
  refine ⟨⟨S.mono _ hI.root, ?_, ?_, ?_, ?_, ?_, ?_, ?_⟩, S.target, S.keep, S.mono⟩
  · intro p h
    rcases S.sound p h with h | h
    · exact hI.sound p h
    · exact h
  · intro p h hne
    by_cases hp : has d p
    · obtain ⟨a, b⟩ := hI.up p hp hne
      exact ⟨S.mono _ a, S.keep _ _ b⟩
    · exact S.up p hp h hne
  · intro P q h
    rcases S.fresh P _ h with h | ⟨y, hy1, _, hy3, hy4, hy5⟩
    · obtain ⟨a, b, c⟩ := hI.dirOk P q h
      exact ⟨a, b, S.mono _ c⟩
    · have : q = y := by injection hy1
      rw [this]; exact ⟨hy4, hy5, hy3⟩
  · intro P i e h
    rcases S.fresh P _ h with h | ⟨y, hy1, _⟩
    · exact hI.fileOk P i e h
    · cases hy1
  · exact S.nodup hI.nodup (fun P q h => (hI.dirOk P q h).2.2)
  · intro r hr e b hf; exact S.keep _ _ (hI.fileIn r hr e b hf)
  · intro r hr hf; exact S.mono _ (hI.dirIn r hr hf)

/-- A file registration: its directory (and ancestors) registered, then the file pushed. -/
theorem inv_file {t : Tree} (hv : ValidTree t) {L : List Reg} {d : DirMap} (hI : Inv t L d) (r : Reg) (e : Name) (b : Bytes)
    (hf : r.file = some (e, b)) (hpar : isDirId t r.parent = true)
    (hnew : ∀ r' ∈ L, ∀ b', ¬ (r'.id = r.id ∧ r'.file = some (e, b'))) :
    Inv t (r :: L) (pushInto (regDir d r.parent) r.parent (.file r.id e)) := by
  obtain ⟨I1, ht, _, _⟩ := inv_regDir hv hI r.parent hpar
  generalize regDir d r.parent = d1 at I1 ht
  have hhas : ∀ p, has (pushInto d1 r.parent (.file r.id e)) p ↔ has d1 p := by
    intro p; rw [has_pushInto]
    constructor
    · rintro (h | h)
      · rw [h]; exact ht
      · exact h
    · exact Or.inr
  have hmem : ∀ P x, x ∈ lst (pushInto d1 r.parent (.file r.id e)) P ↔
      x ∈ lst d1 P ∨ (P = r.parent ∧ x = .file r.id e) := by
    intro P x
    rw [lst_pushInto]
    by_cases hP : P = r.parent
    · rw [if_pos hP, hP]; simp
    · rw [if_neg hP]; simp [hP]
  refine ⟨(hhas _).mpr I1.root, fun p h => I1.sound p ((hhas p).mp h), ?_, ?_, ?_, ?_, ?_, ?_⟩
  · intro p h hne
    obtain ⟨a, c⟩ := I1.up p ((hhas p).mp h) hne
    exact ⟨(hhas _).mpr a, (hmem _ _).mpr (Or.inl c)⟩
  · intro P q h
    rcases (hmem _ _).mp h with h | ⟨_, h⟩
    · obtain ⟨a, c, c'⟩ := I1.dirOk P q h
      exact ⟨a, c, (hhas _).mpr c'⟩
    · cases h
  · intro P i x h
    rcases (hmem _ _).mp h with h | ⟨hP, h⟩
    · obtain ⟨r', hr', hh⟩ := I1.fileOk P i x h
      exact ⟨r', List.mem_cons_of_mem _ hr', hh⟩
    · injection h with h1 h2
      exact ⟨r, List.mem_cons_self, hP.symm, h1.symm, b, by rw [hf, h2]⟩
  · intro P
    rw [lst_pushInto]
    by_cases hP : P = r.parent
    · rw [if_pos hP]
      apply List.nodup_append.mpr
      refine ⟨I1.nodup _, by simp, ?_⟩
      intro a ha c hc
      simp at hc
      subst hc
      intro hac
      subst hac
      obtain ⟨r', hr', _, hid, b', hf'⟩ := I1.fileOk _ _ _ ha
      exact hnew r' hr' b' ⟨hid, hf'⟩
    · rw [if_neg hP]; exact I1.nodup P
  · intro r' hr' e' b' hf'
    rcases List.mem_cons.mp hr' with h | h
    · subst h
      rw [hf] at hf'
      injection hf' with hf'
      injection hf' with h1 _
      rw [← h1]
      exact (hmem _ _).mpr (Or.inr ⟨rfl, rfl⟩)
    · exact (hmem _ _).mpr (Or.inl (I1.fileIn r' h e' b' hf'))
  · intro r' hr' hf'
    rcases List.mem_cons.mp hr' with h | h
    · subst h; rw [hf] at hf'; cases hf'
    · exact (hhas _).mpr (I1.dirIn r' h hf')

/-- A directory registration. -/
theorem inv_dir {t : Tree} (hv : ValidTree t) {L : List Reg} {d : DirMap} (hI : Inv t L d) (r : Reg)
    (hf : r.file = none) (hid : isDirId t r.id = true) : Inv t (r :: L) (regDir d r.id) := by
  obtain ⟨I1, ht, _, _⟩ := inv_regDir hv hI r.id hid
  refine ⟨I1.root, I1.sound, I1.up, I1.dirOk, ?_, I1.nodup, ?_, ?_⟩
  · intro P i x h
    obtain ⟨r', hr', hh⟩ := I1.fileOk P i x h
    exact ⟨r', List.mem_cons_of_mem _ hr', hh⟩
  · intro r' hr' e' b' hf'
    rcases List.mem_cons.mp hr' with h | h
    · subst h; rw [hf] at hf'; cases hf'
    · exact I1.fileIn r' h e' b' hf'
  · intro r' hr' hf'
    rcases List.mem_cons.mp hr' with h | h
    · subst h; exact ht
    · exact I1.dirIn r' h hf'

theorem idx0_dirs : idx0.dirs = [([], [])] := by decide

theorem inv_idx0 (t : Tree) : Inv t [] idx0.dirs := by
  rw [idx0_dirs]
  have hhas : ∀ p, has [(([] : Id), ([] : List Entry))] p ↔ p = [] := by
    intro p; unfold has dget
    by_cases h : p = [] <;> simp [h, dget]
  have hlst : ∀ P, lst [(([] : Id), ([] : List Entry))] P = [] := by
    intro P; unfold lst dget
    by_cases h : P = [] <;> simp [h, dget]
  refine ⟨(hhas _).mpr rfl, ?_, ?_, ?_, ?_, ?_, ?_, ?_⟩
  · intro p h; rw [(hhas p).mp h]; rfl
  · intro p h hne; exact absurd ((hhas p).mp h) hne
  · intro P q h; rw [hlst] at h; cases h
  · intro P i e h; rw [hlst] at h; cases h
  · intro P; rw [hlst]; exact List.nodup_nil
  · intro r hr; cases hr
  · intro r hr; cases hr

/-- Where an entry of the tree lives. -/
theorem reg_of_tree {t : Tree} (hv : ValidTree t) (r : Reg) (hr : r ∈ regsOfTree t) :
    (∀ eb, r.file = some eb → isDirId t r.parent = true) ∧ (r.file = none → isDirId t r.id = true) := by
  simp only [regsOfTree, List.mem_append, List.mem_map] at hr
  rcases hr with ⟨f, hf, rfl⟩ | ⟨q, hq, rfl⟩
  · refine ⟨fun _ _ => ?_, fun h => by simp [fileReg] at h⟩
    rw [isDirId_iff]
    rcases (hv.1 f hf).2.2.2 with h | h
    · left; simp [fileReg, h, dirId, joinDot]
    · right; exact ⟨f.dir, h, rfl⟩
  · refine ⟨fun eb h => by simp [dirReg] at h, fun _ => ?_⟩
    rw [isDirId_iff]; right; exact ⟨q, hq, rfl⟩

/-- The invariant holds after any sequence of registrations of entries of the tree in which no
file (id, extension) occurs twice. -/
theorem inv_indexR {t : Tree} (hv : ValidTree t) : ∀ (rs : List Reg), (∀ r ∈ rs, r ∈ regsOfTree t) →
    ((fileKVs rs).map (·.1)).Nodup → Inv t rs (indexR rs).dirs := by
  intro rs
  induction rs with
  | nil => intro _ _; exact inv_idx0 t
  | cons r rs ih =>
    intro hsub hnd
    have hr := reg_of_tree hv r (hsub r List.mem_cons_self)
    have hsub' : ∀ r' ∈ rs, r' ∈ regsOfTree t := fun r' h => hsub r' (List.mem_cons_of_mem _ h)
    cases hf : r.file with
    | none =>
      have hnd' : ((fileKVs rs).map (·.1)).Nodup := by
        simpa [fileKVs, List.filterMap_cons, Reg.kv, hf] using hnd
      have I := ih hsub' hnd'
      simp only [indexR, applyReg, hf]
      exact inv_dir hv I r hf (hr.2 hf)
    | some eb =>
      obtain ⟨e, b⟩ := eb
      have hnd2 : (((r.id, e), b) :: fileKVs rs).map (·.1) |>.Nodup := by
        simpa [fileKVs, List.filterMap_cons, Reg.kv, hf] using hnd
      rw [List.map_cons, List.nodup_cons] at hnd2
      have I := ih hsub' hnd2.2
      simp only [indexR, applyReg, hf]
      apply inv_file hv I r e b hf (hr.1 _ hf)
      intro r' hr' b' ⟨h1, h2⟩
      apply hnd2.1
      apply List.mem_map.mpr
      refine ⟨((r'.id, e), b'), ?_, by simp [h1]⟩
      apply List.mem_filterMap.mpr
      exact ⟨r', hr', by simp [Reg.kv, h2]⟩

end AmVerif.Lemmas.Archive
