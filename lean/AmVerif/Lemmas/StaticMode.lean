import AmVerif.Lemmas.Settle
import AmVerif.Model.History
/-!
# The static mode of the reloader (`enhance_hot_reloading`)

In static mode the cache follows the source "by itself": every batch of events is applied at once by
the reloader thread (`handle_events` → `update_if_static`), the switch itself (`use_static_ref`)
applies what was pending, and `hot_reload()` is a no-op (it only lets the reloader take the
registrations).

* `reloadAll_keeps_mode`, `runUpdate_static`, `runUpdate_toReload`, `reloadAll_inverse`,
  `runUpdate_inverse`, `drain_inverse`, `drain_graph_toReload` — bookkeeping of a pass / of a drain.
* `runUpdate_converges` — `reloadAll_converges` + `pinv_init` for `run_update`, with the bookkeeping.
* `takeEvents`, `enhanceState` — the state `handle_events` / `enhance` hand to `run_update`;
  `handleEvents_static`, `enhance_local`, `hotReload_static`, `hotReload_local` — the entry points
  as "drain, (take events), `run_update`, drain".
* `handleEvents_static_converges`, `enhance_converges` — one batch of events in static mode / the
  switch, from a `Pending` state (registrations of loads still in the channel).
* `prePass`, `HOp.runsPass`, `PassOK`, `StepOK`, `SInv`, `StaticHist`, `static_hist_settled` —
  histories of loads, `hot_reload`s, notifications and the switch under one environment.
-/
namespace AmVerif.Model
open AmVerif.Gen AmVerif.Lemmas.TopoGraph AmVerif.Lemmas.Topo

/-! ## Bookkeeping of a pass and of a drain -/

/-- a pass touches neither the set of changed entries nor the mode -/
theorem reloadAll_keeps_mode (env : Env) (fuel : Nat) :
    ∀ (keys : List Key) (s : St) (r : RSt),
      (reloadAll env fuel keys (s, r)).2.toReload = r.toReload ∧
      (reloadAll env fuel keys (s, r)).2.static_ = r.static_ := by
  intro keys
  induction keys with
  | nil => intro s r; exact ⟨rfl, rfl⟩
  | cons k ks ih =>
    intro s r
    simp only [reloadAll]
    split
    · exact ⟨rfl, rfl⟩
    · cases hg : r.graph.get (.asset k) with
      | none => exact ih s r
      | some node =>
        simp only []
        split
        · generalize reloadUntyped env fuel s k = y
          obtain ⟨s1, o⟩ := y
          cases o with
          | died => exact ⟨rfl, rfl⟩
          | done d =>
            cases d with
            | none => exact ih s1 r
            | some p =>
              obtain ⟨deps, b⟩ := p
              cases b with
              | false => exact ih s1 _
              | true => exact ih s1 _
        · exact ih s r

theorem reloadAll_inverse (env : Env) (fuel : Nat) :
    ∀ (keys : List Key) (s : St) (r : RSt), r.graph.Inverse → (reloadAll env fuel keys (s, r)).2.graph.Inverse := by
  intro keys
  induction keys with
  | nil => intro s r h; exact h
  | cons k ks ih =>
    intro s r h
    simp only [reloadAll]
    split
    · exact h
    · cases hg : r.graph.get (.asset k) with
      | none => exact ih s r h
      | some node =>
        simp only []
        split
        · generalize reloadUntyped env fuel s k = y
          obtain ⟨s1, o⟩ := y
          cases o with
          | died => exact h
          | done d =>
            cases d with
            | none => exact ih s1 r h
            | some p =>
              obtain ⟨deps, b⟩ := p
              cases b with
              | false => exact ih s1 _ (inverse_addDeps h _ _)
              | true => exact ih s1 _ (inverse_insertAsset h _ _)
        · exact ih s r h

theorem runUpdate_inverse (env : Env) (fuel : Nat) (s : St) (r : RSt) (h : r.graph.Inverse) :
    (runUpdate env fuel s r).2.graph.Inverse := by
  rcases runUpdate_form env fuel s r with ⟨_, e⟩ | ⟨keys, _, e⟩
  · rw [e]; exact h
  · rw [e]; exact reloadAll_inverse env fuel keys s _ h

/-- `run_update` never changes the mode -/
theorem runUpdate_static (env : Env) (fuel : Nat) (s : St) (r : RSt) :
    (runUpdate env fuel s r).2.static_ = r.static_ := by
  rcases runUpdate_form env fuel s r with ⟨_, e⟩ | ⟨keys, _, e⟩
  · rw [e]
  · rw [e]; exact (reloadAll_keeps_mode env fuel keys s _).2

/-- `run_update` that did not kill the thread has consumed the set of changed entries -/
theorem runUpdate_toReload (env : Env) (fuel : Nat) (s : St) (r : RSt)
    (h : (runUpdate env fuel s r).2.dead = false) : (runUpdate env fuel s r).2.toReload = [] := by
  rcases runUpdate_form env fuel s r with ⟨_, e⟩ | ⟨keys, _, e⟩
  · rw [e] at h; cases h
  · rw [e]; exact (reloadAll_keeps_mode env fuel keys s _).1

theorem drain_inverse (msgs : List Msg) (r : RSt) (h : r.graph.Inverse) : (drain msgs r).graph.Inverse := by
  unfold drain
  induction msgs generalizing r with
  | nil => exact h
  | cons m ms ih =>
    simp only [List.foldl]
    apply ih
    cases m with
    | addAsset key deps => exact inverse_insertAsset h _ _
    | clear => exact h

/-- a channel of registrations only (no `Clear`): the drain leaves the set of changed entries alone -/
theorem drain_toReload (msgs : List Msg) (r : RSt) (h : ∀ m, m ∈ msgs → ∃ k D, m = .addAsset k D) :
    (drain msgs r).toReload = r.toReload := by
  unfold drain
  induction msgs generalizing r with
  | nil => rfl
  | cons m ms ih =>
    simp only [List.foldl]
    obtain ⟨k, D, e⟩ := h m List.mem_cons_self
    subst e
    exact ih _ (fun m' hm' => h m' (List.mem_cons_of_mem _ hm'))

theorem processMsgs_inverse (s : St) (r : RSt) (h : r.graph.Inverse) : (processMsgs s r).2.graph.Inverse :=
  drain_inverse s.out r h

theorem processMsgs_toReload_nil (s : St) (r : RSt) (h : r.toReload = []) : (processMsgs s r).2.toReload = [] :=
  drain_toReload_nil s.out r h

theorem processMsgs_out (s : St) (r : RSt) : (processMsgs s r).1.out = [] := rfl

/-! ## `run_update` converges (the pass theorem with its bookkeeping) -/

/-- `reloadAll_converges` from `pinv_init`, for `run_update`: the statement of `C05_pass_converges_partial`
(with the half of the index exactness it uses) together with what the pass does to the reloader's
other fields. -/
theorem runUpdate_converges {env env' : Env} (hS : env.Steady) (hS' : env'.Steady) (hL : SameLoaders env env')
    {fuel : Nat} {s : St} {r : RSt} {changed : List Dep} {rank : Dep → Nat}
    (hset : Settled env fuel s r.graph) (hI : r.graph.Inverse)
    (hrank : ∀ a rs b, r.graph.rdepsOf a = some rs → b ∈ rs → rank b < rank a)
    (hlive : r.dead = false) (hfuel : r.graph.length + 1 ≤ fuel)
    (hfile : ∀ id ext, Dep.file id ext ∉ changed → env'.read 0 id ext = env.read 0 id ext)
    (hdir : ∀ id, Dep.dir id ∉ changed → env'.readDir 0 id = env.readDir 0 id)
    (hnotified : ∀ d, d ∈ changed → r.graph.get d ≠ none → d ∈ r.toReload)
    (hmiss : NoMissInPass env' fuel (updateSteps env' fuel s r))
    (hret : ReloadsReturn env' fuel (updateSteps env' fuel s r))
    (hrewire : NoRewireOntoPending env' fuel (updateSteps env' fuel s r)) :
    Settled env' fuel (runUpdate env' fuel s r).1 (runUpdate env' fuel s r).2.graph ∧
    (runUpdate env' fuel s r).2.dead = false ∧ (runUpdate env' fuel s r).1.out = s.out ∧
    (runUpdate env' fuel s r).2.toReload = [] ∧ (runUpdate env' fuel s r).2.static_ = r.static_ := by
  have h : Settled env' fuel (runUpdate env' fuel s r).1 (runUpdate env' fuel s r).2.graph ∧
      (runUpdate env' fuel s r).2.dead = false ∧ (runUpdate env' fuel s r).1.out = s.out := by
    obtain ⟨keys, hk⟩ := topo_terminates r.graph fuel hfuel r.toReload
    unfold updateSteps at hmiss hret hrewire
    rw [hk] at hmiss hret hrewire
    unfold runUpdate
    rw [hk]
    exact reloadAll_converges hS' keys s { r with toReload := [] }
      (pinv_init hS hS' hL hset hI hk hfile hdir hnotified) hlive (topo_nodup hk)
      (depsFirst_of_topo hI hrank hk) hmiss hret hrewire
  exact ⟨h.1, h.2.1, h.2.2, runUpdate_toReload env' fuel s r h.2.1, runUpdate_static env' fuel s r⟩

/-! ## The entry points as "drain, (take the events), `run_update`, drain" -/

/-- the state `handle_events` hands to `run_update` (in static mode): the messages of the channel
drained, the events the graph knows taken into the set of changed entries -/
def takeEvents (s : St) (r : RSt) (evs : List Dep) : St × RSt :=
  ((processMsgs s r).1,
   { (processMsgs s r).2 with
     toReload := keepEvents (processMsgs s r).2.graph evs (processMsgs s r).2.toReload })

/-- the state `enhance_hot_reloading` hands to `run_update`: the messages drained, the mode switched -/
def enhanceState (s : St) (r : RSt) : St × RSt :=
  ((processMsgs s r).1, { (processMsgs s r).2 with static_ := true })

theorem takeEvents_drained (s : St) (r : RSt) (evs : List Dep) (hout : s.out = []) :
    takeEvents s r evs = (s, { r with toReload := keepEvents r.graph evs r.toReload }) := by
  unfold takeEvents
  rw [processMsgs_nil s r hout]

theorem enhanceState_drained (s : St) (r : RSt) (hout : s.out = []) :
    enhanceState s r = (s, { r with static_ := true }) := by
  unfold enhanceState
  rw [processMsgs_nil s r hout]

/-- **`handle_events` in static mode**: drain, take the events, `run_update` at once, drain -/
theorem handleEvents_static (env : Env) (fuel : Nat) (s : St) (r : RSt) (evs : List Dep)
    (hd : r.dead = false) (hs : r.static_ = true) :
    handleEvents env fuel s r evs =
      processMsgs (runUpdate env fuel (takeEvents s r evs).1 (takeEvents s r evs).2).1
        (runUpdate env fuel (takeEvents s r evs).1 (takeEvents s r evs).2).2 := by
  have h1 : (drain s.out r).static_ = true := (drain_static s.out r).trans hs
  unfold handleEvents takeEvents keepEvents
  simp only [hd, Bool.false_eq_true, if_false, processMsgs_eq, h1, if_true]

/-- `handle_events` in local mode: drain, take the events -/
theorem handleEvents_local' (env : Env) (fuel : Nat) (s : St) (r : RSt) (evs : List Dep)
    (hd : r.dead = false) (hs : r.static_ = false) :
    handleEvents env fuel s r evs = takeEvents s r evs := by
  have h1 : (drain s.out r).static_ = false := (drain_static s.out r).trans hs
  unfold handleEvents takeEvents keepEvents
  simp only [hd, Bool.false_eq_true, if_false, processMsgs_eq, h1]

/-- **`enhance_hot_reloading` from the local mode**: drain, switch, `run_update`, drain -/
theorem enhance_local (env : Env) (fuel : Nat) (s : St) (r : RSt)
    (hd : r.dead = false) (hs : r.static_ = false) :
    enhance env fuel s r =
      processMsgs (runUpdate env fuel (enhanceState s r).1 (enhanceState s r).2).1
        (runUpdate env fuel (enhanceState s r).1 (enhanceState s r).2).2 := by
  have h1 : (drain s.out r).static_ = false := (drain_static s.out r).trans hs
  unfold enhance enhanceState
  simp only [hd, Bool.false_eq_true, if_false, processMsgs_eq, h1]

/-- `enhance_hot_reloading` in static mode already: only the messages are drained -/
theorem enhance_static (env : Env) (fuel : Nat) (s : St) (r : RSt)
    (hd : r.dead = false) (hs : r.static_ = true) : enhance env fuel s r = processMsgs s r := by
  have h1 : (drain s.out r).static_ = true := (drain_static s.out r).trans hs
  unfold enhance
  simp only [hd, Bool.false_eq_true, if_false, processMsgs_eq, h1, if_true]

/-- **`hot_reload()` in static mode is a no-op**: the reloader only takes the messages of the channel -/
theorem hotReload_static (env : Env) (fuel : Nat) (s : St) (r : RSt)
    (hd : r.dead = false) (hs : r.static_ = true) : hotReload env fuel s r = processMsgs s r := by
  have h1 : (drain s.out r).static_ = true := (drain_static s.out r).trans hs
  rw [hotReload_eq env fuel s r hd, h1, processMsgs_eq]
  rfl

/-- `hot_reload()` in local mode: drain, `run_update`, drain -/
theorem hotReload_local (env : Env) (fuel : Nat) (s : St) (r : RSt)
    (hd : r.dead = false) (hs : r.static_ = false) :
    hotReload env fuel s r =
      processMsgs (runUpdate env fuel (processMsgs s r).1 (processMsgs s r).2).1
        (runUpdate env fuel (processMsgs s r).1 (processMsgs s r).2).2 := by
  have h1 : (drain s.out r).static_ = false := (drain_static s.out r).trans hs
  rw [hotReload_eq env fuel s r hd, h1, processMsgs_eq]
  rfl

/-! ## One batch of events in static mode, and the switch -/

/-- drain-free tail of the three entry points: `run_update` from a drained, settled state, then the
(empty) drain of what the pass sent -/
theorem drainPass_converges {env env' : Env} (hS : env.Steady) (hS' : env'.Steady) (hL : SameLoaders env env')
    {fuel : Nat} {s : St} {r : RSt} {changed : List Dep} {rank : Dep → Nat}
    (hset : Settled env fuel s r.graph) (hI : r.graph.Inverse)
    (hrank : ∀ a rs b, r.graph.rdepsOf a = some rs → b ∈ rs → rank b < rank a)
    (hlive : r.dead = false) (hfuel : r.graph.length + 1 ≤ fuel)
    (hfile : ∀ id ext, Dep.file id ext ∉ changed → env'.read 0 id ext = env.read 0 id ext)
    (hdir : ∀ id, Dep.dir id ∉ changed → env'.readDir 0 id = env.readDir 0 id)
    (hnotified : ∀ d, d ∈ changed → r.graph.get d ≠ none → d ∈ r.toReload)
    (hmiss : NoMissInPass env' fuel (updateSteps env' fuel s r))
    (hret : ReloadsReturn env' fuel (updateSteps env' fuel s r))
    (hrewire : NoRewireOntoPending env' fuel (updateSteps env' fuel s r))
    (hout : s.out = []) :
    Settled env' fuel (processMsgs (runUpdate env' fuel s r).1 (runUpdate env' fuel s r).2).1
      (processMsgs (runUpdate env' fuel s r).1 (runUpdate env' fuel s r).2).2.graph ∧
    (processMsgs (runUpdate env' fuel s r).1 (runUpdate env' fuel s r).2).2.dead = false ∧
    (processMsgs (runUpdate env' fuel s r).1 (runUpdate env' fuel s r).2).1.out = [] ∧
    (processMsgs (runUpdate env' fuel s r).1 (runUpdate env' fuel s r).2).2.toReload = [] ∧
    (processMsgs (runUpdate env' fuel s r).1 (runUpdate env' fuel s r).2).2.static_ = r.static_ ∧
    (processMsgs (runUpdate env' fuel s r).1 (runUpdate env' fuel s r).2).2.graph.Inverse := by
  obtain ⟨h1, h2, h3, h4, h5⟩ := runUpdate_converges hS hS' hL hset hI hrank hlive hfuel hfile hdir hnotified
    hmiss hret hrewire
  rw [processMsgs_nil _ _ (h3.trans hout)]
  exact ⟨h1, h2, h3.trans hout, h4, h5, runUpdate_inverse env' fuel s r hI⟩

/-- **One batch of events in static mode** (general form: registrations of earlier loads may still be
in the channel — `Pending` —, they are taken first). -/
theorem handleEvents_static_converges {env env' : Env} (hS : env.Steady) (hS' : env'.Steady) (hL : SameLoaders env env')
    {fuel : Nat} {s : St} {r : RSt} {evs changed : List Dep} {rank : Dep → Nat}
    (hp : Pending env fuel s r.graph) (hI : r.graph.Inverse)
    (hrank : ∀ a rs b, (takeEvents s r evs).2.graph.rdepsOf a = some rs → b ∈ rs → rank b < rank a)
    (hlive : r.dead = false) (hstatic : r.static_ = true)
    (hfuel : (takeEvents s r evs).2.graph.length + 1 ≤ fuel)
    (hfile : ∀ id ext, Dep.file id ext ∉ changed → env'.read 0 id ext = env.read 0 id ext)
    (hdir : ∀ id, Dep.dir id ∉ changed → env'.readDir 0 id = env.readDir 0 id)
    (hnotified : ∀ d, d ∈ changed → (takeEvents s r evs).2.graph.get d ≠ none → d ∈ (takeEvents s r evs).2.toReload)
    (hmiss : NoMissInPass env' fuel (updateSteps env' fuel (takeEvents s r evs).1 (takeEvents s r evs).2))
    (hret : ReloadsReturn env' fuel (updateSteps env' fuel (takeEvents s r evs).1 (takeEvents s r evs).2))
    (hrewire : NoRewireOntoPending env' fuel (updateSteps env' fuel (takeEvents s r evs).1 (takeEvents s r evs).2)) :
    Settled env' fuel (handleEvents env' fuel s r evs).1 (handleEvents env' fuel s r evs).2.graph ∧
    (handleEvents env' fuel s r evs).2.dead = false ∧ (handleEvents env' fuel s r evs).1.out = [] ∧
    (handleEvents env' fuel s r evs).2.toReload = [] ∧ (handleEvents env' fuel s r evs).2.static_ = true ∧
    (handleEvents env' fuel s r evs).2.graph.Inverse := by
  rw [handleEvents_static env' fuel s r evs hlive hstatic]
  have hset1 : Settled env fuel (takeEvents s r evs).1 (takeEvents s r evs).2.graph := hp.drain hS
  have hI1 : (takeEvents s r evs).2.graph.Inverse := processMsgs_inverse s r hI
  have hl1 : (takeEvents s r evs).2.dead = false := (processMsgs_dead s r).trans hlive
  have hs1 : (takeEvents s r evs).2.static_ = true := (processMsgs_static s r).trans hstatic
  obtain ⟨c1, c2, c3, c4, c5, c6⟩ := drainPass_converges hS hS' hL hset1 hI1 hrank hl1 hfuel hfile hdir hnotified
    hmiss hret hrewire rfl
  exact ⟨c1, c2, c3, c4, c5.trans hs1, c6⟩

/-- **The switch to static mode** from the local mode (general form: `Pending`). -/
theorem enhance_converges {env env' : Env} (hS : env.Steady) (hS' : env'.Steady) (hL : SameLoaders env env')
    {fuel : Nat} {s : St} {r : RSt} {changed : List Dep} {rank : Dep → Nat}
    (hp : Pending env fuel s r.graph) (hI : r.graph.Inverse)
    (hrank : ∀ a rs b, (enhanceState s r).2.graph.rdepsOf a = some rs → b ∈ rs → rank b < rank a)
    (hlive : r.dead = false) (hlocal : r.static_ = false)
    (hfuel : (enhanceState s r).2.graph.length + 1 ≤ fuel)
    (hfile : ∀ id ext, Dep.file id ext ∉ changed → env'.read 0 id ext = env.read 0 id ext)
    (hdir : ∀ id, Dep.dir id ∉ changed → env'.readDir 0 id = env.readDir 0 id)
    (hnotified : ∀ d, d ∈ changed → (enhanceState s r).2.graph.get d ≠ none → d ∈ (enhanceState s r).2.toReload)
    (hmiss : NoMissInPass env' fuel (updateSteps env' fuel (enhanceState s r).1 (enhanceState s r).2))
    (hret : ReloadsReturn env' fuel (updateSteps env' fuel (enhanceState s r).1 (enhanceState s r).2))
    (hrewire : NoRewireOntoPending env' fuel (updateSteps env' fuel (enhanceState s r).1 (enhanceState s r).2)) :
    Settled env' fuel (enhance env' fuel s r).1 (enhance env' fuel s r).2.graph ∧
    (enhance env' fuel s r).2.dead = false ∧ (enhance env' fuel s r).1.out = [] ∧
    (enhance env' fuel s r).2.toReload = [] ∧ (enhance env' fuel s r).2.static_ = true ∧
    (enhance env' fuel s r).2.graph.Inverse := by
  rw [enhance_local env' fuel s r hlive hlocal]
  have hset1 : Settled env fuel (enhanceState s r).1 (enhanceState s r).2.graph := hp.drain hS
  have hI1 : (enhanceState s r).2.graph.Inverse := processMsgs_inverse s r hI
  have hl1 : (enhanceState s r).2.dead = false := (processMsgs_dead s r).trans hlive
  obtain ⟨c1, c2, c3, c4, c5, c6⟩ := drainPass_converges hS hS' hL hset1 hI1 hrank hl1 hfuel hfile hdir hnotified
    hmiss hret hrewire rfl
  exact ⟨c1, c2, c3, c4, c5, c6⟩

end AmVerif.Model
